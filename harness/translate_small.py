#!/venv/bin/python
"""Fail-closed translator of three small kernels from Python to Gallina.

    /venv/bin/python harness/translate_small.py [walk|probs|edit]     print the generated text
    /venv/bin/python harness/translate_small.py --write               write coq/gen/Small_*_gen.v

Sources and outputs (one generated file per kernel, so that a kernel that no
longer translates breaks only the property that depends on it):

  walk   lib_guesser/pcfg_grammar.py  class PcfgGrammar  random_walk
         -> coq/gen/Small_walk_gen.v   (model: theories/Honey.v, property C16)
  probs  lib_trainer/calculate_probabilities.py  apply_probability_smoothing,
         calculate_probabilities
         -> coq/gen/Small_probs_gen.v  (model: theories/Counters.v, property C06)
  edit   edit_rules.py  check_regex, edit_terminal_set, edit_length, edit_rules
         -> coq/gen/Small_edit_gen.v   (model: theories/EditRules.v, property C20)

The source is only parsed (`ast`), never imported or executed.  The output
targets the runtime coq/theories/SmallRt.v (+ KernelRt.v for sub / set_nth /
append); coq/theories/SmallGenProofs.v proves each generated definition equal to
the hand-written model the property theorems are about.  A change of one of
these functions changes the generated text and the equality proofs are
re-checked against it on every run.  Comments, docstrings, blank lines and
formatting do not reach the output (except the source line numbers in the
comments of the generated text); local variable names are carried over, and the
proofs do not depend on them.

Accepted subset, common part (anything else raises TranslateError, file:line):

  statements  a docstring; pass; print(...) of constants, names and f-strings
              (no effect on the result: dropped); x = e; x += e; x = x + e;
              if / elif / else (a conditional that is followed by more statements
              either leaves on one side or contains no control flow);
              for x in l / for i, x in enumerate(l) / for i in range(a, b), with
              continue, break and a for ... else block (the else block may not
              leave the function); return e.
              Mutation is accepted on fresh local lists only, as long as they
              have not been stored anywhere else: l.append(e), l[i] = e.  A loop
              `for i, x in enumerate(l)` whose body assigns `l[j] = e` (the only
              accepted mutation of the iterated list; it keeps the length) is
              translated to SmallRt.for_enum_cur, which reads the item from the
              list held in the loop state.
              A local dict with constant string keys built by a literal and
              d[key] = e is kept as one variable per key (d_key); `return d`
              yields the tuple of its fields in the order the kernel fixes.
              A variable first bound by a loop is accepted when it is bound on
              every way out of it (`x = e` in the for ... else block and `x = ..`
              before each `break`) and not read inside: it is loop state whose
              value before the loop is an "undefined" value that is never read.
              `for i, (a, b) in enumerate(l)` unpacks a pair-valued item (`_` is a
              name that may not be read).  d[key] = [comprehension] is a fresh
              list.
              A None sentinel: `x = None`, `x = e` (stored as Some e while x may
              still be None), `if x is None: .. else: ..` / `is not None` (a match;
              in the not-None branch and after `if x is None: x = e` x is the
              value itself).  The joined variables of a conditional may change
              their type if both branches agree.
  expressions names; constants; the kernel-specific forms listed below;
              comparisons of two naturals, also chained (a <= b <= c is
              (a <= b) and (b <= c): operands are pure); `not`, `and`, `or` in
              conditions and as boolean values (truth value of an int: non-zero;
              of a string or list: non-empty).
              Comprehensions with one `for` clause and no side effects:
              [e for p in l if c] is map (fun p => e) (filter (fun p => c) l);
              all(c for p in l) / any(..) is forallb / existsb (short-circuit
              evaluation of pure tests changes nothing); p is a name or a pair of
              names for pair-valued elements, local to the comprehension.
  ints        are naturals: only constants >= 0, +, comparison and `e - 1`
              (TRUNCATED at 0; Python gives -1 there - see "not modelled").
  signatures  every generated definition of a kernel takes the whole context of
              the kernel (operations, oracles, "undefined" values) as explicit
              parameters, used or not: its type does not depend on the spelling
              of the current source.

  walk:  1.0 and 0 (as a probability: `x = 0` followed by `x += <probability>`
         makes x a probability, int 0 + float being exact); random.random() as the
         whole right-hand side of an assignment (draws are an explicit input
         list `rnd`, consumed from the front); self.base (iterated, or
         self.base[-1]); item['prob'], item['replacements'] on an entry of
         self.base; (a, b) and e[0], e[1] on (variable, index) pairs;
         self.grammar[t] (the groups of a variable, also bound to a local and
         enumerated), len(..) of it, ..[i] (a group), group['prob'],
         len(group['values']); probability * int (the int is
         converted, `ofnat`), + and the comparisons <=, >= (leb) and <, > (ltb)
         on probabilities; self._find_prob(pt, p) as an uninterpreted function
         `find_prob` (it is translated and tied to the model separately, in
         translate_kernel.py; Honey.v does not model the probability of a walk).
  probs: sum(c.values()) (SmallRt.py_sum: left to right from 0);
         c.most_common() (Counters.most_common, the oracle the model names for
         Python's stable descending sort; its result is a fresh list);
         e[0], e[1] on a (value, count) pair; / (ndiv), * (a parameter `nmul`),
         0 and 1 as numbers next to a number; a call, as a statement, of a
         function of this file that the translator has checked to do nothing
         (body: docstring / pass / return).
  edit:  string constants; s.split(c)[i] and s.split(c) for a one-character
         constant c (SmallRt.split_on); s.strip() (SmallRt.strip, the predicate
         str.isspace is a parameter); re.findall('[A-Z][0-9]{0,3}', s) for
         exactly this pattern (EditRules.tokens, the model's tokenizer);
         re.search(r, s) in a condition (the parameter `re_search`, the model's
         oracle); x[0] on a string (a one-character string), x[1:]; int(s)
         (EditRules.int_of; ValueError becomes the result `Raise`, accepted in
         `x += int(..)` / `x = int(..)` only); ''.join(l); + on strings and on
         ints; f-strings whose parts are constants and {s} / {s!s} of strings
         (their concatenation); ==, != between strings; `in` / `not in` with a
         list of strings, also a literal tuple / list of string constants;
         config.get('key') for the keys of the model's config record
         (min_length, max_length: ints; terminal_set: a list of strings or False,
         SmallRt.cfg_list; regex: a list of strings, absent = empty); calls of the
         translated functions (`grammar = edit_length(..)`: its `Raise` is passed
         on).  A variable may be rebound with another type (line =
         re.findall(.., line)) unless a loop or a conditional carries it.  Of edit_rules only the
         statements from the first to the last `if config.get(...): grammar =
         f(grammar, ...)` are translated (the filter passes); the statements
         before (copy, open/read - `grammar = open(..).read()` or the same inside
         `with open(..) as f:`) and after (write back) are file I/O, which the
         correspondence of C20 exercises and the translator does not look at.

What the translation does NOT model: exceptions other than int('') (a subscript
out of range is the total `sub undef l i`, with `undef` a parameter of the
generated definitions; s.split(c)[1] of a line without c likewise); negative ints
(`max_index - 1` for a variable without groups); object identity (mutation is
accepted on fresh local objects only); printing; the int -> float conversion in
`float * int` (the model's `ofnat`); the equality of int and float arithmetic for
the literal 0; that Counter.most_common / re.findall / int behave as the named
model functions (exercised by the correspondence on every run).  Rebinding of the
translated functions from another module is out of the translator's sight.
"""
import ast
import hashlib
import os
import sys

HERE = os.path.dirname(os.path.abspath(__file__))
if HERE not in sys.path:
    sys.path.insert(0, HERE)
import common  # noqa: E402
from translate_kernel import TranslateError, _paren, _close, _comment  # noqa: E402

# ------------------------------------------------------------------ types
NAT, BOOL, UNIT = "nat", "bool", "unit"
# walk
T, NODE, PT, VARS, HBASE, HBASES, WALK = "T", "node", "pt", "vars", "hbase", "hbases", "walk"
GROUP, GROUPS = "group", "groups"
# probs
NUM, KEY, PAIR, CNT = "num", "key", "pair", "counter"
# edit
STR, STRS, RES, CFG = "str", "strs", "res", "config"

RESERVED_COMMON = set("""rnd st fuel tt true false fst snd length sub set_nth append nth seq nil cons list nat bool unit
O S pred fun let in if then else match with end forall exists Type Prop Set as at return fix cofix struct where
Definition Fixpoint Section End Nat N Some None option hd tl last concat skipn map rev app
Cont Brk Ret ctl3 loop_from for_each for_enum for_range for_enum_cur draw drawn split_on strip lstrip char0 s_eqb s_in
list_eqb nonempty hrow py_values py_sum negb andb orb forallb existsb filter""".split())


# builtins the translated functions call: a rebinding anywhere in the module is refused
BUILTINS_USED = {"print", "int", "len", "sum", "enumerate", "range", "all", "any", "str"}


class Env:
    def __init__(self):
        self.types = {}        # name -> type
        self.fresh = set()     # names bound to a local list nothing else refers to
        self.recs = {}         # name -> {"fields": {key: var}, "escaped": bool}: a local dict kept per key
        self.carried = set()   # names that are loop state / joined by a conditional: may not change type

    def copy(self):
        e = Env()
        e.types = dict(self.types)
        e.fresh = set(self.fresh)
        e.recs = {n: {"fields": dict(d["fields"]), "escaped": d["escaped"]} for n, d in self.recs.items()}
        e.carried = set(self.carried)
        return e


class K:
    """context of a block: what falling off its end, continue, break, return e and raise become"""

    def __init__(self, fall, cont, brk, ret, rais):
        self.fall, self.cont, self.brk, self.ret, self.rais = fall, cont, brk, ret, rais


class Retry(Exception):
    pass


class Tr:
    """common part: statements and control flow; the kernels add expressions"""
    KERNEL = "?"
    COQ_TYPE = {NAT: "nat", BOOL: "bool", UNIT: "unit"}
    RESERVED = RESERVED_COMMON
    REC_KEYS = {}            # key -> (type, position in the returned tuple) of the local dict

    def __init__(self, path, rel, owner, fn, spec, done):
        self.path, self.rel, self.owner, self.fn, self.spec, self.done = path, rel, owner, fn, spec, done
        self.promote = set()      # walk: int variables that hold a probability (x = 0; x += p)
        self.opt_elem = {}        # None-sentinel variables -> type of the value they hold otherwise
        self.pending = []         # partial computations of the statement being translated
        self.uid = 0

    # -------------------------------------------------------------- errors, names
    def fail(self, node, msg):
        raise TranslateError("%s:%d: %s%s: %s  [%s]" % (
            self.path, getattr(node, "lineno", self.fn.lineno), self.owner, self.fn.name, msg,
            _comment(ast.unparse(node)).split("\n")[0][:100]))

    def check_name(self, node, name):
        if name in self.RESERVED or name.startswith("py_") or name.startswith("undef") \
                or not name.isidentifier() or not name.isascii():
            self.fail(node, "the variable name %r collides with the generated code" % name)

    def gensym(self, base):
        self.uid += 1
        return "%s%d" % (base, self.uid)

    def check_signature(self):
        fn, spec = self.fn, self.spec
        a = fn.args
        if fn.decorator_list or a.vararg or a.kwarg or a.kwonlyargs or a.posonlyargs or a.kw_defaults or a.defaults:
            self.fail(fn, "unsupported signature")
        names = [x.arg for x in a.args]
        want = (["self"] if spec.get("method") else []) + [n for n, _ in spec["params"]]
        if names != want:
            self.fail(fn, "parameters are %r, the translator knows %r" % (names, want))
        if any(x.annotation is not None for x in a.args) or fn.returns is not None:
            self.fail(fn, "annotations are not supported")
        for n, _ in spec["params"]:
            self.check_name(fn, n)

    # -------------------------------------------------------------- text
    def note(self, s):
        return "(* %d: %s *)" % (s.lineno, _comment(ast.unparse(s).split("\n")[0]))

    def line(self, ind, text, s=None):
        pad = "  " * ind
        if s is None:
            return pad + text + "\n"
        first = pad + text
        return first + " " * max(2, 66 - len(first)) + self.note(s) + "\n"

    @staticmethod
    def state_text(names):
        if not names:
            return "tt", "(_ : unit)"
        if len(names) == 1:
            return names[0], names[0]
        t = "(" + ", ".join(names) + ")"
        return t, "'" + t

    # -------------------------------------------------------------- to be provided by the kernels
    def expr(self, e, env):
        self.fail(e, "unsupported expression")

    def nil_of(self, ty):
        self.fail(self.fn, "no empty literal of type %s" % ty)

    def loop_over(self, s, it, env, inner):
        """iteration over an expression that is not enumerate(...) / range(...): -> (text, item type)"""
        self.fail(s, "unsupported loop")

    def assign_special(self, s, env, ind):
        return None

    def effect_special(self, s, env, ind):
        return None

    def hidden_state(self, stmts):
        """names of implicit state (the draw list) touched by stmts"""
        return []

    def add_op(self, node, a, ta, b, tb):
        if (ta, tb) == (NAT, NAT):
            return "%s + %s" % (_paren(a), _paren(b)), NAT
        self.fail(node, "+ on %s and %s" % (ta, tb))

    # -------------------------------------------------------------- conditions
    def truth(self, node, text, ty):
        if ty == BOOL:
            return text
        if ty == NAT:
            return "negb (Nat.eqb %s 0)" % _paren(text)
        if ty in (STR, STRS):
            return "nonempty %s" % _paren(text)
        self.fail(node, "truth value of a %s" % ty)

    def cond(self, e, env):
        """a condition -> bool text"""
        if isinstance(e, ast.UnaryOp) and isinstance(e.op, ast.Not):
            t, ty = self.expr(e.operand, env) if not self.is_cond_form(e.operand) else (self.cond(e.operand, env), BOOL)
            if ty == NAT:
                return "Nat.eqb %s 0" % _paren(t)
            return "negb %s" % _paren(self.truth(e, t, ty))
        if isinstance(e, ast.BoolOp):
            op = " && " if isinstance(e.op, ast.And) else " || "
            return op.join(_paren(self.cond(v, env)) for v in e.values)
        t, ty = self.expr(e, env)
        return self.truth(e, t, ty)

    @staticmethod
    def is_cond_form(e):
        return isinstance(e, ast.BoolOp) or (isinstance(e, ast.UnaryOp) and isinstance(e.op, ast.Not))

    def nat_compare(self, e, a, b):
        a, b = _paren(a), _paren(b)
        table = {ast.Lt: "Nat.ltb %s %s" % (a, b), ast.LtE: "Nat.leb %s %s" % (a, b),
                 ast.Gt: "Nat.ltb %s %s" % (b, a), ast.GtE: "Nat.leb %s %s" % (b, a),
                 ast.Eq: "Nat.eqb %s %s" % (a, b), ast.NotEq: "negb (Nat.eqb %s %s)" % (a, b)}
        op = type(e.ops[0])
        if op not in table:
            self.fail(e, "unsupported comparison operator")
        return table[op], BOOL

    def common_expr(self, e, env):
        """names, nat constants, booleans, not/and/or, nat arithmetic and comparison"""
        if isinstance(e, ast.Name):
            if e.id in env.recs:
                self.fail(e, "a local dict is used as a value (only `return d` is supported)")
            if e.id not in env.types:
                self.fail(e, "unknown variable %r (not assigned on every path to here?)" % e.id)
            return e.id, env.types[e.id]
        if isinstance(e, ast.Constant):
            if e.value is True:
                return "true", BOOL
            if e.value is False:
                return "false", BOOL
            if type(e.value) is int and e.value >= 0:
                if e.value > 1000:
                    self.fail(e, "int constant too large")
                return "%d" % e.value, NAT
            self.fail(e, "unsupported constant")
        if self.is_cond_form(e):
            return self.cond(e, env), BOOL
        if isinstance(e, ast.BinOp):
            a, ta = self.expr(e.left, env)
            b, tb = self.expr(e.right, env)
            if isinstance(e.op, ast.Add):
                if self.KERNEL == "walk" and {ta, tb} == {NAT, T}:
                    intside = e.left if ta == NAT else e.right
                    if isinstance(intside, ast.Name):      # x = 0 ... x + <probability>: x is a probability
                        self.promote.add(intside.id)
                        raise Retry()
                return self.add_op(e, a, ta, b, tb)
            if isinstance(e.op, ast.Sub) and (ta, tb) == (NAT, NAT):
                if not (isinstance(e.right, ast.Constant) and e.right.value == 1):
                    self.fail(e, "only `e - 1` is supported (ints are naturals)")
                return "%s - 1" % _paren(a), NAT
            return self.arith(e, a, ta, b, tb)
        if isinstance(e, ast.Compare):
            if len(e.ops) != len(e.comparators) or not e.ops:
                self.fail(e, "malformed comparison")
            if len(e.ops) == 1:
                return self.compare(e, env)
            # a OP b OP c  is  (a OP b) and (b OP c); operands are pure, evaluating b twice changes nothing
            parts, left = [], e.left
            for op, right in zip(e.ops, e.comparators):
                link = ast.copy_location(ast.Compare(left=left, ops=[op], comparators=[right]), e)
                t, ty = self.compare(link, env)
                if ty != BOOL:
                    self.fail(e, "chained comparison of non-booleans")
                parts.append(_paren(t))
                left = right
            return " && ".join(parts), BOOL
        if isinstance(e, ast.ListComp):
            binder, inner, lst = self.comprehension(e, env)
            t, ty = self.expr(e.elt, inner)
            if self.pending:
                self.fail(e, "partial computation inside a comprehension")
            return "map (fun %s => %s) %s" % (binder, t, _paren(lst)), self.list_type_of(e, ty)
        if isinstance(e, ast.Call) and isinstance(e.func, ast.Name) and e.func.id in ("all", "any") \
                and len(e.args) == 1 and not e.keywords and isinstance(e.args[0], (ast.GeneratorExp, ast.ListComp)):
            binder, inner, lst = self.comprehension(e.args[0], env)
            c = self.cond(e.args[0].elt, inner)
            if self.pending:
                self.fail(e, "partial computation inside a comprehension")
            return "%s (fun %s => %s) %s" % ("forallb" if e.func.id == "all" else "existsb", binder, c, _paren(lst)), BOOL
        self.fail(e, "unsupported expression (%s)" % type(e).__name__)

    def comprehension(self, node, env):
        """[.. for pat in l if c ..] / (.. for pat in l if c ..) with one generator, no side effects:
        -> (binder of the element function, environment inside it, text of the (filtered) list).
        The binder is local to the comprehension, as in Python 3."""
        if len(node.generators) != 1 or node.generators[0].is_async:
            self.fail(node, "only one plain `for` clause is supported in a comprehension")
        g = node.generators[0]
        if self.pending:
            self.fail(node, "internal: pending partial computation")
        l, tl = self.expr(g.iter, env)
        ety = self.elem_type(node, tl)
        inner = env.copy()
        binder = self.bind_pattern(g.target, ety, inner)
        lst = l
        for c in g.ifs:
            lst = "filter (fun %s => %s) %s" % (binder, self.cond(c, inner), _paren(lst))
        if self.pending:
            self.fail(node, "partial computation inside a comprehension")
        return binder, inner, lst

    def bind_pattern(self, target, ety, inner):
        """loop / comprehension target: a name, or a tuple of names for a pair-valued element"""
        if isinstance(target, ast.Name):
            self.check_name(target, target.id)
            if target.id in inner.recs:
                self.fail(target, "a local dict is rebound")
            inner.types[target.id] = ety
            inner.fresh.discard(target.id)
            return target.id
        if isinstance(target, ast.Tuple) and len(target.elts) == 2 and all(isinstance(x, ast.Name) for x in target.elts) \
                and target.elts[0].id != target.elts[1].id:
            tys = self.pair_types(target, ety)
            for x, ty in zip(target.elts, tys):
                self.check_name(x, x.id)
                if x.id in inner.recs:
                    self.fail(x, "a local dict is rebound")
                inner.types[x.id] = ty
                inner.fresh.discard(x.id)
            return "'(%s, %s)" % (target.elts[0].id, target.elts[1].id)
        self.fail(target, "unsupported comprehension / loop target")

    def pair_types(self, node, ety):
        self.fail(node, "an element of type %s cannot be unpacked" % ety)

    def list_type_of(self, node, ety):
        self.fail(node, "no list type for elements of type %s" % ety)

    def arith(self, e, a, ta, b, tb):
        self.fail(e, "unsupported arithmetic")

    def compare(self, e, env):
        a, ta = self.expr(e.left, env)
        b, tb = self.expr(e.comparators[0], env)
        if (ta, tb) == (NAT, NAT):
            return self.nat_compare(e, a, b)
        self.fail(e, "comparison of %s with %s" % (ta, tb))

    # -------------------------------------------------------------- statements
    @staticmethod
    def terminates(stmts):
        if not stmts:
            return False
        s = stmts[-1]
        if isinstance(s, (ast.Return, ast.Continue, ast.Break)):
            return True
        if isinstance(s, ast.If):
            return Tr.terminates(s.body) and Tr.terminates(s.orelse)
        return False

    def rec_var(self, node):
        """d['key'] for a plain name d and a constant string key -> 'd_key', else None"""
        if isinstance(node, ast.Subscript) and isinstance(node.value, ast.Name) \
                and isinstance(node.slice, ast.Constant) and type(node.slice.value) is str \
                and node.slice.value.isidentifier():
            return "%s_%s" % (node.value.id, node.slice.value)
        return None

    def assigned(self, stmts):
        """names (re)bound or mutated somewhere in stmts, in order of first occurrence"""
        out = []

        def add(n):
            if n not in out:
                out.append(n)

        def target(t):
            if isinstance(t, ast.Name):
                add(t.id)
            elif isinstance(t, ast.Subscript):
                rv = self.rec_var(t)
                if rv is not None:
                    add(rv)
                    add(t.value.id)
                elif isinstance(t.value, ast.Name):
                    add(t.value.id)
                elif self.rec_var(t.value) is not None:
                    add(self.rec_var(t.value))
                else:
                    self.fail(t, "unsupported assignment target")
            elif isinstance(t, ast.Tuple):
                for x in t.elts:
                    target(x)
            else:
                self.fail(t, "unsupported assignment target")

        for s in stmts:
            for n in ast.walk(s):
                if isinstance(n, ast.Assign):
                    for t in n.targets:
                        target(t)
                elif isinstance(n, (ast.AugAssign, ast.AnnAssign)):
                    target(n.target)
                elif isinstance(n, ast.For):
                    target(n.target)
                elif isinstance(n, (ast.NamedExpr, ast.Delete, ast.Global, ast.Nonlocal, ast.With, ast.Import,
                                    ast.ImportFrom, ast.FunctionDef, ast.ClassDef, ast.Lambda,
                                    ast.SetComp, ast.DictComp, ast.Try, ast.While, ast.Raise,
                                    ast.Assert, ast.Yield, ast.YieldFrom, ast.Await, ast.AsyncFor, ast.AsyncWith,
                                    ast.Starred)):
                    self.fail(n, "unsupported construct")
                elif isinstance(n, ast.Call):
                    f = n.func
                    if isinstance(f, ast.Attribute) and f.attr in ("append", "extend", "insert", "pop", "remove", "clear",
                                                                   "sort", "reverse", "update", "setdefault"):
                        if isinstance(f.value, ast.Name):
                            add(f.value.id)
                        elif self.rec_var(f.value) is not None:
                            add(self.rec_var(f.value))
                        else:
                            self.fail(n, "mutation of something that is not a local")
            for h in self.hidden_state([s]):
                add(h)
        return out

    def bind(self, node, name, ty, env):
        self.check_name(node, name)
        if name in env.recs:
            self.fail(node, "a local dict is rebound")
        old = env.types.get(name)
        if old is not None and old != ty and name in env.carried:
            self.fail(node, "%r changes its type from %s to %s inside a loop or conditional that carries it" % (name, old, ty))
        env.types[name] = ty
        env.fresh.discard(name)

    def escape(self, e, env):
        """a fresh list stored somewhere else is no longer known to be unaliased"""
        for n in ast.walk(e):
            if isinstance(n, ast.Name):
                env.fresh.discard(n.id)
            rv = self.rec_var(n)
            if rv is not None:
                env.fresh.discard(rv)

    def with_pending(self, text, rest_text, k, ind, s):
        """wrap the partial computations (int(..)) the statement needs around it and what follows"""
        if not self.pending:
            return text + rest_text
        pre = ""
        for var, call, kind in self.pending:
            if kind == "option":
                pre += self.line(ind, "match %s with None => %s | Some %s =>" % (call, k.rais(s), var))
            else:
                pre += self.line(ind, "match %s with Raise => %s | Ok %s =>" % (call, k.rais(s), var))
        n = len(self.pending)
        self.pending = []
        return _close(pre + text + rest_text, " end" * n)

    def block(self, stmts, env, k, ind):
        if not stmts:
            return self.line(ind, k.fall(None))
        s, rest = stmts[0], list(stmts[1:])
        if self.pending:
            self.fail(s, "internal: pending partial computation")
        if isinstance(s, ast.Expr) and isinstance(s.value, ast.Constant) and type(s.value.value) is str:
            return self.block(rest, env, k, ind)          # docstring
        if isinstance(s, ast.Pass):
            return self.block(rest, env, k, ind)
        if isinstance(s, ast.Expr) and self.is_print(s.value):
            return self.block(rest, env, k, ind)
        if isinstance(s, ast.Return):
            if rest:
                self.fail(rest[0], "statement after return")
            if s.value is None or (isinstance(s.value, ast.Constant) and s.value.value is None):
                return self.line(ind, k.ret(s, "tt", UNIT), s)
            if isinstance(s.value, ast.Name) and s.value.id in env.recs:
                t, ty = self.rec_value(s.value, env)
            else:
                t, ty = self.expr(s.value, env)
            if self.pending:
                self.fail(s, "partial computation in a return")
            return self.line(ind, k.ret(s, t, ty), s)
        if isinstance(s, ast.Continue):
            if rest:
                self.fail(rest[0], "statement after continue")
            return self.line(ind, k.cont(s), s)
        if isinstance(s, ast.Break):
            if rest:
                self.fail(rest[0], "statement after break")
            return self.line(ind, k.brk(s), s)
        if isinstance(s, ast.Assign):
            text = self.assign(s, env, ind)
            pend, self.pending = self.pending, []
            rest_text = self.block(rest, env, k, ind)
            self.pending = pend
            return self.with_pending(text, rest_text, k, ind, s)
        if isinstance(s, ast.AugAssign):
            if not (isinstance(s.target, ast.Name) and isinstance(s.op, ast.Add)):
                self.fail(s, "only `x += e` on a plain variable is supported")
            x = s.target.id
            if x not in env.types:
                self.fail(s, "unknown variable %r" % x)
            v, tv = self.expr(s.value, env)
            if env.types[x] == NAT and tv == T and self.KERNEL == "walk":
                self.promote.add(x)
                raise Retry()
            t, ty = self.add_op(s, x, env.types[x], v, tv)
            if ty != env.types[x]:
                self.fail(s, "`+=` changes the type of %r" % x)
            text = self.line(ind, "let %s := %s in" % (x, t), s)
            pend, self.pending = self.pending, []
            rest_text = self.block(rest, env, k, ind)
            self.pending = pend
            return self.with_pending(text, rest_text, k, ind, s)
        if isinstance(s, ast.Expr):
            text = self.effect(s, env, ind)
            if self.pending:
                self.fail(s, "partial computation in a call statement")
            return text + self.block(rest, env, k, ind)
        if isinstance(s, ast.If):
            return self.if_(s, rest, env, k, ind)
        if isinstance(s, ast.For):
            return self.for_(s, rest, env, k, ind)
        self.fail(s, "unsupported statement (%s)" % type(s).__name__)

    @staticmethod
    def is_print(c):
        if not (isinstance(c, ast.Call) and isinstance(c.func, ast.Name) and c.func.id == "print"):
            return False
        for a in list(c.args) + [kw.value for kw in c.keywords]:
            for n in ast.walk(a):
                if not isinstance(n, (ast.Constant, ast.Name, ast.JoinedStr, ast.FormattedValue, ast.Load)):
                    return False
        return True

    # ----- local dicts kept per key
    def new_rec(self, s, x, env, ind):
        self.check_name(s, x)
        if x in env.types or x in env.recs:
            self.fail(s, "%r is rebound to a dict" % x)
        out, fields = "", {}
        for n, (kn, v) in enumerate(zip(s.value.keys, s.value.values)):
            if not (isinstance(kn, ast.Constant) and type(kn.value) is str and kn.value in self.REC_KEYS) \
                    or kn.value in fields:
                self.fail(s, "unsupported dict literal (keys: %s)" % ", ".join(sorted(self.REC_KEYS)))
            key = kn.value
            want = self.REC_KEYS[key][0]
            var = "%s_%s" % (x, key)
            self.check_name(s, var)
            if var in env.types:
                self.fail(s, "the variable name %r collides with the generated code" % var)
            if isinstance(v, ast.List) and not v.elts:
                text, fresh = self.nil_of(want), True
            else:
                text, ty = self.expr(v, env)
                fresh = False
                if ty != want:
                    self.fail(s, "value of key %r has type %s, expected %s" % (key, ty, want))
                self.escape(v, env)
            fields[key] = var
            env.types[var] = want
            if fresh:
                env.fresh.add(var)
            out += self.line(ind, "let %s := %s in" % (var, text), s if n == 0 else None)
        env.recs[x] = {"fields": fields, "escaped": False}
        return out

    def rec_value(self, e, env):
        d = env.recs[e.id]
        keys = sorted(self.REC_KEYS, key=lambda kk: self.REC_KEYS[kk][1])
        if sorted(d["fields"]) != sorted(keys):
            self.fail(e, "the dict is used before all of %s are set" % ", ".join(keys))
        d["escaped"] = True
        for var in d["fields"].values():
            env.fresh.discard(var)
        return "(" + ", ".join(d["fields"][kk] for kk in keys) + ")", self.REC_TYPE

    # ----- assignments
    def assign(self, s, env, ind):
        if len(s.targets) != 1:
            self.fail(s, "multiple assignment targets")
        t = s.targets[0]
        special = self.assign_special(s, env, ind)
        if special is not None:
            return special
        if isinstance(t, ast.Name) and isinstance(s.value, ast.Dict) and self.REC_KEYS:
            return self.new_rec(s, t.id, env, ind)
        # d['key'] = e  on a local dict
        if isinstance(t, ast.Subscript) and isinstance(t.value, ast.Name) and t.value.id in env.recs:
            d = env.recs[t.value.id]
            if d["escaped"]:
                self.fail(s, "store into a dict that has been used as a value")
            if not (isinstance(t.slice, ast.Constant) and t.slice.value in self.REC_KEYS):
                self.fail(s, "unsupported key")
            key = t.slice.value
            want = self.REC_KEYS[key][0]
            text, ty = self.expr(s.value, env)
            if ty != want:
                self.fail(s, "value of key %r has type %s, expected %s" % (key, ty, want))
            self.escape(s.value, env)
            var = "%s_%s" % (t.value.id, key)
            if key not in d["fields"]:
                if env.carried:
                    self.fail(s, "a key is added to a local dict inside a loop or conditional")
                self.check_name(s, var)
                if var in env.types:
                    self.fail(s, "the variable name %r collides with the generated code" % var)
                d["fields"][key] = var
            env.types[var] = want
            env.fresh.discard(var)
            if isinstance(s.value, ast.ListComp):
                env.fresh.add(var)         # a new list nothing else refers to
            return self.line(ind, "let %s := %s in" % (var, text), s)
        # l[i] = e  on a fresh local list (plain name or field of a local dict)
        if isinstance(t, ast.Subscript):
            lst = self.list_var(t.value, env)
            if lst is None:
                self.fail(s, "unsupported assignment target")
            if lst not in env.fresh:
                self.fail(s, "item assignment is supported on a fresh local list only, before it is stored anywhere")
            i, ti = self.expr(t.slice, env)
            v, tv = self.expr(s.value, env)
            if ti != NAT or tv != self.elem_type(s, env.types[lst]):
                self.fail(s, "unsupported item assignment (%s[%s] = %s)" % (env.types[lst], ti, tv))
            return self.line(ind, "let %s := set_nth %s %s %s in" % (lst, lst, _paren(i), _paren(v)), s)
        if isinstance(t, ast.Name):
            if t.id in env.recs:
                self.fail(s, "a local dict is rebound")
            text, ty, fresh = self.rhs(s, env)
            cur = env.types.get(t.id, "")
            if cur.startswith("opt:") and not ty.startswith(("opt:", "none:")):
                # a value stored in a None-sentinel variable
                if cur == "opt:?":
                    self.opt_elem[t.id] = ty
                    raise Retry()
                if cur[4:] != ty:
                    self.fail(s, "%r holds None or a %s, and is assigned a %s" % (t.id, cur[4:], ty))
                text, ty, fresh = "Some %s" % _paren(text), cur, False
            self.escape(s.value, env)
            self.bind(s, t.id, ty, env)
            if fresh:
                env.fresh.add(t.id)
            return self.line(ind, "let %s := %s in" % (t.id, text), s)
        self.fail(s, "unsupported assignment target")

    def rhs(self, s, env):
        """right-hand side of x = e -> (text, type, is a fresh list)"""
        v = s.value
        if isinstance(v, ast.Constant) and v.value == 0 and type(v.value) is int \
                and isinstance(s.targets[0], ast.Name) and s.targets[0].id in self.promote:
            return "zero", T, False
        if isinstance(v, ast.Constant) and v.value is None and isinstance(s.targets[0], ast.Name):
            # x = None: a sentinel; its element type is the type of the value assigned to it elsewhere
            name = s.targets[0].id
            cur = env.types.get(name, "")
            elem = self.opt_elem.get(name) or (cur[4:] if cur.startswith("opt:") and cur != "opt:?" else None)
            if elem is None:
                return "None", "opt:?", False
            if elem not in self.COQ_TYPE:
                self.fail(s, "no Coq type for a sentinel of %s" % elem)
            return "@None %s" % _paren(self.COQ_TYPE[elem]), "opt:" + elem, False
        text, ty = self.expr(v, env)
        return text, ty, self.is_fresh_value(v) or isinstance(v, ast.ListComp)

    def is_fresh_value(self, v):
        return False

    def list_var(self, e, env):
        """a local list denoted by a plain name or by d['key'] of a local dict -> its variable"""
        if isinstance(e, ast.Name) and e.id in env.types and e.id not in env.recs:
            return e.id
        if isinstance(e, ast.Subscript) and isinstance(e.value, ast.Name) and e.value.id in env.recs:
            d = env.recs[e.value.id]
            if isinstance(e.slice, ast.Constant) and e.slice.value in d["fields"] and not d["escaped"]:
                return d["fields"][e.slice.value]
        return None

    def elem_type(self, node, ty):
        self.fail(node, "no element type for %s" % ty)

    def effect(self, s, env, ind):
        special = self.effect_special(s, env, ind)
        if special is not None:
            return special
        c = s.value
        if isinstance(c, ast.Call) and isinstance(c.func, ast.Attribute) and c.func.attr == "append" \
                and len(c.args) == 1 and not c.keywords:
            lst = self.list_var(c.func.value, env)
            if lst is None or lst not in env.fresh:
                self.fail(s, "append is supported on a fresh local list only")
            v, tv = self.expr(c.args[0], env)
            if tv != self.elem_type(s, env.types[lst]):
                self.fail(s, "append of a %s to a %s" % (tv, env.types[lst]))
            self.escape(c.args[0], env)
            return self.line(ind, "let %s := append %s %s in" % (lst, lst, _paren(v)), s)
        # l.extend(m) on a fresh local list, m a list of the same type (its items are copied: no aliasing)
        if isinstance(c, ast.Call) and isinstance(c.func, ast.Attribute) and c.func.attr == "extend" \
                and len(c.args) == 1 and not c.keywords:
            lst = self.list_var(c.func.value, env)
            if lst is None or lst not in env.fresh:
                self.fail(s, "extend is supported on a fresh local list only")
            v, tv = self.expr(c.args[0], env)
            if tv != env.types[lst]:
                self.fail(s, "extend of a %s by a %s" % (env.types[lst], tv))
            return self.line(ind, "let %s := %s ++ %s in" % (lst, lst, _paren(v)), s)
        self.fail(s, "unsupported expression statement")

    # ----- conditionals
    def none_test(self, test, env):
        """`x is None` / `x is not None` on a None-sentinel variable -> (x, the then-branch is the None case)"""
        if isinstance(test, ast.Compare) and len(test.ops) == 1 and isinstance(test.ops[0], (ast.Is, ast.IsNot)):
            c = test.comparators[0]
            if not (isinstance(c, ast.Constant) and c.value is None and isinstance(test.left, ast.Name)):
                self.fail(test, "`is` is supported as `x is None` / `x is not None` only")
            ty = env.types.get(test.left.id, "")
            if not ty.startswith("opt:") or ty == "opt:?":
                self.fail(test, "`is None` test of %r, which is not a None sentinel that is assigned a value somewhere"
                          % test.left.id)
            return test.left.id, isinstance(test.ops[0], ast.Is)
        return None

    def if_(self, s, rest, env, k, ind):
        body, orelse = list(s.body), list(s.orelse)
        bt, et = self.terminates(body), self.terminates(orelse)
        env_t, env_f = env.copy(), env.copy()
        nt = self.none_test(s.test, env)
        if nt is not None:
            # x = None ... if x is None: A else: B   is   match x with None => A | Some x => B end
            x, then_is_none = nt
            elem = env.types[x][4:]
            (env_t if then_is_none else env_f).types[x] = "none:" + elem
            (env_f if then_is_none else env_t).types[x] = elem
            if then_is_none:
                c, mid, tail = "match %s with None =>" % x, "| Some %s =>" % x, " end"
            else:
                c, mid, tail = "match %s with Some %s =>" % (x, x), "| None =>", " end"
        else:
            c, mid, tail = "if %s then" % self.cond(s.test, env), "else", ""
        if self.pending:
            self.fail(s, "partial computation in a condition")
        head = self.line(ind, c, s)
        if not rest or bt or et:
            if rest and bt and et:
                self.fail(rest[0], "unreachable statement")
            then_stmts = body if (not rest or bt) else body + rest
            else_stmts = orelse if (not rest or et) else orelse + rest
            if not rest:
                # both sides fall to the end of the enclosing block with the variables it carries
                for e2 in (env_t, env_f):
                    e2.carried = e2.carried | {n for n in self.assigned(body + orelse) if n in env.types}
            out = (head + self.block(then_stmts, env_t, k, ind + 1)
                   + self.line(ind, mid) + self.block(else_stmts, env_f, k, ind + (0 if bt and not tail else 1)))
            return _close(out, tail) if tail else out
        # both branches fall through to `rest`: they may only (re)bind variables
        for n in body + orelse:
            for m in ast.walk(n):
                if isinstance(m, (ast.Return, ast.Continue, ast.Break, ast.For, ast.While)):
                    self.fail(m, "control flow inside a conditional that is followed by more statements")
        names = [n for n in self.assigned(body + orelse) if n in env.types]
        if not names:
            self.fail(s, "conditional without effect")
        tup, pat = self.state_text(names)
        # (the joined variables may change their type inside the branches as long as both sides agree at the
        # join - join_types; variables carried by an enclosing loop stay in `carried`)

        def no(what):
            return lambda n, *a: self.fail(n, what + " inside a conditional that is followed by more statements")
        raised = []

        def rais(n):
            raised.append(n)
            return "Raise"
        join = K(lambda _n: tup, no("continue"), no("break"), no("return"), rais)
        saved = (env_t.copy(), env_f.copy())
        out = self.line(ind, "let %s :=" % pat)
        out += self.line(ind + 1, "(" + c, s)
        out += self.block(body, env_t, join, ind + 2)
        out += self.line(ind + 1, mid)
        out += _close(self.block(orelse, env_f, join, ind + 2), tail + ") in")
        if raised:
            # a branch can raise: the joined value is a `res`, matched before what follows
            env_t, env_f = saved
            join = K(lambda _n: "Ok %s" % _paren(tup), no("continue"), no("break"), no("return"), lambda n: "Raise")
            out = self.line(ind, "match")
            out += self.line(ind + 1, "(" + c, s)
            out += self.block(body, env_t, join, ind + 2)
            out += self.line(ind + 1, mid)
            out += _close(self.block(orelse, env_f, join, ind + 2), tail + ")")
            out += self.line(ind, "with Raise => %s | Ok %s =>" % (k.rais(s), pat.lstrip("'")))
            self.merge(s, env, [env_t, env_f])
            self.join_types(s, env, names, env_t, env_f)
            return _close(out + self.block(rest, env, k, ind), " end")
        self.merge(s, env, [env_t, env_f])
        self.join_types(s, env, names, env_t, env_f)
        return out + self.block(rest, env, k, ind)

    def join_types(self, node, env, names, env_t, env_f):
        """after a conditional that is followed by more statements: the type of each joined variable"""
        for n in names:
            t1, t2 = env_t.types.get(n), env_f.types.get(n)
            if t1 != t2 or t1 is None:
                self.fail(node, "%r has type %s on one side of the conditional and %s on the other" % (n, t1, t2))
            env.types[n] = t1

    def merge(self, node, env, inners):
        for inner in inners:
            for x, d in env.recs.items():
                di = inner.recs.get(x)
                if di is None or sorted(di["fields"]) != sorted(d["fields"]):
                    self.fail(node, "a key is added to a local dict inside a loop or conditional")
                d["escaped"] = d["escaped"] or di["escaped"]
            for n in list(env.fresh):
                if n not in inner.fresh:
                    env.fresh.discard(n)

    # ----- loops
    def for_(self, s, rest, env, k, ind):
        it = s.iter
        body, orelse = list(s.body), list(s.orelse)
        pre = self.loop_defined(s, env, ind)      # variables first bound by the loop on every way out of it
        names = [n for n in self.assigned(body + orelse) if n in env.types]
        inner = env.copy()
        inner.carried = inner.carried | set(names)
        tup, pat = self.state_text(names)
        binders = []
        if isinstance(it, ast.Call) and isinstance(it.func, ast.Name) and it.func.id == "enumerate" \
                and len(it.args) == 1 and not it.keywords:
            if not (isinstance(s.target, ast.Tuple) and len(s.target.elts) == 2 and isinstance(s.target.elts[0], ast.Name)):
                self.fail(s, "enumerate needs the target `pos, item`")
            pos, xt = s.target.elts[0].id, s.target.elts[1]
            lst = self.list_var(it.args[0], env)
            if lst is not None and lst in names:
                # the body assigns items of the iterated list
                self.only_item_stores(s, lst, it.args[0], env)
                ety = self.elem_type(s, env.types[lst])
            else:
                l, tl = self.expr(it.args[0], env)
                ety = self.elem_type(s, tl)
            if isinstance(xt, ast.Name):
                x, item_binders = xt.id, [(xt.id, ety)]
            elif isinstance(xt, ast.Tuple) and len(xt.elts) == 2 and all(isinstance(e2, ast.Name) for e2 in xt.elts) \
                    and (xt.elts[0].id != xt.elts[1].id):
                # for pos, (a, b) in enumerate(l): the item is unpacked; `_` is a name that is not read
                tys = self.pair_types(s, ety)
                x = "'(%s, %s)" % (xt.elts[0].id, xt.elts[1].id)
                item_binders = [(e2.id, ty2) for e2, ty2 in zip(xt.elts, tys) if e2.id != "_"]
            else:
                self.fail(s, "enumerate needs the target `pos, item` or `pos, (a, b)`")
            if lst is not None and lst in names:
                proj = "(fun %s => %s)" % (pat, lst)
                head = "for_enum_cur %s %s %s (fun %s %s %%s =>" % (self.undef_of(s, ety), lst, proj, pos, x)
            else:
                head = "for_enum %s (fun %s %s %%s =>" % (_paren(l), pos, x)
            binders = [(pos, NAT)] + item_binders
        elif isinstance(it, ast.Call) and isinstance(it.func, ast.Name) and it.func.id == "range" \
                and len(it.args) == 2 and not it.keywords:
            if not isinstance(s.target, ast.Name):
                self.fail(s, "range needs a single target")
            a, ta = self.expr(it.args[0], env)
            b, tb = self.expr(it.args[1], env)
            if (ta, tb) != (NAT, NAT):
                self.fail(s, "range of non-ints")
            for arg in it.args:
                for m in ast.walk(arg):
                    if isinstance(m, ast.Name) and m.id in names:
                        self.fail(s, "a bound of the range is assigned in the loop")
            binders = [(s.target.id, NAT)]
            head = "for_range %s %s (fun %s %%s =>" % (_paren(a), _paren(b), s.target.id)
        else:
            if not isinstance(s.target, ast.Name):
                self.fail(s, "unsupported loop target")
            lst = self.list_var(it, env)
            if lst is not None and lst in names:
                self.fail(s, "the iterated list is assigned or mutated in the loop")
            l, tl = self.expr(it, env)
            ety = self.elem_type(s, tl)
            binders = [(s.target.id, ety)]
            head = "for_each %s (fun %s %%s =>" % (_paren(l), s.target.id)
        if self.pending:
            self.fail(s, "partial computation in a loop header")
        for n, ty in binders:
            self.check_name(s, n)
            if n in names or n in env.recs:
                self.fail(s, "the loop variable %r is assigned in the loop or bound outside" % n)
            if n in env.carried:
                self.fail(s, "the loop variable %r is carried by an enclosing loop" % n)
            if n in env.types:
                # Python would leave the last item in it after the loop; the translation would not
                self.fail(s, "the loop variable %r is already bound" % n)
            inner.types[n] = ty
            inner.fresh.discard(n)
        if len({n for n, _ in binders}) != len(binders):
            self.fail(s, "loop variables collide")
        cont = "Cont %s" % tup
        body_k = K(lambda _n: cont, lambda _n: cont, lambda _n: "Brk %s" % tup,
                   lambda n, t, ty: "Ret %s" % _paren(k.ret(n, t, ty)),
                   lambda n: "Ret %s" % _paren(k.rais(n)))
        out = pre + self.line(ind, head % pat, s)
        out += _close(self.block(body, inner, body_k, ind + 2), ")")
        self.merge(s, env, [inner])
        # loop variables are not visible after the loop (Python would leak them; not supported)
        if orelse:
            env_e = env.copy()
            env_e.carried = env_e.carried | set(names)

            def no(what):
                return lambda n, *a: self.fail(n, what + " inside the else block of a loop")
            else_k = K(lambda _n: tup, no("continue"), no("break"), no("return"), lambda n: k.rais(n))
            out += self.line(ind, "%s (fun %s =>" % (tup, pat), s.orelse[0])
            out += _close(self.block(orelse, env_e, else_k, ind + 2), ")")
            self.merge(s, env, [env_e])
            out += self.line(ind, "(fun %s =>" % pat)
        else:
            out += self.line(ind, "%s (fun st => st) (fun %s =>" % (tup, pat))
        out += _close(self.block(rest, env, k, ind), ")")
        return out

    def loop_defined(self, s, env, ind):
        """Variables that do not exist before the loop and are bound on EVERY way out of it: by a plain
        `x = e` in the else block, and by a plain `x = ..` in the same statement list before each `break` of this
        loop (so that x is bound after the loop however it ends).  They become loop state; their value before
        the loop is never read (Python has no binding there): an "undefined" value of their type.  The type is
        that of the else block's right-hand side.  -> text of the lets that introduce them."""
        if not s.orelse:
            return ""
        cand = []
        for st in s.orelse:
            if isinstance(st, ast.Assign) and len(st.targets) == 1 and isinstance(st.targets[0], ast.Name) \
                    and st.targets[0].id not in env.types and st.targets[0].id not in env.recs:
                cand.append((st.targets[0].id, st.value))

        def breaks_ok(stmts, name):
            """every break (of this loop) in stmts is preceded, in its own statement list, by `name = ..`"""
            bound = False
            for st in stmts:
                if isinstance(st, ast.Assign) and len(st.targets) == 1 and isinstance(st.targets[0], ast.Name) \
                        and st.targets[0].id == name:
                    bound = True
                elif isinstance(st, ast.Break):
                    if not bound:
                        return False
                elif isinstance(st, ast.If):
                    if not (breaks_ok(st.body, name) if not bound else True) or \
                            not (breaks_ok(st.orelse, name) if not bound else True):
                        return False
                elif isinstance(st, (ast.For, ast.While)):
                    pass        # a break inside a nested loop does not leave this one
                elif any(isinstance(m, ast.Break) for m in ast.walk(st)):
                    return False
            return True

        out = ""
        for name, value in cand:
            if not breaks_ok(s.body, name):
                continue
            # the name may not be read inside the loop (there it can still be unbound)
            reads = [m for st in s.body + s.orelse for m in ast.walk(st)
                     if isinstance(m, ast.Name) and m.id == name and isinstance(m.ctx, ast.Load)]
            if reads:
                continue
            _t, ty = self.expr(value, env)
            if self.pending:
                self.fail(s, "partial computation in the else block of a loop")
            self.check_name(s, name)
            env.types[name] = ty
            out += self.line(ind, "let %s := %s in" % (name, self.undef_value(s, ty)),)
        return out

    def undef_value(self, node, ty):
        """the value of a variable that has no binding yet (never read)"""
        if ty == NAT:
            return "0"
        if ty == BOOL:
            return "false"
        return self.undef_of(node, ty)

    def only_item_stores(self, s, lst, lst_expr, env):
        """the body of s touches the iterated list only by `l[j] = e`"""
        dump = ast.dump(lst_expr)
        for st in s.body + s.orelse:
            for n in ast.walk(st):
                if isinstance(n, (ast.Assign, ast.AugAssign)):
                    targets = n.targets if isinstance(n, ast.Assign) else [n.target]
                    for t in targets:
                        if isinstance(t, ast.Name) and t.id == lst:
                            self.fail(n, "the iterated list is rebound in the loop")
                        if self.rec_var(t) == lst:
                            self.fail(n, "the iterated list is rebound in the loop")
                        if isinstance(n, ast.AugAssign) and isinstance(t, ast.Subscript) \
                                and ast.dump(t.value).replace("Store()", "Load()") == dump:
                            self.fail(n, "augmented item assignment on the iterated list")
                if isinstance(n, ast.Call) and isinstance(n.func, ast.Attribute) \
                        and ast.dump(n.func.value) == dump:
                    self.fail(n, "the iterated list is mutated by a method call in the loop")
        if lst not in env.fresh:
            self.fail(s, "the iterated list is assigned in the loop but is not a fresh local list")

    def undef_of(self, node, ty):
        self.fail(node, "no undefined value of type %s" % ty)

    # -------------------------------------------------------------- function
    def ret_text(self, node, text, ty):
        if ty != self.spec["ret"]:
            self.fail(node, "returns a value of type %s, the translator expects %s" % (ty, self.spec["ret"]))
        return text

    extra_params = []       # variables bound before the translated statements (a slice of a function)
    # the context every generated definition of the kernel takes, whether it uses it or not (operations,
    # oracles, "undefined" values): explicit parameters, so that the signature of a generated function does
    # not depend on which of them the current source happens to use
    CTX_BINDERS = ""
    CTX_ARGS = ""

    def params_text(self):
        return " ".join("(%s : %s)" % (n, self.COQ_TYPE[ty]) for n, ty in list(self.spec["params"]) + list(self.extra_params))

    def preamble(self, env, ind):
        return ""

    def translate_body(self, stmts):
        spec = self.spec
        while True:
            env = Env()
            for n, ty in list(spec["params"]) + list(self.extra_params):
                env.types[n] = ty
            k = K(lambda _n: self.fall_off(), lambda n: self.fail(n, "continue outside a loop"),
                  lambda n: self.fail(n, "break outside a loop"), self.ret_text,
                  lambda n: self.raise_text(n))
            self.pending = []
            self.uid = 0
            try:
                return self.preamble(env, 1) + self.block(list(stmts), env, k, 1)
            except Retry:
                continue

    def fall_off(self):
        self.fail(self.fn, "the function can end without a return statement")

    def raise_text(self, node):
        self.fail(node, "an exception cannot be represented in the result of this function")

    def result_type(self):
        return self.COQ_TYPE[self.spec["ret"]]

    def translate(self, stmts=None):
        self.check_signature()
        fn, spec = self.fn, self.spec
        stmts = list(fn.body) if stmts is None else stmts
        dump = "\n".join(ast.dump(s, include_attributes=False) for s in stmts)
        sha = hashlib.sha256(dump.encode("utf-8")).hexdigest()
        out = "(* %s  %sdef %s  lines %d-%d\n   sha256 of the ast.dump of the translated statements: %s%s *)\n" % (
            self.rel, self.owner and ("class %s  " % self.owner.rstrip(".")), fn.name,
            stmts[0].lineno if stmts else fn.lineno, stmts[-1].end_lineno if stmts else fn.end_lineno, sha,
            ("\n   " + spec["note"]) if spec.get("note") else "")
        out += "Definition %s %s : %s :=\n" % (
            spec["coq"], (self.CTX_BINDERS + " " + self.params_text()).strip(), self.result_type())
        out += _close(self.translate_body(stmts), ".")
        return out


# ====================================================================== walk
class WalkTr(Tr):
    KERNEL = "walk"
    COQ_TYPE = dict(Tr.COQ_TYPE, **{T: "T", NODE: "(nat * nat)", PT: "list (nat * nat)", VARS: "list nat",
                                    HBASE: "(T * list nat)", HBASES: "list (T * list nat)",
                                    GROUP: "(T * nat)", GROUPS: "list (T * nat)",
                                    WALK: "(list (nat * nat) * T * T)"})
    RESERVED = RESERVED_COMMON | set("T g zero one add mul leb ltb ofnat find_prob hbases htable hgrammar Honey".split())
    REC_KEYS = {"pt": (PT, 0), "base_prob": (T, 1), "prob": (T, 2)}
    REC_TYPE = WALK

    def params_text(self):
        return "(g : @hgrammar T) (rnd : list T)"

    def nil_of(self, ty):
        if ty == PT:
            return "@nil (nat * nat)"
        self.fail(self.fn, "no empty literal of type %s" % ty)

    def elem_type(self, node, ty):
        table = {PT: NODE, VARS: NAT, HBASES: HBASE, GROUPS: GROUP}
        if ty not in table:
            self.fail(node, "iteration / item access on a %s" % ty)
        return table[ty]

    def pair_types(self, node, ety):
        if ety == NODE:        # a (variable, index) tuple; entries of self.base / self.grammar are dicts
            return (NAT, NAT)
        self.fail(node, "an element of type %s cannot be unpacked" % ety)

    def list_type_of(self, node, ety):
        if ety == NODE:
            return PT
        self.fail(node, "no list type for elements of type %s" % ety)

    def undef_of(self, node, ty):
        table = {NODE: "undef_node", HBASE: "undef_base", GROUP: "undef_group", T: "undef_draw"}
        if ty in table:
            return table[ty]
        self.fail(node, "no undefined value of type %s" % ty)

    @staticmethod
    def is_random(e):
        return (isinstance(e, ast.Call) and isinstance(e.func, ast.Attribute) and e.func.attr == "random"
                and isinstance(e.func.value, ast.Name) and e.func.value.id == "random"
                and not e.args and not e.keywords)

    def hidden_state(self, stmts):
        for s in stmts:
            for n in ast.walk(s):
                if self.is_random(n):
                    return ["rnd"]
        return []

    def preamble(self, env, ind):
        env.types["rnd"] = "draws"
        return ""

    def check_name(self, node, name):
        if name == "rnd" and node is self.fn:
            return
        Tr.check_name(self, node, name)

    def assign_special(self, s, env, ind):
        t = s.targets[0]
        if self.is_random(s.value):
            if not isinstance(t, ast.Name):
                self.fail(s, "random.random() must be assigned to a plain variable")
            self.bind(s, t.id, T, env)
            return (self.line(ind, "let %s := draw undef_draw rnd in" % t.id, s)
                    + self.line(ind, "let rnd := drawn rnd in"))
        return None

    def is_self_attr(self, e, attr):
        return isinstance(e, ast.Attribute) and isinstance(e.value, ast.Name) and e.value.id == "self" and e.attr == attr

    def grammar_row(self, e, env):
        """self.grammar[t] -> hrow g t"""
        if isinstance(e, ast.Subscript) and self.is_self_attr(e.value, "grammar"):
            t, ty = self.expr(e.slice, env)
            if ty != NAT:
                self.fail(e, "self.grammar[...] must be indexed by a variable id")
            return "hrow g %s" % _paren(t)
        return None

    def grammar_group(self, e, env):
        """self.grammar[t][i] -> sub undef_group (hrow g t) i"""
        if isinstance(e, ast.Subscript):
            row = self.grammar_row(e.value, env)
            if row is not None:
                i, ti = self.expr(e.slice, env)
                if ti != NAT:
                    self.fail(e, "group index must be an int")
                return "sub undef_group (%s) %s" % (row, _paren(i))
        return None

    def expr(self, e, env):
        for n in ast.walk(e):
            if self.is_random(n):
                self.fail(e, "random.random() is supported as the whole right-hand side of an assignment only")
        if isinstance(e, ast.Constant) and type(e.value) is float:
            if e.value == 1.0:
                return "one", T
            if e.value == 0.0 and str(e.value) == "0.0":
                return "zero", T
            self.fail(e, "unsupported float constant")
        if self.is_self_attr(e, "base"):
            return "hbases g", HBASES
        if isinstance(e, ast.Tuple):
            if len(e.elts) != 2:
                self.fail(e, "only pairs (variable, index) are supported")
            a, ta = self.expr(e.elts[0], env)
            b, tb = self.expr(e.elts[1], env)
            if (ta, tb) != (NAT, NAT):
                self.fail(e, "a node is a pair of ints")
            return "(%s, %s)" % (a, b), NODE
        if isinstance(e, ast.Subscript):
            if not isinstance(e.ctx, ast.Load):
                self.fail(e, "unsupported use of a subscript")
            lst = self.list_var(e, env)
            if lst is not None and isinstance(e.value, ast.Name) and e.value.id in env.recs:
                return lst, env.types[lst]
            # self.grammar[t]: the groups of a variable, as the sampler model has them (probability, size)
            row = self.grammar_row(e, env)
            if row is not None:
                return row, GROUPS
            # self.base[-1]
            if self.is_self_attr(e.value, "base"):
                sl = e.slice
                if isinstance(sl, ast.UnaryOp) and isinstance(sl.op, ast.USub) and isinstance(sl.operand, ast.Constant) \
                        and sl.operand.value == 1 and type(sl.operand.value) is int:
                    return "last (hbases g) undef_base", HBASE
                self.fail(e, "self.base may only be iterated or used as self.base[-1]")
            v, tv = self.expr(e.value, env)
            if isinstance(e.slice, ast.Constant) and type(e.slice.value) is str:
                field = None
                if tv == HBASE:
                    field = {"prob": ("fst", T), "replacements": ("snd", VARS)}.get(e.slice.value)
                elif tv == GROUP:
                    # group['values'] itself is not represented (only its length: len(group['values']))
                    field = {"prob": ("fst", T)}.get(e.slice.value)
                if field is None:
                    self.fail(e, "unsupported string subscript")
                return "%s %s" % (field[0], _paren(v)), field[1]
            if tv == GROUPS:
                i, ti = self.expr(e.slice, env)
                if ti != NAT:
                    self.fail(e, "group index must be an int")
                return "sub undef_group %s %s" % (_paren(v), _paren(i)), GROUP
            if tv == NODE:
                if isinstance(e.slice, ast.Constant) and e.slice.value in (0, 1) and type(e.slice.value) is int:
                    return "%s %s" % ("fst" if e.slice.value == 0 else "snd", _paren(v)), NAT
                self.fail(e, "a node may only be subscripted by the constants 0 and 1")
            self.fail(e, "subscript of a value of type %s" % tv)
        if isinstance(e, ast.Call):
            f = e.func
            if isinstance(f, ast.Name) and f.id == "len" and len(e.args) == 1 and not e.keywords:
                a = e.args[0]
                if isinstance(a, ast.Subscript) and isinstance(a.slice, ast.Constant) and a.slice.value == "values":
                    grp, tg = self.expr(a.value, env)
                    if tg != GROUP:
                        self.fail(e, "len(x['values']) of a %s" % tg)
                    return "snd %s" % _paren(grp), NAT
                v, tv = self.expr(a, env)
                if tv not in (PT, VARS, GROUPS):
                    self.fail(e, "len of a value of type %s" % tv)
                return "length %s" % _paren(v), NAT
            if self.is_self_attr(f, "_find_prob") and len(e.args) == 2 and not e.keywords:
                a, ta = self.expr(e.args[0], env)
                b, tb = self.expr(e.args[1], env)
                if (ta, tb) != (PT, T):
                    self.fail(e, "_find_prob(%s, %s)" % (ta, tb))
                return "find_prob %s %s" % (_paren(a), _paren(b)), T
            return self.common_expr(e, env)     # all(..) / any(..) over a generator, else refused there
        return self.common_expr(e, env)

    def add_op(self, node, a, ta, b, tb):
        if (ta, tb) == (T, T):
            return "add %s %s" % (_paren(a), _paren(b)), T
        return Tr.add_op(self, node, a, ta, b, tb)

    def arith(self, e, a, ta, b, tb):
        if isinstance(e.op, ast.Mult):
            if (ta, tb) == (T, T):
                return "mul %s %s" % (_paren(a), _paren(b)), T
            if (ta, tb) == (T, NAT):
                return "mul %s (ofnat %s)" % (_paren(a), _paren(b)), T
            if (ta, tb) == (NAT, T):
                return "mul (ofnat %s) %s" % (_paren(a), _paren(b)), T
        self.fail(e, "unsupported arithmetic on %s and %s" % (ta, tb))

    def compare(self, e, env):
        a, ta = self.expr(e.left, env)
        b, tb = self.expr(e.comparators[0], env)
        if (ta, tb) == (T, T):
            a, b = _paren(a), _paren(b)
            table = {ast.LtE: "leb %s %s" % (a, b), ast.GtE: "leb %s %s" % (b, a),
                     ast.Lt: "ltb %s %s" % (a, b), ast.Gt: "ltb %s %s" % (b, a)}
            op = type(e.ops[0])
            if op not in table:
                self.fail(e, "unsupported comparison of probabilities")
            return table[op], BOOL
        if (ta, tb) == (NAT, NAT):
            return self.nat_compare(e, a, b)
        self.fail(e, "comparison of %s with %s" % (ta, tb))


WALK_HEAD = """(* GENERATED by harness/translate_small.py from the Python source of the current
   working tree (%s) on every run of a check.  Do not edit.
   The definition is the line-by-line image of the Python function in the subset
   documented in the translator; the numbers in the comments are source lines.
   theories/SmallGenProofs.v proves it equal to the hand-written model of theories/Honey.v. *)
From Coq Require Import List Arith Bool.
From Pcfg Require Import KernelRt SmallRt Honey.
Import ListNotations.

(* Parameters of the generated definition (all explicit, used or not, so that its signature
   does not depend on the current source):
     T, zero one add mul leb ltb ofnat   the number type and its operations
     find_prob      self._find_prob (translated and tied separately, gen/Kernel_gen.v): uninterpreted here
     undef_draw undef_node undef_group undef_base
                    the value of a subscript that raises in Python / of a draw from an exhausted list *)

"""
WALK_CTX_BINDERS = ("{T : Type} (zero one : T) (add mul : T -> T -> T) (leb ltb : T -> T -> bool) (ofnat : nat -> T) "
                    "(find_prob : list (nat * nat) -> T -> T) "
                    "(undef_draw : T) (undef_node : nat * nat) (undef_group : T * nat) (undef_base : T * list nat)")
WalkTr.CTX_BINDERS = WALK_CTX_BINDERS


def render_walk(repo=None):
    rel = "lib_guesser/pcfg_grammar.py"
    path, tree = parse(repo, rel)
    defs = class_defs(path, tree, "PcfgGrammar")
    check_not_rebound(path, tree, {"random_walk"} | BUILTINS_USED)
    check_module_name(path, tree, "random")
    spec = dict(py="random_walk", coq="py_random_walk", params=[], ret=WALK, method=True,
                note="the result is the triple (pt_item['pt'], pt_item['base_prob'], pt_item['prob']); "
                     "[rnd] is the list of the values random.random() returns, in order")
    fn = defs.get("random_walk")
    if fn is None:
        raise TranslateError("%s: PcfgGrammar.random_walk not found" % path)
    text = WalkTr(path, rel, "PcfgGrammar.", fn, spec, {}).translate()
    return WALK_HEAD % rel + text


# ====================================================================== edit
FINDALL_PATTERN = "[A-Z][0-9]{0,3}"
CFG_KEYS = {"min_length": ("EditRules.min_length %s", NAT), "max_length": ("EditRules.max_length %s", NAT),
            "terminal_set": ("cfg_list (EditRules.terminal_set %s)", STRS), "regex": ("EditRules.regexes %s", STRS)}


def str_lit(v):
    if not v:
        return "(@nil N)"
    if any(ord(ch) > 0x10FFFF for ch in v) or len(v) > 200:
        raise TranslateError("string constant not representable")
    return "[" + "; ".join("%d%%N" % ord(ch) for ch in v) + "]"


class EditTr(Tr):
    KERNEL = "edit"
    COQ_TYPE = dict(Tr.COQ_TYPE, **{STR: "str", STRS: "list str", RES: "res str", CFG: "EditRules.config"})
    # names the generated text itself refers to (a Python local of that name would capture them); other names
    # of the model (keep, edit, whole, ...) are never referred to by generated code and may be shadowed by locals
    RESERVED = RESERVED_COMMON | set("""str res Ok Raise tokens int_of re_search isspace cfg_list EditRules
        forallb existsb filter""".split())

    def check_name(self, node, name):
        # the parameters min_length / max_length / terminal_set shadow the projections of the model's config record
        # inside the generated definition, which refers to those by their qualified names
        if name in ("min_length", "max_length", "terminal_set"):
            return
        Tr.check_name(self, node, name)

    def elem_type(self, node, ty):
        if ty == STRS:
            return STR
        self.fail(node, "iteration / item access on a %s" % ty)

    def is_fresh_value(self, v):
        return False

    def ret_text(self, node, text, ty):
        if self.spec["ret"] == RES:
            if ty != STR:
                self.fail(node, "returns a value of type %s, the translator expects str" % ty)
            return "Ok %s" % _paren(text)
        return Tr.ret_text(self, node, text, ty)

    def raise_text(self, node):
        if self.spec["ret"] == RES:
            return "Raise"
        self.fail(node, "an exception cannot be represented in the result of this function")

    def list_type_of(self, node, ety):
        if ety == STR:
            return STRS
        self.fail(node, "no list type for elements of type %s" % ety)

    def fall_off(self):
        if self.spec.get("falls_to"):
            return "Ok %s" % self.spec["falls_to"]
        self.fail(self.fn, "the function can end without a return statement")

    @staticmethod
    def is_mod_call(e, mod, name, nargs):
        return (isinstance(e, ast.Call) and isinstance(e.func, ast.Attribute) and e.func.attr == name
                and isinstance(e.func.value, ast.Name) and e.func.value.id == mod
                and len(e.args) == nargs and not e.keywords)

    @staticmethod
    def method_call(e, name, nargs):
        if isinstance(e, ast.Call) and isinstance(e.func, ast.Attribute) and e.func.attr == name \
                and len(e.args) == nargs and not e.keywords:
            return e.func.value
        return None

    def sep_char(self, node, a):
        if not (isinstance(a, ast.Constant) and type(a.value) is str and len(a.value) == 1):
            self.fail(node, "split needs a one-character constant separator")
        return ord(a.value)

    def expr(self, e, env):
        if isinstance(e, ast.Constant) and type(e.value) is str:
            try:
                return str_lit(e.value), STR
            except TranslateError as err:
                self.fail(e, str(err))
        if isinstance(e, ast.JoinedStr):
            # f"..{s}..": the concatenation of its parts; {s} / {s!s} of a string is the string itself
            parts = []
            for v in e.values:
                if isinstance(v, ast.Constant) and type(v.value) is str:
                    try:
                        parts.append(str_lit(v.value))
                    except TranslateError as err:
                        self.fail(e, str(err))
                elif isinstance(v, ast.FormattedValue) and v.format_spec is None and v.conversion in (-1, 115):
                    t, ty = self.expr(v.value, env)
                    if ty != STR:
                        self.fail(v, "an f-string field of type %s (only strings are supported)" % ty)
                    parts.append(_paren(t))
                else:
                    self.fail(e, "unsupported f-string part")
            if not parts:
                return "(@nil N)", STR
            text = parts[0]
            for p in parts[1:]:
                text = "%s ++ %s" % (_paren(text), _paren(p))
            return text, STR
        if isinstance(e, (ast.Tuple, ast.List)) and e.elts and all(
                isinstance(x, ast.Constant) and type(x.value) is str for x in e.elts):
            # a literal collection of strings, used with `in`
            try:
                return "[" + "; ".join(str_lit(x.value) for x in e.elts) + "]", STRS
            except TranslateError as err:
                self.fail(e, str(err))
        if isinstance(e, ast.Call):
            f = e.func
            recv = self.method_call(e, "split", 1)
            if recv is not None:
                v, tv = self.expr(recv, env)
                if tv != STR:
                    self.fail(e, "split of a %s" % tv)
                return "split_on %d %s" % (self.sep_char(e, e.args[0]), _paren(v)), STRS
            recv = self.method_call(e, "strip", 0)
            if recv is not None:
                v, tv = self.expr(recv, env)
                if tv != STR:
                    self.fail(e, "strip of a %s" % tv)
                return "strip isspace %s" % _paren(v), STR
            recv = self.method_call(e, "join", 1)
            if recv is not None and not (isinstance(recv, ast.Name) and recv.id in ("re", "config")):
                if not (isinstance(recv, ast.Constant) and recv.value == ""):
                    self.fail(e, "only ''.join(l) is supported")
                v, tv = self.expr(e.args[0], env)
                if tv != STRS:
                    self.fail(e, "join of a %s" % tv)
                return "concat %s" % _paren(v), STR
            if self.is_mod_call(e, "re", "findall", 2):
                pat = e.args[0]
                if not (isinstance(pat, ast.Constant) and pat.value == FINDALL_PATTERN):
                    self.fail(e, "re.findall is supported for the pattern %r only (EditRules.tokens)" % FINDALL_PATTERN)
                v, tv = self.expr(e.args[1], env)
                if tv != STR:
                    self.fail(e, "findall in a %s" % tv)
                return "tokens %s" % _paren(v), STRS
            if self.is_mod_call(e, "re", "search", 2):
                a, ta = self.expr(e.args[0], env)
                b, tb = self.expr(e.args[1], env)
                if (ta, tb) != (STR, STR):
                    self.fail(e, "re.search(%s, %s)" % (ta, tb))
                return "re_search %s %s" % (_paren(a), _paren(b)), BOOL
            if self.is_mod_call(e, "config", "get", 1) and env.types.get("config") == CFG:
                key = e.args[0]
                if not (isinstance(key, ast.Constant) and key.value in CFG_KEYS):
                    self.fail(e, "config key outside the model's config record (%s)" % ", ".join(sorted(CFG_KEYS)))
                text, ty = CFG_KEYS[key.value]
                return text % "config", ty
            if isinstance(f, ast.Name) and f.id == "int" and len(e.args) == 1 and not e.keywords:
                v, tv = self.expr(e.args[0], env)
                if tv != STR:
                    self.fail(e, "int of a %s" % tv)
                var = self.gensym("int")
                self.pending.append((var, "int_of %s" % _paren(v), "option"))
                return var, NAT
            if isinstance(f, ast.Name) and f.id in self.done and not e.keywords:
                spec = self.done[f.id]
                if len(e.args) != len(spec["params"]):
                    self.fail(e, "wrong number of arguments")
                args = []
                for a, (n, ty) in zip(e.args, spec["params"]):
                    t, ta = self.expr(a, env)
                    if ta != ty:
                        self.fail(a, "argument %r has type %s, expected %s" % (n, ta, ty))
                    args.append(_paren(t))
                call = "%s %s %s" % (spec["coq"], self.CTX_ARGS, " ".join(args))
                if spec["ret"] == RES:
                    var = self.gensym("res")
                    self.pending.append((var, call, "res"))
                    return var, STR
                return call, spec["ret"]
            return self.common_expr(e, env)     # all(..) / any(..) over a generator, else refused there
        if isinstance(e, ast.Subscript):
            if not isinstance(e.ctx, ast.Load):
                self.fail(e, "unsupported use of a subscript")
            v, tv = self.expr(e.value, env)
            sl = e.slice
            if tv == STRS and isinstance(sl, ast.Constant) and type(sl.value) is int and 0 <= sl.value <= 50:
                return "sub undef_str %s %d" % (_paren(v), sl.value), STR
            if tv == STR and isinstance(sl, ast.Constant) and type(sl.value) is int and sl.value == 0:
                return "char0 undef_str %s" % _paren(v), STR
            if tv == STR and isinstance(sl, ast.Slice) and sl.upper is None and sl.step is None \
                    and isinstance(sl.lower, ast.Constant) and type(sl.lower.value) is int and 0 <= sl.lower.value <= 50:
                return "skipn %d %s" % (sl.lower.value, _paren(v)), STR
            self.fail(e, "unsupported subscript of a %s" % tv)
        return self.common_expr(e, env)

    def add_op(self, node, a, ta, b, tb):
        if (ta, tb) == (STR, STR):
            return "%s ++ %s" % (_paren(a), _paren(b)), STR
        return Tr.add_op(self, node, a, ta, b, tb)

    def compare(self, e, env):
        a, ta = self.expr(e.left, env)
        b, tb = self.expr(e.comparators[0], env)
        op = type(e.ops[0])
        if (ta, tb) == (STR, STR) and op in (ast.Eq, ast.NotEq):
            t = "s_eqb %s %s" % (_paren(a), _paren(b))
            return (t if op is ast.Eq else "negb (%s)" % t), BOOL
        if (ta, tb) == (STR, STRS) and op in (ast.In, ast.NotIn):
            t = "s_in %s %s" % (_paren(a), _paren(b))
            return (t if op is ast.In else "negb (%s)" % t), BOOL
        if (ta, tb) == (NAT, NAT):
            return self.nat_compare(e, a, b)
        self.fail(e, "comparison of %s with %s" % (ta, tb))


EDIT_HEAD = """(* GENERATED by harness/translate_small.py from the Python source of the current
   working tree (%s) on every run of a check.  Do not edit.
   Each definition is the line-by-line image of one Python function in the subset
   documented in the translator; the numbers in the comments are source lines.
   theories/SmallGenProofsEdit.v proves them equal to the hand-written model of
   theories/EditRules.v on the text of every list of well-shaped lines. *)
From Coq Require Import List Arith NArith Bool.
From Pcfg Require Import KernelRt SmallRt EditRules.
Import ListNotations.

(* Parameters of every generated definition (all explicit, used or not, so that the signatures
   do not depend on the current source):
     re_search   Python's re.search for the user's regexes (the model's oracle)
     isspace     str.isspace
     undef_str   the value of a subscript that raises in Python *)

"""
EditTr.CTX_BINDERS = "(re_search : str -> str -> bool) (isspace : N -> bool) (undef_str : str)"
EditTr.CTX_ARGS = "re_search isspace undef_str"

EDIT_SPECS = [
    dict(py="check_regex", coq="py_check_regex", params=[("grammar", STR), ("grammar_regex", STRS)], ret=STR),
    dict(py="edit_terminal_set", coq="py_edit_terminal_set", params=[("grammar", STR), ("terminal_set", STRS)], ret=STR),
    dict(py="edit_length", coq="py_edit_length", params=[("grammar", STR), ("min_length", NAT), ("max_length", NAT)],
         ret=RES, note="int('') raises ValueError: the result is [Raise]"),
]


def edit_rules_slice(path, fn):
    """the filter passes of edit_rules: the maximal run of `if config.get(..)...: grammar = f(grammar, ..)`
    statements; what is before must end by binding `grammar`, what is after may only read it"""
    names = {s["py"] for s in EDIT_SPECS}

    def is_pass(st):
        return (isinstance(st, ast.If) and not st.orelse and len(st.body) == 1 and isinstance(st.body[0], ast.Assign)
                and len(st.body[0].targets) == 1 and isinstance(st.body[0].targets[0], ast.Name)
                and st.body[0].targets[0].id == "grammar" and isinstance(st.body[0].value, ast.Call)
                and isinstance(st.body[0].value.func, ast.Name) and st.body[0].value.func.id in names)

    def mentions(st, what):
        return any(isinstance(n, ast.Name) and n.id in what for n in ast.walk(st))

    idx = [i for i, st in enumerate(fn.body) if is_pass(st)]
    if not idx or idx != list(range(idx[0], idx[-1] + 1)):
        raise TranslateError("%s:%d: edit_rules: the filter passes are not one run of "
                             "`if ...: grammar = f(grammar, ...)` statements" % (path, fn.lineno))
    before, sl, after = fn.body[:idx[0]], fn.body[idx[0]:idx[-1] + 1], fn.body[idx[-1] + 1:]
    for st in before + after:
        if mentions(st, names):
            raise TranslateError("%s:%d: edit_rules: a filter function is used outside the run of passes" % (path, st.lineno))
    last = before[-1] if before else None
    # `grammar = open(..).read()` or `with open(..) as f: grammar = f.read()` (file I/O: not looked into)
    if isinstance(last, ast.With) and last.body:
        for st in last.body[:-1]:
            if mentions(st, {"grammar"}):
                raise TranslateError("%s:%d: edit_rules: `grammar` is used before it is read from the file" % (path, st.lineno))
        last = last.body[-1]
    if not (isinstance(last, ast.Assign) and len(last.targets) == 1 and isinstance(last.targets[0], ast.Name)
            and last.targets[0].id == "grammar"):
        raise TranslateError("%s:%d: edit_rules: the statement before the passes does not bind `grammar`" % (path, fn.lineno))
    for st in before[:-1]:
        for n in ast.walk(st):
            if isinstance(n, ast.Name) and n.id == "grammar":
                raise TranslateError("%s:%d: edit_rules: `grammar` is used before it is read from the file" % (path, st.lineno))
    wrote = False
    for st in after:
        for n in ast.walk(st):
            if isinstance(n, ast.Name) and n.id == "grammar":
                if not isinstance(n.ctx, ast.Load):
                    raise TranslateError("%s:%d: edit_rules: `grammar` is rebound after the passes" % (path, st.lineno))
                wrote = True
    if not wrote:
        raise TranslateError("%s:%d: edit_rules: the result of the passes is not used" % (path, fn.lineno))
    # `config` must be the parameter all along
    for st in fn.body:
        for n in ast.walk(st):
            if isinstance(n, ast.Name) and n.id == "config" and not isinstance(n.ctx, ast.Load):
                raise TranslateError("%s:%d: edit_rules: `config` is rebound" % (path, st.lineno))
    return sl


def render_edit(repo=None):
    rel = "edit_rules.py"
    path, tree = parse(repo, rel)
    defs = defs_of(path, tree.body)
    check_not_rebound(path, tree, {s["py"] for s in EDIT_SPECS} | {"edit_rules"} | BUILTINS_USED)
    check_module_name(path, tree, "re")
    parts, done = [], {}
    for spec in EDIT_SPECS:
        fn = defs.get(spec["py"])
        if fn is None:
            raise TranslateError("%s: %s not found" % (path, spec["py"]))
        parts.append(EditTr(path, rel, "", fn, spec, done).translate())
        done[spec["py"]] = spec
    fn = defs.get("edit_rules")
    if fn is None:
        raise TranslateError("%s: edit_rules not found" % path)
    spec = dict(py="edit_rules", coq="py_edit_passes", params=[("config", CFG)], ret=RES, falls_to="grammar",
                note="only the filter passes (between reading and writing Grammar/grammar.txt); the result is the "
                     "text written back")
    tr = EditTr(path, rel, "", fn, spec, done)
    sl = edit_rules_slice(path, fn)
    tr.extra_params = [("grammar", STR)]
    parts.append(tr.translate(sl))
    return EDIT_HEAD % rel + "\n".join(parts)


# ====================================================================== probs
NUMS = "nums"


class ProbsTr(Tr):
    KERNEL = "probs"
    COQ_TYPE = dict(Tr.COQ_TYPE, **{NUM: "num O", KEY: "str", PAIR: "(str * num O)", CNT: "Counters.counter O",
                                    NUMS: "list (num O)"})
    RESERVED = RESERVED_COMMON | set("""O num nzero none nadd nsub ndiv nltb neqb nofN nmul numops str most_common total
        calc_probs Counters""".split())

    def check_name(self, node, name):
        # the parameter `counter` shadows the model's type name inside the definition (written Counters.counter there)
        if name == "counter":
            return
        Tr.check_name(self, node, name)

    def elem_type(self, node, ty):
        if ty == CNT:
            return PAIR
        self.fail(node, "iteration / item access on a %s" % ty)

    def undef_of(self, node, ty):
        if ty == PAIR:
            return "undef_pair"
        self.fail(node, "no undefined value of type %s" % ty)

    def pair_types(self, node, ety):
        if ety == PAIR:
            return (KEY, NUM)
        self.fail(node, "an element of type %s cannot be unpacked" % ety)

    def list_type_of(self, node, ety):
        if ety == PAIR:
            return CNT
        self.fail(node, "no list type for elements of type %s" % ety)

    def is_fresh_value(self, v):
        return self.method_call(v, "most_common") is not None

    @staticmethod
    def method_call(e, name):
        if isinstance(e, ast.Call) and isinstance(e.func, ast.Attribute) and e.func.attr == name \
                and not e.args and not e.keywords:
            return e.func.value
        return None

    def number(self, node, text, ty, other):
        """an operand of / or *: a number, or the int constant 0 / 1 next to a number"""
        if ty == NUM:
            return text
        if ty == NAT and other == NUM and text in ("0", "1"):
            return "nzero O" if text == "0" else "none O"
        self.fail(node, "arithmetic on a %s" % ty)

    def expr(self, e, env):
        if isinstance(e, ast.Call):
            f = e.func
            recv = self.method_call(e, "values")
            if recv is not None:
                v, tv = self.expr(recv, env)
                if tv != CNT:
                    self.fail(e, "values() of a %s" % tv)
                return "py_values %s" % _paren(v), NUMS
            recv = self.method_call(e, "most_common")
            if recv is not None:
                v, tv = self.expr(recv, env)
                if tv != CNT:
                    self.fail(e, "most_common() of a %s" % tv)
                return "most_common %s" % _paren(v), CNT
            if isinstance(f, ast.Name) and f.id == "sum" and len(e.args) == 1 and not e.keywords:
                v, tv = self.expr(e.args[0], env)
                if tv != NUMS:
                    self.fail(e, "sum of a %s" % tv)
                return "py_sum %s" % _paren(v), NUM
            return self.common_expr(e, env)     # all(..) / any(..) over a generator, else refused there
        if isinstance(e, ast.Tuple):
            if len(e.elts) != 2:
                self.fail(e, "only pairs (value, number) are supported")
            a, ta = self.expr(e.elts[0], env)
            b, tb = self.expr(e.elts[1], env)
            if (ta, tb) != (KEY, NUM):
                self.fail(e, "a pair of %s and %s" % (ta, tb))
            return "(%s, %s)" % (a, b), PAIR
        if isinstance(e, ast.Subscript):
            if not isinstance(e.ctx, ast.Load):
                self.fail(e, "unsupported use of a subscript")
            v, tv = self.expr(e.value, env)
            if tv == PAIR and isinstance(e.slice, ast.Constant) and type(e.slice.value) is int and e.slice.value in (0, 1):
                return ("fst %s" % _paren(v), KEY) if e.slice.value == 0 else ("snd %s" % _paren(v), NUM)
            self.fail(e, "unsupported subscript of a %s" % tv)
        return self.common_expr(e, env)

    def arith(self, e, a, ta, b, tb):
        if isinstance(e.op, (ast.Div, ast.Mult)) and NUM in (ta, tb):
            x, y = self.number(e, a, ta, tb), self.number(e, b, tb, ta)
            if isinstance(e.op, ast.Div):
                return "ndiv O %s %s" % (_paren(x), _paren(y)), NUM
            return "nmul %s %s" % (_paren(x), _paren(y)), NUM
        self.fail(e, "unsupported arithmetic on %s and %s" % (ta, tb))

    def add_op(self, node, a, ta, b, tb):
        if NUM in (ta, tb):
            return "nadd O %s %s" % (_paren(self.number(node, a, ta, tb)), _paren(self.number(node, b, tb, ta))), NUM
        return Tr.add_op(self, node, a, ta, b, tb)

    def effect_special(self, s, env, ind):
        c = s.value
        if isinstance(c, ast.Call) and isinstance(c.func, ast.Name) and c.func.id in self.done and not c.keywords:
            spec = self.done[c.func.id]
            if spec["ret"] != UNIT or len(c.args) != len(spec["params"]):
                self.fail(s, "unsupported call statement")
            args = []
            for a, (n, ty) in zip(c.args, spec["params"]):
                t, ta = self.expr(a, env)
                if ta != ty:
                    self.fail(a, "argument %r has type %s, expected %s" % (n, ta, ty))
                args.append(_paren(t))
            # the callee has been translated: it returns None and (mutation of a parameter being outside the
            # subset) changes nothing
            return self.line(ind, "let _ := %s %s %s in" % (spec["coq"], self.CTX_ARGS, " ".join(args)), s)
        return None


PROBS_HEAD = """(* GENERATED by harness/translate_small.py from the Python source of the current
   working tree (%s) on every run of a check.  Do not edit.
   Each definition is the line-by-line image of one Python function in the subset
   documented in the translator; the numbers in the comments are source lines.
   theories/SmallGenProofsProbs.v proves py_calculate_probabilities equal to
   Counters.calc_probs for every number structure (Q and binary64 included). *)
From Coq Require Import List Arith Bool.
From Pcfg Require Import KernelRt SmallRt Counters.
Import ListNotations.

(* Parameters of every generated definition (all explicit, used or not, so that the signatures
   do not depend on the current source):
     O           the number structure (Counters.numops)
     nmul        Python's * on numbers (the model has no multiplication: a source that multiplies is not the model)
     undef_pair  the value of a subscript that raises in Python *)

"""
ProbsTr.CTX_BINDERS = "{O : numops} (nmul : num O -> num O -> num O) (undef_pair : TextFile.str * num O)"
ProbsTr.CTX_ARGS = "nmul undef_pair"

PROBS_SPECS = [
    dict(py="apply_probability_smoothing", coq="py_apply_probability_smoothing", params=[("counter", CNT)], ret=UNIT,
         note="returns None"),
    dict(py="calculate_probabilities", coq="py_calculate_probabilities", params=[("counter", CNT)], ret=CNT),
]


def render_probs(repo=None):
    rel = "lib_trainer/calculate_probabilities.py"
    path, tree = parse(repo, rel)
    defs = defs_of(path, tree.body)
    check_not_rebound(path, tree, {s["py"] for s in PROBS_SPECS} | BUILTINS_USED)
    parts, done = [], {}
    for spec in PROBS_SPECS:
        fn = defs.get(spec["py"])
        if fn is None:
            raise TranslateError("%s: %s not found" % (path, spec["py"]))
        parts.append(ProbsTr(path, rel, "", fn, spec, done).translate())
        done[spec["py"]] = spec
    return PROBS_HEAD % rel + "\n".join(parts)


# ====================================================================== shared file handling
def parse(repo, rel):
    repo = repo or common.REPO
    path = os.path.join(repo, rel)
    with open(path, encoding="utf-8", newline="") as f:
        src = f.read()
    return path, ast.parse(src, filename=path)


def class_defs(path, tree, cls):
    classes = [n for n in tree.body if isinstance(n, ast.ClassDef) and n.name == cls]
    if len(classes) != 1:
        raise TranslateError("%s: class %s not found exactly once" % (path, cls))
    return defs_of(path, classes[0].body)


def defs_of(path, body):
    defs = {}
    for n in body:
        if isinstance(n, (ast.FunctionDef, ast.AsyncFunctionDef)):
            if n.name in defs:
                raise TranslateError("%s:%d: %s defined twice" % (path, n.lineno, n.name))
            defs[n.name] = n
    for n, d in defs.items():
        if not isinstance(d, ast.FunctionDef):
            raise TranslateError("%s:%d: %s is not a plain def" % (path, d.lineno, n))
    return defs


def check_not_rebound(path, tree, names):
    """a rebinding of one of the names inside the file would make the translated def not the one that runs"""
    for n in ast.walk(tree):
        if isinstance(n, (ast.Assign, ast.AugAssign, ast.AnnAssign, ast.Delete)):
            targets = n.targets if isinstance(n, (ast.Assign, ast.Delete)) else [n.target]
            for t in targets:
                for m in ast.walk(t):
                    if (isinstance(m, ast.Name) and m.id in names) or (isinstance(m, ast.Attribute) and m.attr in names):
                        raise TranslateError("%s:%d: %s is rebound" % (path, n.lineno, ast.unparse(t)))
        if isinstance(n, ast.Name) and n.id in ("setattr", "delattr", "__dict__", "globals", "exec", "eval"):
            raise TranslateError("%s:%d: %s is used in the module" % (path, n.lineno, n.id))
        if isinstance(n, (ast.Import, ast.ImportFrom)):
            for a in n.names:
                if (a.asname or a.name) in names:
                    raise TranslateError("%s:%d: %s is imported over" % (path, n.lineno, a.name))
        if isinstance(n, (ast.FunctionDef, ast.AsyncFunctionDef, ast.ClassDef)) and n.name in names & BUILTINS_USED:
            raise TranslateError("%s:%d: the builtin %s is redefined" % (path, n.lineno, n.name))
        if isinstance(n, ast.arg) and n.arg in names & BUILTINS_USED:
            raise TranslateError("%s:%d: the builtin %s is a parameter name" % (path, n.lineno, n.arg))


def check_module_name(path, tree, mod):
    """`mod` is bound by a plain `import mod` at module level and by nothing else"""
    ok = False
    for n in ast.walk(tree):
        if isinstance(n, ast.Import):
            for a in n.names:
                if a.name == mod and a.asname is None:
                    ok = True
                elif (a.asname or a.name.split(".")[0]) == mod:
                    raise TranslateError("%s:%d: %s is bound to something else" % (path, n.lineno, mod))
        elif isinstance(n, ast.ImportFrom):
            for a in n.names:
                if (a.asname or a.name) == mod:
                    raise TranslateError("%s:%d: %s is bound to something else" % (path, n.lineno, mod))
        elif isinstance(n, ast.Name) and n.id == mod and isinstance(n.ctx, (ast.Store, ast.Del)):
            raise TranslateError("%s:%d: %s is rebound" % (path, n.lineno, mod))
        elif isinstance(n, ast.arg) and n.arg == mod:
            raise TranslateError("%s:%d: %s is a parameter name" % (path, n.lineno, mod))
        elif isinstance(n, (ast.FunctionDef, ast.ClassDef)) and n.name == mod:
            raise TranslateError("%s:%d: %s is redefined" % (path, n.lineno, mod))
    if not ok:
        raise TranslateError("%s: no plain `import %s`" % (path, mod))


KERNELS = {}     # name -> (render function, output file)
KERNELS["walk"] = (render_walk, os.path.join("gen", "Small_walk_gen.v"))
KERNELS["edit"] = (render_edit, os.path.join("gen", "Small_edit_gen.v"))
KERNELS["probs"] = (render_probs, os.path.join("gen", "Small_probs_gen.v"))


def failure_text(name, err):
    """text written instead of the definitions when the translation fails: it must not
    compile, so that no stale generated definition survives"""
    return ("(* GENERATED by harness/translate_small.py.  The translation of the current sources FAILED:\n"
            "   %s\n   The line below does not type-check on purpose. *)\n"
            "Definition small_%s_translation_failed : False := I.\n" % (_comment(str(err)), name))


def write(name, repo=None):
    import extract_consts as X
    render, out = KERNELS[name]
    path = os.path.join(common.COQ, out)
    try:
        text = render(repo)
    except Exception as e:
        X.write(path, failure_text(name, "%s: %s" % (type(e).__name__, e)))
        raise
    return X.write(path, text)


def write_all(repo=None):
    """every kernel is written (or replaced by its failure text); the first error is raised afterwards"""
    first = None
    for name in sorted(KERNELS):
        try:
            write(name, repo)
        except Exception as e:      # noqa: BLE001  (fail closed: re-raised below)
            first = first or e
    if first is not None:
        raise first


if __name__ == "__main__":
    args = sys.argv[1:]
    if "--write" in args:
        write_all()
        print("written")
    else:
        for name in (args or sorted(KERNELS)):
            sys.stdout.write(KERNELS[name][0]())
