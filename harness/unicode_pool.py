"""Strings that are NOT stable under the Unicode normalisation forms, next to their normalised twins.

Nothing in pcfg_cracker normalises text: a password, a terminal, an OMEN n-gram is the sequence of code points the
training file held, on every side of every interface (trainer -> rule files -> guesser / scorer).  The generators of
the other harness modules only produce text that is already in NFC, on which `unicodedata.normalize` is the identity,
so a normalisation on ONE side of an interface is invisible to them.  This pool holds, as (spelling, NFC twin) pairs:

  mark        base letter + combining mark that has a precomposed form (e+U+0301, n+U+0303, e+U+0308, a+U+030A,
              Cyrillic i+U+0306 ...): NFC shortens the string
  mark-order  two marks in non-canonical order: NFC reorders / partly composes
  mark-stable base letter + mark WITHOUT a precomposed form (q+U+0301): already NFC, the control
  singleton   code points NFC replaces by another single code point (U+212B ANGSTROM, U+2126 OHM, U+212A KELVIN,
              U+037E GREEK QUESTION MARK)
  hangul      conjoining jamo (NFD of a Hangul syllable): NFC composes 2-3 code points into one
  cjk-compat  CJK compatibility ideographs (U+F900..): NFC replaces them by the unified ideograph

Both spellings are handed out together, so that they occur as DIFFERENT strings in one list.  All of them can be
written in utf-8 (and utf-16); none in latin-1 / cp1251 / cp1252 (`encodable`).  The only source of randomness is the
random.Random handed in.

This file is pure ASCII on purpose: every non-ASCII character is written as hexadecimal code points (`U`), ASCII text
inside a spec is written in single quotes.  No editor / transport can normalise it."""
import unicodedata


def U(spec):
    """'63 61 66 65 301' or "'caf' 65 301 '77'" -> the string of these code points"""
    out = []
    for tok in spec.split():
        if tok.startswith("'") and tok.endswith("'") and len(tok) >= 2:
            out.append(tok[1:-1])
        else:
            out.append(chr(int(tok, 16)))
    return "".join(out)


def nfc(s):
    return unicodedata.normalize("NFC", s)


def nfd(s):
    return unicodedata.normalize("NFD", s)


def stable(s):
    """the four normalisation forms leave s alone"""
    return all(unicodedata.normalize(f, s) == s for f in ("NFC", "NFD", "NFKC", "NFKD"))


def nfc_stable(s):
    return nfc(s) == s


# (kind, spelling, NFC twin)
UNITS = [(k, U(a), U(b)) for k, a, b in [
    ("mark", "65 301", "e9"), ("mark", "6e 303", "f1"), ("mark", "65 308", "eb"), ("mark", "61 30a", "e5"),
    ("mark", "6f 308", "f6"), ("mark", "75 308", "fc"), ("mark", "45 301", "c9"), ("mark", "41 30a", "c5"),
    ("mark", "438 306", "439"), ("mark", "435 308", "451"), ("mark", "418 306", "419"),
    ("mark-order", "61 301 323", "1ea1 301"), ("mark-order", "6f 308 323", "1ecd 308"),
    ("mark-stable", "71 301", "71 301"), ("mark-stable", "7a 308", "7a 308"),
    ("singleton", "212b", "c5"), ("singleton", "2126", "3a9"), ("singleton", "212a", "4b"), ("singleton", "37e", "3b"),
    ("hangul", "1100 1161", "ac00"), ("hangul", "1112 1161 11ab", "d55c"), ("hangul", "1102 1161", "b098"),
    ("cjk-compat", "f900", "8c48"), ("cjk-compat", "f901", "66f4"), ("cjk-compat", "f902", "8eca"),
]]

for _k, _s, _t in UNITS:
    # the interpreter's tables must agree (fail closed: a pool that is silently all-NFC explores nothing)
    if nfc(_s) != _t or (_k == "mark-stable") != (nfc(_s) == _s):
        raise RuntimeError("unicode_pool: %r is not what unicodedata of this interpreter says about %r" % (_t, _s))

# words: (kind, composed spelling); the other spelling is its NFD
_COMPOSED_WORDS = [(k, U(w)) for k, w in [
    ("mark", "'caf' e9"), ("mark", "'ni' f1 'o'"), ("mark", "'zo' eb"), ("mark", "e5 'ngstr' f6 'm'"), ("mark", "fc 'ber'"),
    ("mark", "'se' f1 'or'"), ("mark", "'cr' e8 'me'"), ("mark", "'Jos' e9"),
    ("mark", "439 43e 434"), ("mark", "43c 43e 439"), ("mark", "451 43b 43a 430"), ("mark", "419 43e 440 43a"),
    ("hangul", "d55c ae00"), ("hangul", "ac00 b098"), ("hangul", "c11c c6b8"),
]]
# (kind, spelling, NFC twin) for words whose other spelling is not the NFD
_OTHER_WORDS = [(k, U(a), U(b)) for k, a, b in [
    ("singleton", "212b 'ngstrom'", "c5 'ngstrom'"), ("singleton", "'10' 2126", "'10' 3a9"),
    ("singleton", "'300' 212a", "'300K'"), ("singleton", "'why' 37e", "'why;'"), ("singleton", "2126 'mega'", "3a9 'mega'"),
    ("cjk-compat", "f900 f901", "8c48 66f4"), ("cjk-compat", "f902 f901 'x'", "8eca 66f4 'x'"),
    ("mark-order", "'ma' 301 323", "'m' 1ea1 301"),
    ("mark-stable", "71 301 'uiz'", "71 301 'uiz'"), ("mark-stable", "7a 308 'yx'", "7a 308 'yx'"),
]]


def word_pairs():
    """[(kind, spelling, NFC twin)]: whole words; spelling != twin except for the kind 'mark-stable'"""
    out = [(k, nfd(w), w) for k, w in _COMPOSED_WORDS]
    out += list(_OTHER_WORDS)
    for k, s, t in out:
        if nfc(s) != t or (k == "mark-stable") != (s == t):
            raise RuntimeError("unicode_pool: NFC(%r) != %r" % (s, t))
    return out


def encodable(s, enc):
    try:
        s.encode(enc)
        return True
    except (UnicodeEncodeError, LookupError):
        return False


TAILS = ["", "", "1", "7", "12", "77", "!", "2020", "#1", "99"]


def password_pairs(rng, n, tails=TAILS, kinds=None):
    """n pairs [(kind, password, twin)]: a word of the pool in its non-NFC spelling and the NFC twin of the SAME
    password (same tail), to be trained / scored as two different strings.  Every kind of the pool (or of `kinds`) comes
    up before one repeats."""
    wp = [w for w in word_pairs() if kinds is None or w[0] in kinds]
    by = {}
    for w in wp:
        by.setdefault(w[0], []).append(w)
    order = list(by)
    rng.shuffle(order)
    out = []
    while len(out) < n:
        for k in order:
            if len(out) >= n:
                break
            _, s, t = rng.choice(by[k])
            tail = rng.choice(tails)
            head = rng.choice(["", "", "", "x", "1"])
            out.append((k, head + s + tail, head + t + tail))
    return out


def passwords(rng, n_pairs, kinds=None):
    """a flat list of passwords: both spellings of n_pairs pool words (the stable controls once), shuffled"""
    out = []
    for k, s, t in password_pairs(rng, n_pairs, kinds=kinds):
        out.append(s)
        if t != s:
            out.append(t)
    rng.shuffle(out)
    return out


def twins(s):
    """the other spellings of s under the canonical forms (empty for text both forms leave alone)"""
    out = []
    for f in (nfc(s), nfd(s)):
        if f != s and f not in out:
            out.append(f)
    return out


# alphabets (single code points) for OMEN models / character pools for random words: some product of the symbols is
# a sequence NFC changes, and the symbol NFC would produce is (mostly) in the alphabet too, so that both spellings are
# words over one alphabet.  The last two are the controls (nothing NFC changes).
OMEN_ALPHABETS = [[U(c) for c in a.split()] for a in [
    "65 301 61 e9",               # e, combining acute, a, e-acute
    "6e 303 6f f1 31",            # n, combining tilde, o, n-tilde, 1
    "61 30a e5 212b c5",          # a, combining ring, a-ring, ANGSTROM SIGN, A-ring
    "65 308 6f 75 eb",            # e, combining diaeresis, o, u, e-diaeresis
    "438 306 439 430",            # Cyrillic i, combining breve, short i, a
    "1100 1161 ac00 11ab",        # Hangul conjoining jamo + the syllable
    "f900 8c48 61",               # CJK compatibility ideograph, its unified twin, a
    "2126 3a9 31 62",             # OHM SIGN, Omega, 1, b
    "212a 4b 6b 32",              # KELVIN SIGN, K, k, 2
    "37e 3b 61 21",               # GREEK QUESTION MARK, semicolon, a, !
    "61 301 323 62",              # two marks: a + acute + dot below is not in canonical order
    "65 301 62",
    "f901 f902 63",
    "71 301 62 78",               # control: q + acute has no precomposed form ...
    "e9 f1 61 31",                # control: precomposed only
]]
N_UNSTABLE_ALPHABETS = len(OMEN_ALPHABETS) - 2


def omen_alphabet(rng, nalpha=None, control=False):
    """symbols of one alphabet of the pool (2..len of them; the first two - the ones that spell the unstable sequence, or
    the singleton and one more - always among them), in random order"""
    a = list(rng.choice(OMEN_ALPHABETS[N_UNSTABLE_ALPHABETS:] if control else OMEN_ALPHABETS[:N_UNSTABLE_ALPHABETS]))
    k = min(len(a), max(2, nalpha or rng.randint(2, len(a))))
    keep = a[:2] + rng.sample(a[2:], k - 2)
    rng.shuffle(keep)
    return keep


def unstable_over(alphabet, ngram):
    """does some string of up to `ngram` symbols of the alphabet change under NFC?  (triples suffice for the pool)"""
    import itertools
    for n in range(1, min(ngram, 3) + 1):
        for t in itertools.product(alphabet, repeat=n):
            if not nfc_stable("".join(t)):
                return True
    return False


for _i, _a in enumerate(OMEN_ALPHABETS):
    if unstable_over(_a, 3) != (_i < N_UNSTABLE_ALPHABETS):
        raise RuntimeError("unicode_pool: alphabet %d: unicodedata of this interpreter disagrees" % _i)


def char_pool(rng):
    """a string of characters to draw random words from (omen_level.gen_training): an alphabet of the pool"""
    return "".join(omen_alphabet(rng, nalpha=rng.randint(3, 5)))
