"""In-process control of the guesser's helper thread (no change to /repo):
CrackingSession.run is executed with the module attributes
lib_guesser.cracking_session.{threading,time,input,PcfgQueue} replaced by
stand-ins, so that the REAL keypress() runs in a real thread but consumes
scripted events only at chosen atomic steps of the main loop (before each pop,
at each emitted guess), and the run waits for the thread to become quiescent
after every delivery.  One run = one schedule."""
import configparser
import contextlib
import io
import os
import queue
import sys
import threading as _threading
import types

import common

common.repo_on_path()

STEP_EVENTS = ("status", "help", "q", "die", "eof", "err", "stderr_broken")


class Scheduler:
    def __init__(self, plan, early=False):
        self.plan = dict(plan)      # {step index: [event, ...]}
        self.early = early          # deliver the events of step 0 the moment the keyboard thread is started (wherever that is)
        self.step = 0
        self.lines = queue.Queue()
        self.waiting = _threading.Event()
        self.real = None
        self.dead_announced = False
        self.break_stderr = False
        self.delivered = []
        self.died = []              # (step, event, stderr tail, status item): the thread was gone after a request that must leave it listening
        self.reports = []           # (step, event, characters the thread wrote to stderr while handling it)
        self.err = None             # the buffer stderr is redirected to during the run
        self.flag = None            # reads pcfg.should_exit
        self.lost_quits = []        # (step, 'q', ...): 'q' was typed to a listening thread and the quit flag was not set
        self.current = None         # reads the status item (report.pt_item) the thread reports on

    # ---- stand-ins seen by lib_guesser.cracking_session
    def fake_input(self, *a):
        self.waiting.set()
        item = self.lines.get()
        if item == "\x00EOF":
            raise EOFError("EOF when reading a line")
        if item == "\x00ERR":
            raise OSError("input failed")
        return item

    def make_threading(self):
        sch = self

        class FakeThread:
            def __init__(self, group=None, target=None, name=None, args=(), kwargs=None, *, daemon=None):
                self.daemon = True
                sch.real = _threading.Thread(target=target, args=args, kwargs=kwargs or {}, daemon=True)

            def start(self):
                sch.waiting.clear()
                sch.real.start()
                sch.quiesce()
                if sch.early:
                    # the user typed before anything else happened: handled as soon as the thread exists
                    for e in sch.plan.pop(0, ()):
                        sch.deliver(e)

            def is_alive(self):
                return not sch.dead_announced

        class Main:
            def is_alive(self):
                return True
        m = types.SimpleNamespace(Thread=FakeThread, main_thread=lambda: Main())
        return m

    def quiesce(self):
        """wait until the helper thread blocks in input() again or has finished"""
        for _ in range(120000):     # up to a minute: the machine may be heavily loaded
            if self.waiting.is_set() or not self.real.is_alive():
                return
            self.waiting.wait(0.0005)
        raise RuntimeError("helper thread did not become quiescent")

    def send(self, item):
        self.waiting.clear()
        self.lines.put(item)
        self.quiesce()

    def request(self, evname, item):
        """a status / help / quit line typed to a listening thread: the main loop stands still while it is handled, so what
        stderr gains is the thread's answer; after status / help the thread must be listening again"""
        before = self.err.tell() if self.err is not None else 0
        self.send(item)
        after = self.err.tell() if self.err is not None else 0
        self.reports.append((self.step, evname, after - before))
        if (evname != "q" and not self.real.is_alive()) or (evname == "q" and self.flag is not None and not self.flag()):
            # what the thread had written when it gave up, and the status item it was reporting on
            text = self.err.getvalue()[before:after] if self.err is not None else ""
            item = self.current() if self.current is not None else None
            (self.lost_quits if evname == "q" else self.died).append((self.step, evname, text[-200:], repr(item)[:200]))

    def deliver(self, evname):
        self.delivered.append((self.step, evname))
        if self.real is None:
            return
        if evname == "die":
            # the thread has returned: only meaningful once it really has
            if not self.real.is_alive():
                self.dead_announced = True
            return
        if not self.real.is_alive():
            return
        if evname == "status":
            self.request(evname, "")
        elif evname == "help":
            self.request(evname, "h")
        elif evname == "q":
            self.request(evname, "q")
        elif evname == "eof":
            self.send("\x00EOF")
            if not self.real.is_alive():
                self.dead_announced = True
        elif evname == "err":
            self.send("\x00ERR")
            if not self.real.is_alive():
                self.dead_announced = True
        elif evname == "stderr_broken":
            self.break_stderr = True
            self.send("")
            self.break_stderr = False
            if not self.real.is_alive():
                self.dead_announced = True

    def at_step(self):
        for e in self.plan.get(self.step, ()):
            self.deliver(e)
        self.step += 1

    def finish(self):
        if self.real is not None and self.real.is_alive():
            self.lines.put("\x00EOF")
            self.real.join(2.0)


def run_session(pcfg, plan, save_dir, load_config=None, limit=None, storm=False, early=False, past_time=None):
    """One run of the real CrackingSession under schedule [plan].
    Returns dict(out=[guesses], pops=[pt_items], saves=n, save_config, omen_exit, omen_guess_num, steps,
    pop_out = guesses written before each pop, head = guesses written before the first pop (a resumed session: the
    remainder of the restored Markov level), thread_died / reports / lost_quits: see Scheduler).
    load_config: a ConfigParser read from the save file of an earlier run in the same save_dir (sess.sav, sess.omn
    beside it): the session is resumed (run(load_session=True))."""
    import lib_guesser.cracking_session as cs
    from lib_guesser.priority_queue import PcfgQueue
    sch = Scheduler(plan, early)
    out, pops, pop_out = [], [], []
    sch.flag = lambda: bool(pcfg.should_exit)

    class SchedQueue(PcfgQueue):
        def next(self):
            it = PcfgQueue.next(self)
            if it is not None:
                pop_out.append(len(out))
                sch.at_step()       # the step "pop + quit check" of the model
                pops.append(it)
            return it

    foreign = []
    main_thread = _threading.current_thread()

    def collect(g):
        if _threading.current_thread() is not main_thread:
            foreign.append(g)       # something printed a "guess" from the keyboard thread
            return
        out.append(g)
        sch.at_step()

    # storm mode: guesses go through the REAL print_guess to a buffer installed as sys.stdout, while a second
    # thread requests status reports back to back (what keypress does for every [ENTER]) - true concurrency
    storm_buf = io.StringIO()
    storm_stop = []

    save_filename = os.path.join(save_dir, "sess.sav")
    pcfg.save_file = save_filename
    pcfg.should_exit = False
    pcfg.omen_exit = False
    if load_config is None:
        cfg = configparser.ConfigParser()
        for sec in ("rule_info", "session_info", "guessing_info"):
            cfg.add_section(sec)
        cfg.set("session_info", "first_started", "2020-01-01T00:00:00")
    else:
        cfg = load_config
    session = cs.CrackingSession(pcfg, cfg, save_filename)
    if past_time is not None and hasattr(session.report, "past_guessing_time"):
        # a session that has already been running for past_time seconds (what report.load takes from a save file)
        session.report.past_guessing_time = past_time
    saves = []
    orig_save = session._save_session

    def counting_save():
        saves.append(len(pops))
        return orig_save()
    session._save_session = counting_save

    class BrokenReport:
        def __init__(self, rep):
            object.__setattr__(self, "_rep", rep)

        def __getattr__(self, k):
            return getattr(self._rep, k)

        def __setattr__(self, k, v):
            setattr(self._rep, k, v)     # the loop's `self.report.pt_item = ...` must reach the real report

        def print_status(self, p):
            if sch.break_stderr:
                raise OSError("stderr closed")
            return self._rep.print_status(p)
    session.report = BrokenReport(session.report)
    sch.current = lambda: getattr(session.report, "pt_item", None)

    import lib_guesser.omen.markov_cracker as mcmod
    omen_saves = []
    orig_omen_save = mcmod.MarkovCracker.save_session

    def recording_omen_save(self_mc, file_name):
        omen_saves.append((len(pops) - 1, pcfg.omen_guess_num))
        return orig_omen_save(self_mc, file_name)
    mcmod.MarkovCracker.save_session = recording_omen_save
    saved_attrs = {k: getattr(cs, k, None) for k in ("threading", "time", "PcfgQueue")}
    had_input = "input" in cs.__dict__
    old_print = pcfg.print_guess
    try:
        cs.threading = sch.make_threading()
        cs.time = types.SimpleNamespace(sleep=lambda s: None)
        cs.input = sch.fake_input
        cs.PcfgQueue = SchedQueue
        if not storm:
            pcfg.print_guess = collect
        err = io.StringIO()
        sch.err = err
        with contextlib.redirect_stderr(err), contextlib.redirect_stdout(storm_buf if storm else io.StringIO()) as so:
            old_hook = _threading.excepthook
            _threading.excepthook = lambda a: None
            st = None
            old_si = sys.getswitchinterval()
            if storm:
                def hammer():
                    while not storm_stop:
                        try:
                            session.report.print_status(pcfg)
                        except Exception:
                            pass
                sys.setswitchinterval(1e-5)
                st = _threading.Thread(target=hammer, daemon=True)
                st.start()
            try:
                session.run(load_session=load_config is not None, limit=limit)
            finally:
                storm_stop.append(1)
                if st is not None:
                    st.join(5.0)
                sys.setswitchinterval(old_si)
                sch.finish()
                _threading.excepthook = old_hook
        if storm:
            out.extend(storm_buf.getvalue().split("\n")[:-1])
            stray_stdout = ""
        else:
            stray_stdout = so.getvalue()
    finally:
        for k, v in saved_attrs.items():
            setattr(cs, k, v)
        if not had_input:
            cs.__dict__.pop("input", None)
        pcfg.print_guess = old_print
        mcmod.MarkovCracker.save_session = orig_omen_save
    return {"omen_saves": omen_saves, "foreign": foreign, "out": out, "pops": pops, "saves": saves, "save_config": cfg, "omen_exit": pcfg.omen_exit,
            "omen_guess_num": pcfg.omen_guess_num, "steps": sch.step, "stray_stdout": stray_stdout,
            "save_filename": save_filename, "thread_died": sch.died, "reports": sch.reports, "lost_quits": sch.lost_quits,
            "pop_out": pop_out, "head": pop_out[0] if pop_out else len(out), "stderr": err.getvalue()}
