"""String generators for the segmentation checks (C05, C13) and the character
pool whose Unicode facts are regenerated from the running interpreter into
coq/gen/Unicode_gen.v.

Strings are built from *trigger fragments* of the detectors that overlap and
touch: keyboard walks, years, context strings, URL / e-mail pieces, words of a
multi-word vocabulary, digits, symbols and characters whose Unicode behaviour
is unusual (case mappings that change length, non-ASCII digits, title case).
The only source of randomness is the `random.Random` handed in.
"""

# ---------------------------------------------------------------- the pool

def _r(a, b):
    return [chr(c) for c in range(a, b + 1)]


SPECIAL_CHARS = [
    "\u0130",  # capital I with dot: lower() has length 2
    "\u0131",  # dotless i
    "\u00df",  # sharp s: upper() has length 2
    "\u1e9e",  # capital sharp s, lower() is sharp s
    "\u01c5",  # title case dz-caron
    "\u01c4", "\u01c6",
    "\u212a",  # Kelvin sign, lower() is k
    "\u212b",  # Angstrom sign
    "\u2126",  # Ohm sign
    "\u03f4",  # capital theta symbol: lower() is theta, whose upper() is U+0398
    "\u03b8", "\u0398", "\u03c9", "\u03a9", "\u03b1", "\u0391", "\u03c3", "\u03c2",
    "\u017f",  # long s, upper() is S
    "\u0149",  # upper() has length 2
    "\ufb01",  # fi ligature, upper() is FI
    "\u00b5",  # micro sign
    "\u00b2", "\u00b3", "\u00b9",  # superscript digits: isdigit, not isdecimal
    "\u0660", "\u0661", "\u0662", "\u0663", "\u0669",  # Arabic-Indic digits
    "\u0967",  # Devanagari digit one
    "\u2460",  # circled digit one: isdigit
    "\u2167",  # roman numeral eight (numeric, neither letter nor digit)
    "\u00bd",  # one half
    "\u4e2d", "\u6587",  # CJK letters without case
    "\u3042",  # hiragana a
    "\U0001f600",  # emoji
    "\u2665",  # heart
    "\u20ac",  # euro
    "\u00a0",  # no-break space
    "\u3000",  # ideographic space
    "\u0307",  # combining dot above (second half of lower() of U+0130)
    "\u0301",
    "\u00e9", "\u00c9", "\u00f1", "\u00d1", "\u00fc", "\u00dc", "\u00e5", "\u00c5",
    "\u00aa", "\u00ba", "\u00d7", "\u00f7", "\u00bf", "\u00a1", "\u00a3", "\u00a7",
    "\u1c90", "\u10d0",  # Georgian Mtavruli / Mkhedruli
    "\u0345",  # combining ypogegrammeni: upper() is a letter
    "\u2116",  # numero sign (jcuken layout)
    "\u0451", "\u0401",  # io
    # letters whose casefold() differs from their lower() without changing the length
    "\u03d1", "\u03d5", "\u03d6", "\u03f0", "\u03f1", "\u03f5", "\u1e9b", "\u1fbe",
    "\uab70", "\uab71", "\uab72", "\uab73", "\uabbf",  # Cherokee small letters (casefold gives the capitals)
    "\u13a0", "\u13f8",
]

_POOL = None


def pool():
    """Every character the generators may use, closed under lower()/upper()."""
    global _POOL
    if _POOL is None:
        base = set(_r(0x20, 0x7e)) | set(_r(0x410, 0x44f)) | set(SPECIAL_CHARS)
        todo = list(base)
        while todo:
            c = todo.pop()
            for d in c.lower() + c.upper():
                if d not in base:
                    base.add(d)
                    todo.append(d)
        _POOL = sorted(base)
    return _POOL


# U+03A3: str.lower() of a *string* maps it to final or non-final sigma
# depending on context, so lower() is not character-wise there; never generated.
EXCLUDED = ["\u03a3"]


def check_charwise_lower(s):
    """the fact the models assume about str.lower()/str.upper() of a string"""
    return s.lower() == "".join(c.lower() for c in s)


def unicode_facts(chars):
    """(code, isalpha, isdigit, isupper, lower, upper) from the running interpreter"""
    out = []
    for c in chars:
        out.append((ord(c), c.isalpha(), c.isdigit(), c.isupper(), c.lower(), c.upper()))
    return out


def sweep_expanding():
    """code points of the whole range whose lower() / upper() is not one character
    (surrogates excluded: they cannot occur in a decoded password)"""
    lo, up = [], []
    for cp in range(0x110000):
        if 0xD800 <= cp <= 0xDFFF:
            continue
        c = chr(cp)
        if len(c.lower()) != 1:
            lo.append(cp)
        if len(c.upper()) != 1:
            up.append(cp)
    return lo, up


def sweep_alpha_case_mismatch():
    """code points c with len(lower)=1 whose lower() disagrees with c on isalpha / isdigit"""
    bad = []
    for cp in range(0x110000):
        if 0xD800 <= cp <= 0xDFFF:
            continue
        c = chr(cp)
        l = c.lower()
        if len(l) == 1 and (l.isalpha() != c.isalpha() or l.isdigit() != c.isdigit()):
            bad.append(cp)
    return bad


# ---------------------------------------------------------------- fragments

WALKS = ["1qaz", "2wsx", "qwer", "asdf", "zxcv", "1q2w3e", "!QAZ", "zaq1", "xsw2", "qazwsx", "1234qwer",
         "4rfv", "qwerty", "7ujm", "q1w2", "wsx2", "йцук", "1йфя", "фыва",
         "123;", "й123", "tyui", "ert5", "erty", "were", "poiu0", "098poi", "1qa", "qaz1qaz", ";lkj", "<>?:", "p0o9", "-=[]",
         "3edc", "edcv", "ty67", "e3w2", "y6t5", "1231q", "q123", "a123", "2123"]
YEARS = ["2019", "1999", "2000", "1984", "2024", "19", "20", "192", "201", "20199", "12019", "2100", "19²٣", "1900", "2099", "1812", "1899", "2119", "3019", "0019", "1066", "18", "21"]
CONTEXT = [";p", ":p", "*0*", "#1", "No.1", "no.1", "No.", "i<3", "I<3", "<3", "Mr.", "mr.", "MR.", "MS.", "Ms.", "ms.",
           "Mz.", "mz.", "MZ.", "St.", "st.", "Dr.", "dr.", "#12", "#1a2", "#123", "#", "<", "no.", "NO.1", "*0"]
# hosts / words with letters that casefold() but not lower() changes
FOLD = ["\u00b5torrent", "\u017fite", "\u03c2x", "\u03d1eta", "\u03d5i", "\u03f0a", "\u03f1o", "\u1e9bt", "\u1fbeo",
        "\uab70\uab71\uab72\uab73", "a\uabbfb", "\u00b5", "\u017f", "\u03c2", "\uab70", "\u0345x"]
WEB = ["www.", ".com", ".org", ".ru", ".uk", ".net", ".nl", ".se", ".nl.se", ".de", ".it", ".ch", ".mil", ".no", ".es", ".us", ".ca",
       "http://", "http://www.", "https://", "/", "/index", ".", "..", "@", "@@", ":", " ", "google", "mail", "gmail.com", "bob@",
       ".COM", "Www.", "HTTP://", ".co.uk", ".com.", ".comm", ".com/", ".com1", "a.b", ".edu", ".gov", ".jp", ".fr", ".au"]
WORDS = ["password", "pass", "word", "love", "dragon", "monkey", "letmein", "iloveyou", "cat", "dog", "super", "man",
         "superman", "batman", "foot", "ball", "football", "sun", "shine", "sunshine", "prin", "cess", "blue", "fish",
         "пароль", "любовь", "straße", "café", "中文中文"]
DIGITS = ["1", "12", "123", "1234", "0", "007", "42", "2", "3", "69", "123456", "²", "٣", "١٢", "①"]
SYMBOLS = ["!", "@", "#", "$", "%", "^", "&", "*", "(", ")", "-", "_", "+", "=", ".", ",", ";", ":", "?", "/", "\\", "<", ">",
           "'", "\"", " ", "  ", "!!", "!@#", "€", "♥", "\U0001f600", " ", "№", "̇", "½", "Ⅷ"]
ODD = ["\u0130", "\u00df", "\u1e9e", "\u01c5", "\u01c4", "\u01c6", "\u212a", "\u03f4", "\u017f", "\u0149", "\ufb01",
       "\u00b5", "\u0416", "\u0436", "\u00e9", "\u00c9", "\u0131", "\u1c90", "\u0345", "\u212b", "\u2126", "\u03c3",
       "\u03c2", "\u4e2d", "\u3042"]

# inputs kept from earlier findings and from the sources' own comments; parsed on every run
FIXED = ["\u0130.ru2\u0130", "\u0130.com", "\u0130@a.com1", "a\u0130b", "\u0130", "12019\u0130.CH", "ab\u0130@x.org99",
         "\u0130\u0130.com/x", "www.COMmunity.COM", "mr.chicken", "test1qaztest", "bob@hotmail.com123", "passwordwww.rockyou.com123",
         "20pass2019", "020190", "#1234pass#1", "er5tgb", "deer43", "112233", "123;", "PaSSword", "1qaz2019#1pass!",
         "http://www.google.com/a b", "a.nl.se", "x.nl", "No.1No.", "i<3U", "*0*#1<3", "19\u00b2\u0663", "q1w2e3r4", "1q2w3e4r5t"]

FIXED += ["\u00b5torrent.com", "\u017fite.org1", "www.\u03c2x.ru", "\uab70\uab71\uab72\uab73", "bob@\u00b5ail.com",
          "X\uab70\uab71.net", "http://www.\u03d1eta.de/\u017f", "pass\u1e9bword", "\u03d5i@\u03f1o.fr", "\u0345x.it"]

FAMILIES = [("fold", FOLD), ("walk", WALKS), ("year", YEARS), ("context", CONTEXT), ("web", WEB), ("word", WORDS), ("digit", DIGITS),
            ("symbol", SYMBOLS), ("odd", ODD)]


def _case(rng, s):
    k = rng.random()
    if k < 0.6:
        return s
    if k < 0.75:
        return s.capitalize() if check_charwise_lower(s.capitalize()) else s
    if k < 0.85:
        return s.upper() if "\u03a3" not in s.upper() else s
    return "".join(c.upper() if rng.random() < 0.4 else c for c in s).replace("\u03a3", "\u03c3")


def gen_string(rng, allowed=None):
    """one password: 1-6 fragments, sometimes overlapping by dropping the
    boundary characters, sometimes with a random pool character spliced in"""
    P = allowed or pool()
    n = rng.choice([1, 2, 2, 3, 3, 3, 4, 4, 5, 6])
    parts = []
    fams = []
    for _ in range(n):
        fam, frs = rng.choice(FAMILIES)
        f = rng.choice(frs)
        if fam == "fold" and rng.random() < 0.7:     # mostly as the host of a URL / e-mail
            f = rng.choice(["", "www.", "http://", "bob@", "x"]) + f + rng.choice(WEB[1:17])
        if fam in ("word", "web", "context", "walk") and rng.random() < 0.5:
            f = _case(rng, f)
        if rng.random() < 0.12 and len(f) > 1:       # truncated trigger
            f = f[:-1] if rng.random() < 0.5 else f[1:]
        if rng.random() < 0.08:                      # a stray character inside
            k = rng.randrange(len(f) + 1)
            f = f[:k] + rng.choice(P) + f[k:]
        parts.append(f)
        fams.append(fam)
    s = "".join(parts)
    if rng.random() < 0.1:                           # purely random string over the pool
        s = "".join(rng.choice(P) for _ in range(rng.randrange(1, 12)))
        fams = ["random"]
    s = "".join(c for c in s if c not in EXCLUDED and ord(c) >= 0x20)
    if not s:
        s = rng.choice(P)
    return s[:40], fams


def gen_history(rng):
    """a prior training history of the multi-word detector: passwords (and
    optionally a pre-training word list) that make some vocabulary words
    frequent, some exactly at / just below the threshold"""
    hist = []
    voc = rng.sample(WORDS, rng.randrange(0, 9))
    for w in voc:
        times = rng.choice([1, 3, 4, 5, 5, 6, 8])
        for _ in range(times):
            k = rng.random()
            if k < 0.5:
                hist.append(w)
            elif k < 0.7:
                hist.append(w + rng.choice(DIGITS))
            elif k < 0.85:
                hist.append(rng.choice(SYMBOLS) + _case(rng, w) + rng.choice(DIGITS))
            else:
                hist.append(w + rng.choice(SYMBOLS) + rng.choice(WORDS))
    for _ in range(rng.randrange(0, 4)):
        hist.append(gen_string(rng)[0])
    rng.shuffle(hist)
    pre = []
    if rng.random() < 0.3:
        pre = rng.sample(WORDS, rng.randrange(1, 4))
    return pre, hist


# ---------------------------------------------------------------- long passwords

# nothing in the input filter bounds the length of a password: junk lines of real lists are hundreds of
# characters of one repeated pattern
LONG_FIXED = ["1qaz" * 101, "1qaz" * 102, "1qaz" * 150 + "x", "1qaz" * 100 + "password1", "1qaz!" * 130 + "end",
              "qwer1qazzxcv" * 70, "1qaz2wsx" * 128, "7" * 400, "a" * 700, "!" * 500, "password" * 100, "pass1" * 150]


def gen_long(rng):
    """one long password (about 400 to 1500 characters): keyboard walks repeated more often than any
    fixed number of levels, long runs of one character class, one trigger repeated hundreds of times"""
    k = rng.random()
    if k < 0.45:
        n = rng.randint(101, 260)
        ws = rng.choice([["1qaz"], ["qwer", "1qaz", "zxcv"], ["1qaz", "2wsx"], rng.sample(WALKS, 3), WALKS])
        sep = rng.choice(["", "", "", "!", " ", "x", "7"])
        s = sep.join(rng.choice(ws) for _ in range(n)) + rng.choice(["", "x", "end", "1", "!"])
        fam = "long-walks"
    elif k < 0.75:
        n = rng.randint(400, 1000)
        alphabet = rng.choice(["0123456789", "7", "abcdefgh", "a", "aB", "!", "!@#$ ", "жЖ", "²٣" + "12"])
        s = "".join(rng.choice(alphabet) for _ in range(n))
        if rng.random() < 0.3:
            s = rng.choice(["x", "1", "!", "1qaz"]) + s + rng.choice(["x", "1", "!", "2019"])
        fam = "long-run"
    else:
        trig = rng.choice(YEARS[:5] + CONTEXT[:8] + ["a@b.com", "www.a.com", "pass1", "password", "ab12!", "x2019", "love#1"])
        sep = rng.choice(["", "", "!", "a", "1", " "])
        s = (trig + sep) * rng.randint(100, 300)
        fam = "long-repeat"
    s = "".join(c for c in s if c not in EXCLUDED and ord(c) >= 0x20)
    return s, [fam]
