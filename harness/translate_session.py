#!/venv/bin/python
"""Fail-closed translator of the session loops from Python to Gallina.

    /venv/bin/python harness/translate_session.py [prince|honey|session]   print the generated text
    /venv/bin/python harness/translate_session.py --write                  write coq/gen/Session*_gen.v

Sources and outputs (one generated file per source file, so that a function that no
longer translates breaks only the properties that depend on it):

  prince   lib_princeling/wordlist_generation.py   create_prince_wordlist
           -> coq/gen/SessionPrince_gen.v   (model: Session.prince, property C17)
  honey    lib_guesser/honeyword_session.py        HoneywordSession.run
           -> coq/gen/SessionHoney_gen.v    (model: Honey.honey_loop, property C16)
  session  lib_guesser/cracking_session.py         CrackingSession._save_session,
           CrackingSession.run, keypress
           -> coq/gen/Session_gen.v         (model: Session.run_session / limited,
              Omen.sess_restore / sess_quit / loop_saves; properties C09 C12 C15)

The source is only parsed (`ast`), never imported or executed.  The output targets the
runtime coq/theories/SessionRt.v; coq/theories/SessionGenProofs*.v prove each generated
definition equal to the hand-written model the property theorems are about.  A change of
one of these functions changes the generated text and the equality proofs are re-checked
against it on every run.  Comments, docstrings, blank lines and formatting do not reach
the output (except the source line numbers in the comments of the generated text); local
variable names are carried over and the proofs do not depend on them.

What a generated function is.  These functions compute almost nothing themselves: they
drive collaborators (the grammar object, the priority queue, the save configuration, the
keyboard thread, the random generator).  Every use of a collaborator is an OPERATION ON
ONE ABSTRACT WORLD `w`, threaded through the function in execution order; the operations
are the section variables of the generated file (table OPS below) and are never inspected
by the translator.  `def f(self, a)` becomes
    py_f [fuel] a w : sres T * list G * W
= (Python return value or the exception that leaves the function, the lines the
collaborators wrote to stdout in order, the final world).  A function containing a `while`
loop takes a fuel argument (no Python counterpart; OutOfFuel when it runs out).

Accepted subset (anything else raises TranslateError with file:line):

  types       int (Z); None-or-int (option Z: a parameter with default None / 0, a local
              assigned None); bool; str (keypress: the line read); item (what the queue /
              random_walk return; only item['pt'] is read); None-or-item; the objects
              below, which are compile-time handles only.  Parameter types are given by
              SPECS (checked against the `def` line: names, order, defaults).
  objects     self.pcfg / pcfg (grammar), self.pqueue / a local bound by PcfgQueue(...)
              (queue), self.save_config, self.report / report (status report: ghost),
              a local bound by threading.Thread(target=keypress, args=(report, pcfg)[, daemon=b]),
              `error` of `except IOError as error` (ghost), self.mode (a str constant
              read from __init__), self.save_filename (inside the open(...) pattern and
              in stderr prints only), self.random_seed (an int attribute: get/set).
  operations  see OPS: create_guesses(item['pt'], is_honeyword=.., limit=..), random_walk(),
              restore_omen(n, <ghost>), .should_exit (read by the main loop: a step of the
              world; `pcfg.should_exit = True` in keypress), .omen_exit, .omen_guess_num,
              PcfgQueue(pcfg) / PcfgQueue(pcfg, save_config), queue.next(),
              queue.update_save_config(save_config), save_config.has_option / getint /
              remove_option / set on ('guessing_info', 'omen_guess_number') (str(n) on the
              stored int is the identity: configparser's getint(str(n)) = n is trusted),
              `with open(self.save_filename, 'w') as f: self.save_config.write(f)` as ONE
              operation write_save_file, thread.start(), thread.is_alive(),
              random.seed(e), input(), threading.main_thread().is_alive(); in keypress
              only: print(..., file=sys.stderr), report.print_status(pcfg),
              report.print_help() as operations that may raise (a broken stderr ends the
              thread).
  statements  x = e;  x += e / x -= e / x = x - e on ints;  if / elif / else (`if v:` on a
              None-or-int v is ExpandRt.if_truthy; `if v is None` / `is not None` is
              SessionRt.if_none and v is a value in the other branch; when both sides can
              fall through, what follows is a local continuation k'N that receives the
              world, the printed lines and the variables assigned inside);  while TEST /
              while True with break, continue, return (no else);  try: ... except
              OSError / IOError / Exception / bare: ... (one handler, no else / finally;
              the handler is placed at every operation of the body that may raise and
              sees the variables as they are there);  return / return True / False;
              self._save_session();  pass;  a docstring;
              a call, as a statement and without arguments, of a private helper of the
              module / the class that is not itself translated (`_print_exit_notice()`): its
              body is inlined in place (no parameters, no return of a value, no early
              return; it sees none of the caller's locals);
              [x =] helper(args) for a private helper WITH parameters and / or return values:
              its body is inlined; what follows the call is a local continuation k'N (world,
              printed lines[, returned value]) defined before the parameters are bound, every
              `return e` of the helper calls it (`return` / `return None` yield None; the
              returned types are joined: None and int give None-or-int); positional
              arguments are evaluated first and bound to the parameters (an object argument
              stays a compile-time handle); a *args parameter is accepted when every
              argument it receives is a literal, and may then only be iterated;
              x = self.save_config (another name of one of the objects: a handle);
              try: ... except H: ... else: ... (the else block runs after the body, outside
              the handler's reach; nothing may follow the statement);
              for x in (<literal tuple / list of constants>) / for x in <*args of literals>:
              BODY  is unrolled (BODY once per
              element, no break / continue; x itself is dropped: it may only be used in
              statements that are not modelled and in the stderr prints of keypress);
              x = str(<int>) (a local on its way into the save configuration, carried as the
              int);  x = <expression the translator has no type for and that acts on nothing>
              (item['prob'] * n, ...): x is dropped, a later use outside a skipped statement
              is refused.
              Skipped with a note in the generated text, because the models have no
              counterpart (status bookkeeping and stderr): print(..., file=sys.stderr)
              outside keypress (a print WITHOUT file=sys.stderr is refused: it would
              write into the guess stream), every statement on the status report
              (self.report.x = / += ..., self.report.load(..), .update_save_config(..)),
              save_config.set('guessing_info', 'mode', self.mode), thread.daemon = True,
              time.sleep(c).  The skipped expressions may not contain calls other than
              save_config.get*(..) / str(..).
  expressions names;  int, bool, str constants;  None as an argument / assigned value;
              item['pt'];  + - on ints;  < <= > >= == != on ints;  == != on strs;
              not e;  `and` / `or` on effect-free bools;  `v is None or TEST` /
              `v is not None and TEST` (TEST sees the value);  the operations above.
              Operations inside an expression are bound to temporaries first, left to
              right, which is Python's order.

What the translation does NOT model (trusted / out of its sight): the collaborators
themselves (create_guesses and the queue are tied to the source by translate_expand.py /
translate_kernel.py; the status report, configparser, threading, random and the file
system are exercised by the correspondence checks only); that the status report's methods
touch nothing but the report and session_info/* of the save configuration; stderr
(outside keypress); exceptions other than the ones the operations are declared to raise
(a KeyError of item['pt'], TypeError: ruled out by the type discipline); asynchronous
exceptions (KeyboardInterrupt); the scheduling of the two threads (the world decides what
a read of should_exit returns); object identity; termination (fuel).  Rebinding of the
translated functions or of PcfgQueue / keypress from another module is out of the
translator's sight.
"""
import ast
import hashlib
import os
import sys

HERE = os.path.dirname(os.path.abspath(__file__))
if HERE not in sys.path:
    sys.path.insert(0, HERE)
import common  # noqa: E402
from translate_kernel import TranslateError, _close, _comment  # noqa: E402
from translate_expand import _paren  # noqa: E402

# ------------------------------------------------------------------ types
INT, OPTINT, BOOL, ITEM, OPTITEM, PT, STR, UNIT, NONE = "int", "optint", "bool", "item", "optitem", "pt", "str", "unit", "none"
STRINT = "strint"      # str(n) of an int n, on its way into the save configuration: carried as the int
COQ_TYPE = {INT: "Z", OPTINT: "option Z", BOOL: "bool", ITEM: "Item", OPTITEM: "option Item", PT: "Pt",
            STR: "pstr", UNIT: "unit", STRINT: "Z"}
# compile-time handles
PCFG, QUEUE, CFG, REPORT, THREAD, EXCV = "<pcfg>", "<queue>", "<save_config>", "<report>", "<thread>", "<exception>"

# ------------------------------------------------------------------ the operations on the world
# kind: act   f args w : W                      (statement)
#       read  f args w : T                      (no change of the world)
#       step  f args w : T * W
#       raise f args w : sres T * W             (may raise)
#       print f args w : sres T * list G * W    (may raise, writes guesses to stdout)
#       pure  f args   : T                      (no world)
OPS = {
    "new_queue": dict(kind="act", args=[], sig="W -> W",
                      doc="PcfgQueue(pcfg): a new queue over the grammar's base structures"),
    "restore_queue": dict(kind="act", args=[], sig="W -> W",
                          doc="PcfgQueue(pcfg, save_config): the queue restored from the saved probability"),
    "queue_next": dict(kind="step", args=[], ret=OPTITEM, sig="W -> option Item * W",
                       doc="pqueue.next(): the next pre-terminal, None when the queue is empty"),
    "queue_update_save_config": dict(kind="act", args=[], sig="W -> W",
                                     doc="pqueue.update_save_config(save_config): the queue's position goes into the configuration"),
    "item_pt": dict(kind="pure", args=[ITEM], ret=PT, sig="Item -> Pt", doc="pt_item['pt']"),
    "create_guesses": dict(kind="print", args=[PT, BOOL, OPTINT], ret=INT,
                           sig="Pt -> bool -> option Z -> W -> sres Z * list G * W",
                           doc="pcfg.create_guesses(pt, is_honeyword, limit): writes guesses, returns their number"),
    "restore_omen": dict(kind="print", args=[INT], ret=INT, sig="Z -> W -> sres Z * list G * W",
                         doc="pcfg.restore_omen(n, <status item>): finishes the interrupted Markov level"),
    "random_walk": dict(kind="step", args=[], ret=ITEM, sig="W -> Item * W", doc="pcfg.random_walk()"),
    "read_should_exit": dict(kind="step", args=[], ret=BOOL, sig="W -> bool * W",
                             doc="pcfg.should_exit read by the main loop (the keyboard thread may have run)"),
    "set_should_exit": dict(kind="act", args=[], sig="W -> W", doc="pcfg.should_exit = True"),
    "get_omen_exit": dict(kind="read", args=[], ret=BOOL, sig="W -> bool", doc="pcfg.omen_exit"),
    "get_omen_guess_num": dict(kind="read", args=[], ret=INT, sig="W -> Z", doc="pcfg.omen_guess_num"),
    "cfg_has_omen_number": dict(kind="read", args=[], ret=BOOL, sig="W -> bool",
                                doc="save_config.has_option('guessing_info', 'omen_guess_number')"),
    "cfg_omen_number": dict(kind="read", args=[], ret=INT, sig="W -> Z",
                            doc="save_config.getint('guessing_info', 'omen_guess_number')"),
    "cfg_remove_omen_number": dict(kind="act", args=[], sig="W -> W",
                                   doc="save_config.remove_option('guessing_info', 'omen_guess_number')"),
    "cfg_set_omen_number": dict(kind="act", args=[INT], sig="Z -> W -> W",
                                doc="save_config.set('guessing_info', 'omen_guess_number', str(n))"),
    "write_save_file": dict(kind="raise", args=[], ret=UNIT, sig="W -> sres unit * W",
                            doc="with open(self.save_filename, 'w') as f: self.save_config.write(f)"),
    "start_keypress_thread": dict(kind="act", args=[], sig="W -> W",
                                  doc="threading.Thread(target=keypress, args=(report, pcfg)).start()"),
    "thread_is_alive": dict(kind="step", args=[], ret=BOOL, sig="W -> bool * W", doc="user_thread.is_alive()"),
    "get_random_seed": dict(kind="read", args=[], ret=INT, sig="W -> Z", doc="self.random_seed"),
    "set_random_seed": dict(kind="act", args=[INT], sig="Z -> W -> W", doc="self.random_seed = n"),
    "seed_random": dict(kind="act", args=[INT], sig="Z -> W -> W", doc="random.seed(n)"),
    "read_input": dict(kind="raise", args=[], ret=STR, sig="W -> sres pstr * W", doc="input()"),
    "main_thread_is_alive": dict(kind="step", args=[], ret=BOOL, sig="W -> bool * W",
                                 doc="threading.main_thread().is_alive()"),
    "stderr_print": dict(kind="raise", args=[], ret=UNIT, sig="W -> sres unit * W",
                         doc="print(..., file=sys.stderr) inside keypress"),
    "print_status": dict(kind="raise", args=[], ret=UNIT, sig="W -> sres unit * W", doc="report.print_status(pcfg)"),
    "print_help": dict(kind="raise", args=[], ret=UNIT, sig="W -> sres unit * W", doc="report.print_help()"),
}
OP_ORDER = list(OPS)

# signature of PcfgGrammar.create_guesses / restore_omen the calls are resolved against (checked
# against lib_guesser/pcfg_grammar.py on every run)
CREATE_GUESSES_PARAMS = [("pt", PT), ("is_honeyword", BOOL), ("limit", OPTINT)]
CREATE_GUESSES_DEFAULTS = {"is_honeyword": False, "limit": None}
RESTORE_OMEN_PARAMS = ["omen_guess_num", "pt_item"]

KERNELS = {
    "prince": dict(
        source="lib_princeling/wordlist_generation.py", out=os.path.join("gen", "SessionPrince_gen.v"),
        section="SessionPrinceGen", model="Session.prince (theories/SessionPrinceGenProofs.v)",
        specs=[dict(cls=None, py="create_prince_wordlist", coq="py_create_prince_wordlist",
                    params=[("pcfg", PCFG), ("max_size", OPTINT)], defaults={}, ret=UNIT)]),
    "honey": dict(
        source="lib_guesser/honeyword_session.py", out=os.path.join("gen", "SessionHoney_gen.v"),
        section="SessionHoneyGen", model="Honey.honey_loop (theories/SessionHoneyGenProofs.v)",
        specs=[dict(cls="HoneywordSession", py="run", coq="py_honeyword_run",
                    params=[("limit", OPTINT)], defaults={"limit": 0}, ret=UNIT)]),
    "session": dict(
        source="lib_guesser/cracking_session.py", out=os.path.join("gen", "Session_gen.v"),
        section="SessionGen", model="Session.run_session / limited, Omen.sess_restore / sess_quit (theories/SessionGenProofs.v)",
        specs=[dict(cls="CrackingSession", py="_save_session", coq="py_save_session", params=[], defaults={}, ret=BOOL),
               dict(cls="CrackingSession", py="run", coq="py_cracking_run",
                    params=[("load_session", BOOL), ("limit", OPTINT)], defaults={"load_session": False, "limit": None},
                    ret=UNIT),
               dict(cls=None, py="keypress", coq="py_keypress", params=[("report", REPORT), ("pcfg", PCFG)],
                    defaults={}, ret=UNIT, keypress=True)]),
}

RESERVED = set("""w printed fuel tt true false fst snd length nth nil cons list nat bool unit option Some None O S Z N fun let
in if then else match with end forall exists Type Prop Set as at return fix cofix struct where Definition Fixpoint
Section End Context app append extend W Item Pt G pstr sexc sres SOk SExc OSError EOFError OtherError OutOfFuel sbind
lctl LContinue LBreak LReturn while_loop if_none is_none_or is_some_and if_truthy limit_take len str_eqb negb andb orb
pair mod""".split()) | set(OPS)


class Env:
    def __init__(self):
        self.types = {}      # name -> type
        self.handles = {}    # name -> handle kind
        self.consts = {}     # name -> list of constant nodes (the *args of an inlined helper called with literals)

    def copy(self):
        e = Env()
        e.types = dict(self.types)
        e.handles = dict(self.handles)
        e.consts = dict(self.consts)
        return e


class K:
    """the context of a block: what falling off its end, `continue`, `break`, `return e` and a propagating exception
    become.  Each takes the environment at that point; exc returns the (possibly multi-line) body of `fun e' => ...`."""

    def __init__(self, fall, cont, brk, ret, exc, none_value=False):
        self.fall, self.cont, self.brk, self.ret, self.exc = fall, cont, brk, ret, exc
        self.none_value = none_value     # `return None` / `return` yields the VALUE None (inside an inlined helper)


class _EndTry(ast.stmt):
    """marker statement: the end of a `try` body whose handler leaves; what follows runs in the context k"""
    _fields = ()

    def __init__(self, k, lineno):
        super().__init__()
        self.k, self.lineno = k, lineno


class _EndInline(ast.stmt):
    """marker statement: the end of the inlined body of a private helper; what follows runs in the caller's
    environment again"""
    _fields = ()

    def __init__(self, env, name, lineno):
        super().__init__()
        self.env, self.name, self.lineno = env, name, lineno


class FunctionTranslator:
    def __init__(self, path, rel, fn, spec, cls, consts, done, helpers=None):
        self.path, self.rel, self.fn, self.spec, self.cls = path, rel, fn, spec, cls
        self.helpers = helpers or {}     # ("", name) / (class, name) -> FunctionDef of the other defs of the module
        self.inlining = []               # helpers being inlined (no recursion)
        self.consts = consts      # self attribute -> str constant (from __init__)
        self.done = done          # py name -> spec of the methods translated before
        self.uid = 0
        self.uses_fuel = False
        self.used_ops = set()
        self.used_consts = set()
        self.keypress = bool(spec.get("keypress"))

    # -------------------------------------------------------------- errors / names
    def fail(self, node, msg):
        raise TranslateError("%s:%d: %s%s: %s  [%s]" % (
            self.path, getattr(node, "lineno", self.fn.lineno), (self.cls + ".") if self.cls else "", self.fn.name, msg,
            _comment(ast.unparse(node)).split("\n")[0][:100]))

    def temp(self, prefix="t"):
        self.uid += 1
        return "%s'%d" % (prefix, self.uid)

    def check_name(self, node, name):
        if name in RESERVED or name.startswith("py_") or not name.isidentifier() or not name.isascii() \
                or "'" in name or name.startswith("_"):
            self.fail(node, "the variable name %r collides with the generated code" % name)

    def check_signature(self):
        fn, spec = self.fn, self.spec
        a = fn.args
        if fn.decorator_list or a.vararg or a.kwarg or a.kwonlyargs or a.posonlyargs or a.kw_defaults:
            self.fail(fn, "unsupported signature")
        names = [x.arg for x in a.args]
        want = (["self"] if self.cls else []) + [n for n, _ in spec["params"]]
        if names != want:
            self.fail(fn, "parameters are %r, the translator knows %r" % (names, want))
        if any(x.annotation is not None for x in a.args) or fn.returns is not None:
            self.fail(fn, "annotations are not supported")
        defaults = {}
        for x, d in zip(a.args[len(a.args) - len(a.defaults):], a.defaults):
            if not (isinstance(d, ast.Constant) and (d.value is None or type(d.value) in (bool, int))):
                self.fail(fn, "unsupported default value")
            defaults[x.arg] = d.value
        want_d = spec.get("defaults", {})
        if set(defaults) != set(want_d) or any(type(defaults[n]) is not type(want_d[n]) or defaults[n] != want_d[n]
                                               for n in defaults):
            self.fail(fn, "defaults are %r, the translator knows %r" % (defaults, want_d))
        for n, ty in spec["params"]:
            if ty in COQ_TYPE:
                self.check_name(fn, n)

    # -------------------------------------------------------------- handles
    SELF_HANDLES = {"pcfg": PCFG, "pqueue": QUEUE, "save_config": CFG, "report": REPORT}

    def handle_of(self, e, env):
        if isinstance(e, ast.Name):
            return env.handles.get(e.id)
        if self.cls and isinstance(e, ast.Attribute) and isinstance(e.value, ast.Name) and e.value.id == "self":
            return self.SELF_HANDLES.get(e.attr)
        return None

    @staticmethod
    def is_self_attr(e, attr=None):
        return (isinstance(e, ast.Attribute) and isinstance(e.value, ast.Name) and e.value.id == "self"
                and (attr is None or e.attr == attr))

    @staticmethod
    def const_int(n):
        return "%d%%Z" % n if n >= 0 else "(%d)%%Z" % n

    @staticmethod
    def const_str(s):
        return "(@nil N)" if not s else "[" + "; ".join("%d%%N" % ord(c) for c in s) + "]"

    @staticmethod
    def is_omen_key(args):
        return (len(args) >= 2 and all(isinstance(a, ast.Constant) for a in args[:2])
                and [a.value for a in args[:2]] == ["guessing_info", "omen_guess_number"])

    # -------------------------------------------------------------- operations
    def use_op(self, node, name, args, pre):
        """emit the use of operation `name` with translated argument texts; returns the text of its value (None for act)"""
        op = OPS[name]
        self.used_ops.add(name)
        a = "".join(" " + _paren(x) for x in args)
        kind = op["kind"]
        if kind == "pure":
            return "%s%s" % (name, a)
        if kind == "act":
            pre.append(("let", "w", "%s%s w" % (name, a)))
            return None
        if kind == "read":
            t = self.temp()
            pre.append(("let", t, "%s%s w" % (name, a)))
            return t
        if kind == "step":
            t = self.temp()
            pre.append(("let", "'(%s, w)" % t, "%s%s w" % (name, a)))
            return t
        if kind == "raise":
            r = self.temp("r")
            t = "t'" + r.split("'")[1]
            pre.append(("let", "'(%s, w)" % r, "%s%s w" % (name, a)))
            pre.append(("bind", r, t))
            return t
        if kind == "print":
            r = self.temp("r")
            n = r.split("'")[1]
            pre.append(("let", "'(%s, out'%s, w)" % (r, n), "%s%s w" % (name, a)))
            pre.append(("let", "printed", "extend printed out'%s" % n))
            pre.append(("bind", r, "t'" + n))
            return "t'" + n
        raise AssertionError(kind)

    def coerce(self, node, text, ty, want):
        if ty == want:
            return text
        if ty == INT and want == OPTINT:
            return "Some %s" % _paren(text)
        if ty == NONE and want == OPTINT:
            return text
        if ty == ITEM and want == OPTITEM:
            return "Some %s" % _paren(text)
        self.fail(node, "a value of type %s is used where %s is expected" % (ty, want))

    def call_args(self, e, params, defaults, env, pre, ghost=()):
        """resolve positional / keyword arguments against a parameter list -> list of texts (ghost parameters dropped)"""
        given = {}
        if len(e.args) > len(params):
            self.fail(e, "too many arguments")
        for (n, _), a in zip(params, e.args):
            if isinstance(a, ast.Starred):
                self.fail(e, "unsupported argument")
            given[n] = a
        for kw in e.keywords:
            if kw.arg is None or kw.arg in given or kw.arg not in dict(params):
                self.fail(e, "unsupported keyword argument")
            given[kw.arg] = kw.value
        out = []
        for n, ty in params:
            if n in ghost:
                if n not in given:
                    self.fail(e, "missing argument %r" % n)
                self.ghost_safe(given[n], env)
                continue
            if n not in given:
                if n in defaults:
                    d = defaults[n]
                    out.append("(@None Z)" if d is None else ("true" if d is True else "false" if d is False
                                                             else self.const_int(d)))
                    continue
                self.fail(e, "missing argument %r" % n)
            a = given[n]
            if isinstance(a, ast.Constant) and a.value is None and ty == OPTINT:
                out.append("(@None Z)")
                continue
            t, ta = self.expr(a, env, pre)
            out.append(self.coerce(a, t, ta, ty))
        return out

    def op_expr(self, e, env, pre):
        """an operation in expression position -> (text, type) or None"""
        # attribute reads
        if isinstance(e, ast.Attribute) and isinstance(e.ctx, ast.Load):
            h = self.handle_of(e.value, env)
            if h == PCFG and e.attr == "should_exit":
                return self.use_op(e, "read_should_exit", [], pre), BOOL
            if h == PCFG and e.attr == "omen_exit":
                return self.use_op(e, "get_omen_exit", [], pre), BOOL
            if h == PCFG and e.attr == "omen_guess_num":
                return self.use_op(e, "get_omen_guess_num", [], pre), INT
            if self.cls == "HoneywordSession" and self.is_self_attr(e, "random_seed"):
                return self.use_op(e, "get_random_seed", [], pre), INT
            if self.is_self_attr(e) and e.attr in self.consts:
                self.used_consts.add(e.attr)
                return "py_self_%s" % e.attr, STR
            return None
        if not isinstance(e, ast.Call):
            return None
        f = e.func
        if isinstance(f, ast.Name) and f.id == "input" and not e.args and not e.keywords:
            return self.use_op(e, "read_input", [], pre), STR
        if isinstance(f, ast.Name) and f.id == "str" and len(e.args) == 1 and not e.keywords:
            # str(n) on an int that is stored into the save configuration: identity (see the docstring)
            t, ty = self.expr(e.args[0], env, pre)
            if ty != INT:
                self.fail(e, "str() of a value of type %s" % ty)
            return t, STRINT
        if not isinstance(f, ast.Attribute):
            return None
        # threading.main_thread().is_alive()
        if f.attr == "is_alive" and isinstance(f.value, ast.Call) and not e.args and not e.keywords \
                and ast.unparse(f.value) == "threading.main_thread()":
            return self.use_op(e, "main_thread_is_alive", [], pre), BOOL
        h = self.handle_of(f.value, env)
        if h == PCFG and f.attr == "create_guesses":
            args = self.call_args(e, CREATE_GUESSES_PARAMS, CREATE_GUESSES_DEFAULTS, env, pre)
            return self.use_op(e, "create_guesses", args, pre), INT
        if h == PCFG and f.attr == "random_walk" and not e.args and not e.keywords:
            return self.use_op(e, "random_walk", [], pre), ITEM
        if h == PCFG and f.attr == "restore_omen":
            args = self.call_args(e, [("omen_guess_num", INT), ("pt_item", None)], {}, env, pre, ghost=("pt_item",))
            return self.use_op(e, "restore_omen", args, pre), INT
        if h == QUEUE and f.attr == "next" and not e.args and not e.keywords:
            return self.use_op(e, "queue_next", [], pre), OPTITEM
        if h == CFG and f.attr == "has_option" and self.is_omen_key(e.args) and len(e.args) == 2 and not e.keywords:
            return self.use_op(e, "cfg_has_omen_number", [], pre), BOOL
        if h == CFG and f.attr == "getint" and self.is_omen_key(e.args) and len(e.args) == 2 and not e.keywords:
            return self.use_op(e, "cfg_omen_number", [], pre), INT
        if h == THREAD and f.attr == "is_alive" and not e.args and not e.keywords:
            return self.use_op(e, "thread_is_alive", [], pre), BOOL
        return None

    # -------------------------------------------------------------- expressions
    def expr(self, e, env, pre):
        """-> (Gallina text, type); operations are appended to pre in evaluation order"""
        got = self.op_expr(e, env, pre)
        if got is not None:
            return got
        if isinstance(e, ast.Name):
            if e.id in env.handles:
                self.fail(e, "the object %r is used as a value" % e.id)
            if e.id not in env.types:
                self.fail(e, "unknown variable %r (not assigned on every path to here?)" % e.id)
            return e.id, env.types[e.id]
        if isinstance(e, ast.Constant):
            if e.value is True:
                return "true", BOOL
            if e.value is False:
                return "false", BOOL
            if e.value is None:
                return "(@None Z)", NONE
            if type(e.value) is int:
                return self.const_int(e.value), INT
            if type(e.value) is str:
                return self.const_str(e.value), STR
            self.fail(e, "unsupported constant")
        if isinstance(e, ast.UnaryOp):
            a, ta = self.expr(e.operand, env, pre)
            if isinstance(e.op, ast.Not) and ta == BOOL:
                return "negb %s" % _paren(a), BOOL
            if isinstance(e.op, ast.USub) and ta == INT:
                return "Z.opp %s" % _paren(a), INT
            self.fail(e, "unsupported unary operator on a value of type %s" % ta)
        if isinstance(e, ast.BoolOp):
            return self.boolop(e, list(e.values), env, pre)
        if isinstance(e, ast.BinOp):
            a, ta = self.expr(e.left, env, pre)
            b, tb = self.expr(e.right, env, pre)
            if (ta, tb) == (INT, INT):
                op = {ast.Add: "Z.add", ast.Sub: "Z.sub"}.get(type(e.op))
                if op:
                    return "%s %s %s" % (op, _paren(a), _paren(b)), INT
            self.fail(e, "unsupported operator between %s and %s" % (ta, tb))
        if isinstance(e, ast.Compare):
            if len(e.ops) != 1 or len(e.comparators) != 1:
                self.fail(e, "chained comparison")
            a, ta = self.expr(e.left, env, pre)
            b, tb = self.expr(e.comparators[0], env, pre)
            a, b = _paren(a), _paren(b)
            op = type(e.ops[0])
            if (ta, tb) == (INT, INT):
                table = {ast.Lt: "Z.ltb %s %s" % (a, b), ast.LtE: "Z.leb %s %s" % (a, b),
                         ast.Gt: "Z.ltb %s %s" % (b, a), ast.GtE: "Z.leb %s %s" % (b, a),
                         ast.Eq: "Z.eqb %s %s" % (a, b), ast.NotEq: "negb (Z.eqb %s %s)" % (a, b)}
            elif (ta, tb) == (STR, STR):
                table = {ast.Eq: "str_eqb %s %s" % (a, b), ast.NotEq: "negb (str_eqb %s %s)" % (a, b)}
            else:
                self.fail(e, "comparison of %s with %s" % (ta, tb))
            if op not in table:
                self.fail(e, "unsupported comparison operator")
            return table[op], BOOL
        if isinstance(e, ast.Subscript) and isinstance(e.ctx, ast.Load):
            v, tv = self.expr(e.value, env, pre)
            if tv == ITEM and isinstance(e.slice, ast.Constant) and e.slice.value == "pt":
                return self.use_op(e, "item_pt", [v], pre), PT
            self.fail(e, "unsupported subscript (only item['pt'] is modelled)")
        self.fail(e, "unsupported expression (%s)" % type(e).__name__)

    def none_test(self, e, env):
        """`x is None` / `x is not None` on a None-or-value variable -> (name, is_not) or None"""
        if isinstance(e, ast.Compare) and len(e.ops) == 1 and isinstance(e.ops[0], (ast.Is, ast.IsNot)) \
                and isinstance(e.left, ast.Name) and isinstance(e.comparators[0], ast.Constant) \
                and e.comparators[0].value is None:
            ty = env.types.get(e.left.id)
            if ty in (OPTINT, OPTITEM):
                return e.left.id, isinstance(e.ops[0], ast.IsNot)
            self.fail(e, "`is None` on a value of type %s" % ty)
        return None

    def boolop(self, e, values, env, pre):
        is_and = isinstance(e.op, ast.And)
        nt = self.none_test(values[0], env)
        if nt is not None and len(values) > 1 and nt[1] == is_and:
            # x is None or REST  /  x is not None and REST: REST sees the value
            x = nt[0]
            inner = env.copy()
            inner.types[x] = INT if env.types[x] == OPTINT else ITEM
            rest_pre = []
            if len(values) == 2:
                t, ty = self.expr(values[1], inner, rest_pre)
            else:
                t, ty = self.boolop(e, values[1:], inner, rest_pre)
            if ty != BOOL or rest_pre:
                self.fail(e, "`and` / `or` are supported between effect-free bools")
            return "%s %s (fun %s => %s)" % ("is_some_and" if is_and else "is_none_or", x, x, t), BOOL
        parts = []
        for x in values:
            inner = []
            if self.none_test(x, env) is not None:
                self.fail(e, "`is None` is supported as the first operand of `or` / `is not None` as the first of `and`")
            t, ty = self.expr(x, env, inner)
            if ty != BOOL or inner:
                self.fail(e, "`and` / `or` are supported between effect-free bools")
            parts.append(_paren(t))
        op = "andb" if is_and else "orb"
        text = parts[-1]
        for p in reversed(parts[:-1]):
            text = "%s %s %s" % (op, p, _paren(text))
        return text, BOOL

    # -------------------------------------------------------------- ghost (not modelled) statements
    def ghost_safe(self, e, env):
        """an expression that is dropped: it may not contain anything that acts on the world"""
        for n in ast.walk(e):
            if isinstance(n, ast.Call):
                f = n.func
                ok = (isinstance(f, ast.Name) and f.id == "str") or \
                     (isinstance(f, ast.Attribute) and self.handle_of(f.value, env) == CFG
                      and f.attr in ("get", "getint", "getfloat", "getboolean"))
                if not ok:
                    self.fail(n, "a call inside a statement that is not modelled")
            if isinstance(n, (ast.NamedExpr, ast.Lambda, ast.Await, ast.Yield, ast.YieldFrom, ast.ListComp, ast.SetComp,
                              ast.DictComp, ast.GeneratorExp)):
                self.fail(n, "unsupported construct inside a statement that is not modelled")
            if isinstance(n, ast.Attribute) and n.attr == "should_exit":
                self.fail(n, "the quit flag is read inside a statement that is not modelled")

    def is_ghost_value(self, e, env):
        """an expression the translator has no type for and that acts on nothing (no call, no read of the quit flag):
        its value can only matter to statements that are skipped"""
        try:
            self.ghost_safe(e, env)
        except TranslateError:
            return False
        uid, used = self.uid, set(self.used_ops)
        try:
            self.expr(e, env.copy(), [])
            return False
        except TranslateError:
            return True
        finally:
            self.uid, self.used_ops = uid, used

    def is_stderr_print(self, s):
        """print(..., file=sys.stderr) -> True; any other print -> refused; else False"""
        if not (isinstance(s, ast.Expr) and isinstance(s.value, ast.Call) and isinstance(s.value.func, ast.Name)
                and s.value.func.id == "print"):
            return False
        kws = {kw.arg: kw.value for kw in s.value.keywords}
        fv = kws.get("file")
        if set(kws) == {"file"} and isinstance(fv, ast.Attribute) and fv.attr == "stderr" \
                and isinstance(fv.value, ast.Name) and fv.value.id == "sys":
            return True
        self.fail(s, "print is accepted only as print(..., file=sys.stderr): anything else writes into the guess stream")

    def ghost(self, s, env):
        """is s a statement the models have no counterpart for (status report, stderr, thread flags)?"""
        if self.is_stderr_print(s):
            if self.keypress:
                return False
            for a in s.value.args:
                self.ghost_safe(a, env)
            return True
        if isinstance(s, (ast.Assign, ast.AugAssign)):
            targets = s.targets if isinstance(s, ast.Assign) else [s.target]
            if len(targets) == 1 and isinstance(targets[0], ast.Attribute):
                h = self.handle_of(targets[0].value, env)
                if h == REPORT:
                    self.ghost_safe(s.value, env)
                    return True
                if h == THREAD and targets[0].attr == "daemon" and isinstance(s.value, ast.Constant):
                    return True
        if isinstance(s, ast.Expr) and isinstance(s.value, ast.Call) and isinstance(s.value.func, ast.Attribute):
            c, f = s.value, s.value.func
            h = self.handle_of(f.value, env)
            if h == REPORT and not self.keypress:
                for a in list(c.args) + [kw.value for kw in c.keywords]:
                    if self.handle_of(a, env) is None:
                        self.ghost_safe(a, env)
                return True
            if h == CFG and f.attr == "set" and len(c.args) == 3 and not c.keywords \
                    and [a.value if isinstance(a, ast.Constant) else None for a in c.args[:2]] == ["guessing_info", "mode"] \
                    and self.is_self_attr(c.args[2], "mode"):
                return True
            if ast.unparse(f) == "time.sleep" and len(c.args) == 1 and isinstance(c.args[0], ast.Constant) and not c.keywords:
                return True
        return False

    # -------------------------------------------------------------- text helpers
    def note(self, s):
        text = getattr(s, "note", None) or getattr(getattr(s, "value", None), "note", None) or ast.unparse(s).split("\n")[0]
        return "(* %d: %s *)" % (s.lineno, _comment(text))

    def line(self, ind, text, s=None):
        pad = "  " * ind
        if s is None:
            return pad + text + "\n"
        first = pad + text
        return first + " " * max(2, 66 - len(first)) + self.note(s) + "\n"

    def opens(self, pre, env, k, ind, s=None):
        """the lines binding the operations of one statement; returns (text, number of parentheses to close)"""
        out, closes = "", 0
        for n, p in enumerate(pre):
            note = s if n == 0 else None
            if p[0] == "let":
                out += self.line(ind, "let %s := %s in" % (p[1], p[2]), note)
            else:
                _, r, t = p
                h = k.exc(env, ind + 2)
                out += self.line(ind, "sbind %s (fun e' =>" % r, note)
                out += _close(h, ")") + self.line(ind, "(fun %s =>" % t)
                closes += 1
        return out, closes

    def wrap(self, closes, text):
        return _close(text, ")" * closes) if closes else text

    def state_tuple(self, names):
        return "(" + ", ".join(["w", "printed"] + list(names)) + ")"

    def state_now(self, node, names, entry, env):
        vals = ["w", "printed"]
        for n in names:
            if n not in env.types:
                self.fail(node, "the variable %r is not bound here" % n)
            vals.append(self.coerce(node, n, env.types[n], entry[n]))
        return "(" + ", ".join(vals) + ")"

    # -------------------------------------------------------------- statements
    @staticmethod
    def terminates(stmts):
        if not stmts:
            return False
        s = stmts[-1]
        if isinstance(s, (ast.Return, ast.Continue, ast.Break)):
            return True
        if isinstance(s, ast.If):
            return FunctionTranslator.terminates(s.body) and FunctionTranslator.terminates(s.orelse)
        return False

    def assigned(self, stmts):
        """local names (re)bound somewhere in stmts, in source order of first occurrence"""
        out = []

        def visit(n):
            if isinstance(n, ast.Assign):
                for t in n.targets:
                    if isinstance(t, ast.Name) and t.id not in out:
                        out.append(t.id)
            elif isinstance(n, (ast.AugAssign, ast.AnnAssign)):
                if isinstance(n.target, ast.Name) and n.target.id not in out:
                    out.append(n.target.id)
            elif isinstance(n, ast.For):
                pass          # unrolled (literal tuple only: checked where it is translated); its variable is dropped
            elif isinstance(n, (ast.AsyncFor, ast.NamedExpr, ast.Delete, ast.Global, ast.Nonlocal, ast.Import,
                                ast.ImportFrom, ast.FunctionDef, ast.AsyncFunctionDef, ast.ClassDef, ast.Lambda,
                                ast.ListComp, ast.SetComp, ast.DictComp, ast.GeneratorExp, ast.Yield, ast.YieldFrom,
                                ast.Await, ast.Raise, ast.Assert, ast.IfExp, ast.AsyncWith, ast.Starred)):
                self.fail(n, "unsupported construct")
            elif isinstance(n, ast.ExceptHandler) and n.name and n.name not in out:
                pass        # a handle, not a value
            for c in ast.iter_child_nodes(n):
                visit(c)

        for s in stmts:
            visit(s)
        return out

    def block(self, stmts, env, k, ind):
        if not stmts:
            return self.line(ind, k.fall(None, env))
        s, rest = stmts[0], list(stmts[1:])
        if isinstance(s, _EndTry):
            return self.line(ind, "(* %d: end of the try block *)" % s.lineno) + self.block(rest, env, s.k, ind)
        if isinstance(s, _EndInline):
            self.inlining.remove(s.name)
            return self.line(ind, "(* end of the inlined body of %s *)" % s.name) + self.block(rest, s.env, k, ind)
        if isinstance(s, ast.For):
            return self.block(self.unrolled(s, env) + rest, env, k, ind)
        if isinstance(s, ast.Expr) and isinstance(s.value, ast.Constant) and type(s.value.value) is str:
            return self.block(rest, env, k, ind)          # docstring
        if isinstance(s, ast.Pass):
            return self.block(rest, env, k, ind)
        if self.ghost(s, env):
            return self.line(ind, "(* %d: not modelled, skipped: %s *)" % (
                s.lineno, _comment(ast.unparse(s).split("\n")[0]))) + self.block(rest, env, k, ind)
        if isinstance(s, ast.Return):
            if rest:
                self.fail(rest[0], "statement after return")
            return self.return_(s, env, k, ind)
        if isinstance(s, ast.Continue):
            if rest:
                self.fail(rest[0], "statement after continue")
            return self.line(ind, k.cont(s, env), s)
        if isinstance(s, ast.Break):
            if rest:
                self.fail(rest[0], "statement after break")
            return self.line(ind, k.brk(s, env), s)
        if isinstance(s, ast.Assign):
            return self.assign(s, rest, env, k, ind)
        if isinstance(s, ast.AugAssign):
            return self.augassign(s, rest, env, k, ind)
        if isinstance(s, ast.Expr):
            return self.effect(s, rest, env, k, ind)
        if isinstance(s, ast.If):
            return self.if_(s, rest, env, k, ind)
        if isinstance(s, ast.While):
            return self.while_(s, rest, env, k, ind)
        if isinstance(s, ast.Try):
            return self.try_(s, rest, env, k, ind)
        self.fail(s, "unsupported statement (%s)" % type(s).__name__)

    def return_(self, s, env, k, ind):
        if s.value is None or (isinstance(s.value, ast.Constant) and s.value.value is None):
            if k.none_value:
                return self.line(ind, k.ret(s, "(@None Z)", NONE, env), s)
            return self.line(ind, k.ret(s, "tt", UNIT, env), s)
        pre = []
        t, ty = self.expr(s.value, env, pre)
        text, closes = self.opens(pre, env, k, ind, s)
        return self.wrap(closes, text + self.line(ind, k.ret(s, t, ty, env), None if pre else s))

    def bind(self, node, name, ty, env):
        self.check_name(node, name)
        if name in env.handles:
            self.fail(node, "the object %r is rebound" % name)
        old = env.types.get(name)
        ok = old is None or old == ty or {old, ty} <= {OPTINT, INT, NONE} or {old, ty} <= {OPTITEM, ITEM}
        if not ok:
            self.fail(node, "%r changes its type from %s to %s" % (name, old, ty))
        env.types[name] = ty

    def assign(self, s, rest, env, k, ind):
        if len(s.targets) != 1:
            self.fail(s, "multiple assignment targets")
        t = s.targets[0]
        v = s.value
        pre = []
        # ---- the queue object: PcfgQueue(pcfg) / PcfgQueue(pcfg, save_config)
        if isinstance(v, ast.Call) and isinstance(v.func, ast.Name) and v.func.id == "PcfgQueue":
            hs = [self.handle_of(a, env) for a in v.args]
            if v.keywords or hs not in ([PCFG], [PCFG, CFG]):
                self.fail(s, "PcfgQueue must be built as PcfgQueue(pcfg) or PcfgQueue(pcfg, save_config)")
            if isinstance(t, ast.Name):
                self.check_name(s, t.id)
                if t.id in env.types or t.id in env.handles:
                    self.fail(s, "%r is rebound" % t.id)
                env.handles[t.id] = QUEUE
            elif not (self.cls and self.is_self_attr(t, "pqueue")):
                self.fail(s, "the queue must be bound to a local name or to self.pqueue")
            self.use_op(s, "new_queue" if len(hs) == 1 else "restore_queue", [], pre)
            text, closes = self.opens(pre, env, k, ind, s)
            return self.wrap(closes, text + self.block(rest, env, k, ind))
        # ---- the keyboard thread object
        if isinstance(v, ast.Call) and ast.unparse(v.func) == "threading.Thread":
            kws = {kw.arg: kw.value for kw in v.keywords}
            ok = (not v.args and set(kws) - {"daemon"} == {"target", "args"} and isinstance(kws["target"], ast.Name)
                  and kws["target"].id == "keypress" and isinstance(kws["args"], ast.Tuple)
                  and [self.handle_of(a, env) for a in kws["args"].elts] == [REPORT, PCFG] and isinstance(t, ast.Name)
                  and ("daemon" not in kws or (isinstance(kws["daemon"], ast.Constant) and type(kws["daemon"].value) is bool)))
            if not ok:
                self.fail(s, "the thread must be built as x = threading.Thread(target=keypress, args=(report, pcfg)[, daemon=<bool>])")
            self.check_name(s, t.id)
            if t.id in env.types or t.id in env.handles:
                self.fail(s, "%r is rebound" % t.id)
            env.handles[t.id] = THREAD
            return self.line(ind, "(* %d: the thread object (started below): %s *)" % (s.lineno, _comment(ast.unparse(s)))) \
                + self.block(rest, env, k, ind)
        # ---- pcfg.should_exit = True (keypress)
        if isinstance(t, ast.Attribute) and self.handle_of(t.value, env) == PCFG and t.attr == "should_exit":
            if not (isinstance(v, ast.Constant) and v.value is True):
                self.fail(s, "only `should_exit = True` is modelled")
            self.use_op(s, "set_should_exit", [], pre)
            text, closes = self.opens(pre, env, k, ind, s)
            return self.wrap(closes, text + self.block(rest, env, k, ind))
        # ---- self.random_seed = e
        if self.cls == "HoneywordSession" and self.is_self_attr(t, "random_seed"):
            e, te = self.expr(v, env, pre)
            if te != INT:
                self.fail(s, "random_seed is assigned a value of type %s" % te)
            self.use_op(s, "set_random_seed", [e], pre)
            text, closes = self.opens(pre, env, k, ind, s)
            return self.wrap(closes, text + self.block(rest, env, k, ind))
        if not isinstance(t, ast.Name):
            self.fail(s, "unsupported assignment target")
        x = t.id
        # ---- a local alias of one of the objects (save_config = self.save_config)
        hv = self.handle_of(v, env)
        if hv in (PCFG, QUEUE, CFG, REPORT):
            self.check_name(s, x)
            if x in env.types or (x in env.handles and env.handles[x] != hv):
                self.fail(s, "%r is rebound" % x)
            env.handles[x] = hv
            return self.line(ind, "(* %d: another name of the same object: %s *)" % (s.lineno, _comment(ast.unparse(s)))) \
                + self.block(rest, env, k, ind)
        # ---- x = helper(args): the body of the private helper inlined, its returns feed x
        if isinstance(v, ast.Call):
            h = self.helper_of(v)
            if h is not None:
                return self.inline_call(s, x, h, v, rest, env, k, ind)
        if self.is_ghost_value(v, env):
            # a value only the status bookkeeping can use (a float product, item['prob'], ...): the local is dropped;
            # a later use of it outside a skipped statement is refused (unknown variable)
            env.types.pop(x, None)
            if x in env.handles:
                self.fail(s, "the object %r is rebound" % x)
            return self.line(ind, "(* %d: not modelled, skipped (a value only status statements use): %s *)" % (
                s.lineno, _comment(ast.unparse(s).split("\n")[0]))) + self.block(rest, env, k, ind)
        text, ty = self.expr(v, env, pre)
        if ty not in (INT, OPTINT, BOOL, ITEM, OPTITEM, STR, NONE, PT, STRINT):
            self.fail(s, "unsupported value of type %s" % ty)
        self.bind(s, x, ty, env)
        out, closes = self.opens(pre, env, k, ind, s)
        out += self.line(ind, "let %s := %s in" % (x, text), None if pre else s)
        return self.wrap(closes, out + self.block(rest, env, k, ind))

    def augassign(self, s, rest, env, k, ind):
        t = s.target
        op = {ast.Add: "Z.add", ast.Sub: "Z.sub"}.get(type(s.op))
        pre = []
        if self.cls == "HoneywordSession" and self.is_self_attr(t, "random_seed") and op:
            cur = self.use_op(s, "get_random_seed", [], pre)
            v, tv = self.expr(s.value, env, pre)
            if tv != INT:
                self.fail(s, "random_seed is changed by a value of type %s" % tv)
            self.use_op(s, "set_random_seed", ["%s %s %s" % (op, cur, _paren(v))], pre)
            text, closes = self.opens(pre, env, k, ind, s)
            return self.wrap(closes, text + self.block(rest, env, k, ind))
        if not isinstance(t, ast.Name):
            self.fail(s, "unsupported assignment target")
        x = t.id
        if op is None or env.types.get(x) != INT:
            self.fail(s, "only `x += e` / `x -= e` on ints are supported")
        v, tv = self.expr(s.value, env, pre)
        if tv != INT:
            self.fail(s, "`%s=` by a value of type %s" % ("+" if op == "Z.add" else "-", tv))
        out, closes = self.opens(pre, env, k, ind, s)
        out += self.line(ind, "let %s := %s %s %s in" % (x, op, x, _paren(v)), None if pre else s)
        return self.wrap(closes, out + self.block(rest, env, k, ind))

    def effect(self, s, rest, env, k, ind):
        c = s.value
        if not isinstance(c, ast.Call):
            self.fail(s, "unsupported expression statement")
        f = c.func
        pre = []
        done = False
        if self.keypress and self.is_stderr_print(s):
            for a in c.args:
                self.ghost_safe(a, env)
            self.use_op(s, "stderr_print", [], pre)
            done = True
        elif isinstance(f, ast.Attribute):
            h = self.handle_of(f.value, env)
            if self.keypress and h == REPORT and f.attr == "print_status" and not c.keywords \
                    and [self.handle_of(a, env) for a in c.args] == [PCFG]:
                self.use_op(s, "print_status", [], pre)
                done = True
            elif self.keypress and h == REPORT and f.attr == "print_help" and not c.args and not c.keywords:
                self.use_op(s, "print_help", [], pre)
                done = True
            elif h == QUEUE and f.attr == "update_save_config" and not c.keywords \
                    and [self.handle_of(a, env) for a in c.args] == [CFG]:
                self.use_op(s, "queue_update_save_config", [], pre)
                done = True
            elif h == CFG and f.attr == "remove_option" and self.is_omen_key(c.args) and len(c.args) == 2 and not c.keywords:
                self.use_op(s, "cfg_remove_omen_number", [], pre)
                done = True
            elif h == CFG and f.attr == "set" and self.is_omen_key(c.args) and len(c.args) == 3 and not c.keywords:
                v, tv = self.expr(c.args[2], env, pre)
                if tv != STRINT:
                    self.fail(s, "omen_guess_number must be stored as str(<int>)")
                self.use_op(s, "cfg_set_omen_number", [v], pre)
                done = True
            elif h == THREAD and f.attr == "start" and not c.args and not c.keywords:
                self.use_op(s, "start_keypress_thread", [], pre)
                done = True
            elif ast.unparse(f) == "random.seed" and len(c.args) == 1 and not c.keywords:
                v, tv = self.expr(c.args[0], env, pre)
                if tv != INT:
                    self.fail(s, "random.seed of a value of type %s" % tv)
                self.use_op(s, "seed_random", [v], pre)
                done = True
            elif self.cls and self.is_self_attr(f) and f.attr in self.done:
                spec = self.done[f.attr]
                if c.args or c.keywords or spec["params"]:
                    self.fail(s, "only calls of translated methods without arguments are supported")
                r = self.temp("r")
                n = r.split("'")[1]
                pre.append(("let", "'(%s, out'%s, w)" % (r, n), "%s w" % spec["coq"]))
                pre.append(("let", "printed", "extend printed out'%s" % n))
                pre.append(("bind", r, "_"))
                done = True
        if not done:
            h = self.helper_of(c)
            if h is not None:
                fa = h[1].args
                simple = not c.args and not fa.vararg and not any(
                    isinstance(n, ast.Return) and n.value is not None for n in ast.walk(h[1]))
                if simple:
                    return self.inline(s, h, rest, env, k, ind)
                return self.inline_call(s, None, h, c, rest, env, k, ind)
        if not done:
            # an operation whose value is dropped
            got = self.op_expr(c, env, pre)
            if got is None:
                self.fail(s, "unsupported call statement")
        text, closes = self.opens(pre, env, k, ind, s)
        return self.wrap(closes, text + self.block(rest, env, k, ind))

    # ---- private helpers (inlined on demand) and loops over a literal tuple (unrolled)
    def helper_of(self, c):
        """c is a call of a private helper of the module / the class -> (name, FunctionDef)"""
        if c.keywords or any(isinstance(a, ast.Starred) for a in c.args):
            return None
        f = c.func
        if isinstance(f, ast.Name) and ("", f.id) in self.helpers:
            return f.id, self.helpers[("", f.id)]
        if self.cls and self.is_self_attr(f) and (self.cls, f.attr) in self.helpers and f.attr not in self.done:
            return "self." + f.attr, self.helpers[(self.cls, f.attr)]
        return None

    def inline(self, s, h, rest, env, k, ind):
        name, fn = h
        a = fn.args
        want = ["self"] if name.startswith("self.") else []
        if fn.decorator_list or a.vararg or a.kwarg or a.kwonlyargs or a.posonlyargs or a.defaults \
                or [x.arg for x in a.args] != want or isinstance(fn, ast.AsyncFunctionDef):
            self.fail(s, "only private helpers without parameters are inlined")
        if name in self.inlining:
            self.fail(s, "recursive helper")
        body = list(fn.body)
        if body and isinstance(body[-1], ast.Return) and body[-1].value is None:
            body = body[:-1]
        for b in body:
            for n in ast.walk(b):
                if isinstance(n, (ast.Return, ast.Yield, ast.YieldFrom, ast.Global, ast.Nonlocal)):
                    self.fail(s, "the helper %s returns a value / leaves early: not inlined" % name)
        self.inlining.append(name)
        henv = Env()                      # the helper sees none of the caller's locals
        text = self.line(ind, "(* %d: %s  -- the body of the helper (lines %d-%d) inlined: *)" % (
            s.lineno, _comment(ast.unparse(s)), fn.lineno, fn.end_lineno))
        return text + self.block(body + [_EndInline(env, name, s.lineno)] + rest, henv, k, ind)

    def inline_call(self, s, x, h, call, rest, env, k, ind):
        """[x =] helper(args): the body of a private helper with parameters and / or return values, inlined.  What
        follows the call is a local continuation k'N that receives the world, the printed lines and (for `x = ...`)
        the returned value; it is defined BEFORE the helper's parameters are bound, so the helper's names cannot
        capture the caller's.  Positional parameters are bound to the (typed) argument values, evaluated first; a
        *args parameter is accepted when every argument it receives is a literal (it may then only be iterated)."""
        name, fn = h
        a = fn.args
        if fn.decorator_list or a.kwarg or a.kwonlyargs or a.posonlyargs or a.defaults or isinstance(fn, ast.AsyncFunctionDef):
            self.fail(s, "unsupported signature of the helper %s" % name)
        params = [p.arg for p in a.args]
        if name.startswith("self."):
            if params[:1] != ["self"]:
                self.fail(s, "the helper %s is not a method" % name)
            params = params[1:]
        if name in self.inlining:
            self.fail(s, "recursive helper")
        if len(call.args) < len(params) or (len(call.args) > len(params) and not a.vararg):
            self.fail(s, "the helper %s is called with the wrong number of arguments" % name)
        for n in ast.walk(fn):
            if isinstance(n, (ast.Yield, ast.YieldFrom, ast.Global, ast.Nonlocal)):
                self.fail(s, "unsupported construct in the helper %s" % name)
        henv = Env()
        pre, lets = [], []
        for pname, arg in zip(params, call.args):
            self.check_name(s, pname)
            hd = self.handle_of(arg, env)
            if hd is not None:
                henv.handles[pname] = hd
                continue
            if isinstance(arg, ast.Constant) and arg.value is None:
                t, ty = "(@None Z)", OPTINT
            else:
                t, ty = self.expr(arg, env, pre)
            tmp = self.temp("a")
            pre.append(("let", tmp, t))
            lets.append((pname, tmp))
            henv.types[pname] = OPTINT if ty == NONE else ty
        extra = call.args[len(params):]
        if a.vararg:
            if not all(isinstance(e, ast.Constant) for e in extra):
                self.fail(s, "the *%s parameter of the helper %s receives a value that is not a literal" % (a.vararg.arg, name))
            henv.consts[a.vararg.arg] = list(extra)
        body = list(fn.body)

        def run(kk, i):
            self.inlining.append(name)
            try:
                return self.block(body, henv.copy(), kk, i)
            finally:
                self.inlining.remove(name)

        def nolo(what):
            def f(n, e):
                self.fail(n, "%s in the helper %s outside a loop" % (what, name))
            return f

        rty = None
        if x is not None:
            # dry run: the types of the returned values
            seen = []
            uid, used = self.uid, set(self.used_ops)
            run(K(lambda n, e: seen.append(NONE) or "?", nolo("continue"), nolo("break"),
                  lambda n, t, ty, e: seen.append(ty) or "?", k.exc, none_value=True), ind)
            self.uid, self.used_ops = uid, used
            rty = self.join_type(seen) if seen else None
            if rty is None or rty not in COQ_TYPE:
                self.fail(s, "the helper %s returns values of types %r" % (name, sorted(set(seen))))
        kname = self.temp("k")
        after = env.copy()
        if x is not None:
            self.bind(s, x, rty, after)
        text, closes = self.opens(pre, env, k, ind, s)
        text += self.line(ind, "(* %d: %s  -- the body of the helper (lines %d-%d) inlined; what follows the call is %s *)" % (
            s.lineno, _comment(ast.unparse(s).split("\n")[0]), fn.lineno, fn.end_lineno, kname))
        text += self.line(ind, "let %s := fun '(w, printed%s) =>" % (kname, (", " + x) if x is not None else ""))
        text += _close(self.block(rest, after, k, ind + 2), " in")
        for pname, tmp in lets:
            text += self.line(ind, "let %s := %s in" % (pname, tmp))

        def ret(node, t, ty, e):
            if x is None:
                if ty not in (UNIT, NONE):
                    self.fail(node, "the value returned by the helper %s is dropped" % name)
                return "%s (w, printed)" % kname
            return "%s (w, printed, %s)" % (kname, self.coerce(node, t, ty, rty))

        def fall(node, e):
            return ret(node or s, "(@None Z)", NONE, e)

        text += run(K(fall, nolo("continue"), nolo("break"), ret, k.exc, none_value=True), ind)
        return self.wrap(closes, text)

    def unrolled(self, s, env):
        """for x in (<constants>): BODY  ->  BODY repeated; x itself is dropped (it may only be used in statements
        that are not modelled or in stderr prints)"""
        if isinstance(s.iter, ast.Name) and s.iter.id in env.consts:
            elts = env.consts[s.iter.id]         # the *args of an inlined helper, all literals at this call
        elif isinstance(s.iter, (ast.Tuple, ast.List)) and all(isinstance(e, ast.Constant) for e in s.iter.elts):
            elts = s.iter.elts
        else:
            elts = None
        if s.orelse or not isinstance(s.target, ast.Name) or elts is None:
            self.fail(s, "a for loop is supported only over a literal tuple / list of constants (it is unrolled)")
        for b in s.body:
            for n in ast.walk(b):
                if isinstance(n, (ast.Break, ast.Continue, ast.For, ast.While)):
                    self.fail(n, "break / continue / nested loop inside an unrolled loop")
        x = s.target.id
        if x in env.types or x in env.handles:
            self.fail(s, "the loop variable %r is already bound" % x)
        if x in self.assigned(s.body):
            self.fail(s, "the loop variable is assigned in the loop")
        return list(s.body) * len(elts)

    # ---- conditionals
    def must_assign(self, stmts):
        """local names assigned on every path through stmts that falls off their end; None: no path does"""
        out = set()
        for s in stmts:
            if isinstance(s, (ast.Return, ast.Break, ast.Continue)):
                return None
            if isinstance(s, ast.Assign):
                out |= {t.id for t in s.targets if isinstance(t, ast.Name)}
            elif isinstance(s, ast.AugAssign) and isinstance(s.target, ast.Name):
                out.add(s.target.id)
            elif isinstance(s, ast.If):
                a, b = self.must_assign(s.body), self.must_assign(s.orelse)
                if a is None and b is None:
                    return None
                out |= b if a is None else a if b is None else (a & b)
            elif isinstance(s, ast.Try) and len(s.handlers) == 1:
                a, h = self.must_assign(s.body), self.must_assign(s.handlers[0].body)
                if a is None and h is None:
                    return None
                # the handler may run before the body has assigned anything
                out |= a if h is None else h if a is None else (a & h)
        return out

    @staticmethod
    def join_type(tys):
        tys = set(tys)
        if len(tys) == 1:
            t = tys.pop()
            return OPTINT if t == NONE else t
        if tys <= {INT, NONE, OPTINT}:
            return OPTINT
        if tys <= {ITEM, OPTITEM}:
            return OPTITEM
        return None

    def with_join(self, s, parts, rest, env, k, ind, build):
        """build(k_inner) -> the text of a branching construct.  When more than one of its parts can fall through and
        something follows, what follows becomes a local continuation that receives the world, the printed lines and the
        variables assigned inside the construct (the others are in lexical scope): those bound before it, and those it
        assigns on every path that falls through."""
        if not rest:
            return build(k, ind)
        must = self.must_assign(parts if isinstance(s, ast.Try) else [s]) or set()
        names = [n for n in self.assigned(parts) if n in env.types or n in must]
        entry = {n: self.join_type([env.types[n]]) for n in names if n in env.types}
        new = [n for n in names if n not in env.types]
        if new:
            # dry run: the types the new names have where the construct falls through
            seen = []

            def probe(node, e):
                seen.append(dict(e.types))
                return "?"

            uid = self.uid
            build(K(probe, k.cont, k.brk, k.ret, k.exc, k.none_value), ind)
            self.uid = uid
            for n in new:
                ty = self.join_type([r[n] for r in seen if n in r]) if seen and all(n in r for r in seen) else None
                if ty is None:
                    names.remove(n)     # not bound / not of one type on every path: not visible afterwards
                else:
                    entry[n] = ty
        kname = self.temp("k")
        after = env.copy()
        for n in names:
            after.types[n] = entry[n]
        text = self.line(ind, "let %s := fun '%s =>" % (kname, self.state_tuple(names)))
        text += _close(self.block(rest, after, k, ind + 2), " in")

        def fall(node, e):
            return "%s %s" % (kname, self.state_now(node or s, names, entry, e))

        return text + build(K(fall, k.cont, k.brk, k.ret, k.exc, k.none_value), ind)

    def if_(self, s, rest, env, k, ind):
        body, orelse = list(s.body), list(s.orelse)
        bt, et = self.terminates(body), self.terminates(orelse)
        if rest and bt and et:
            self.fail(rest[0], "unreachable statement")
        if rest and (bt or et):
            # what follows belongs to the side that falls through
            then_stmts = body if bt else body + rest
            else_stmts = orelse if et else orelse + rest
            return self.if_text(s, then_stmts, else_stmts, env, k, ind)
        return self.with_join(s, body + orelse, rest, env, k, ind,
                              lambda k2, i2: self.if_text(s, body, orelse, env, k2, i2))

    def if_text(self, s, then_stmts, else_stmts, env, k, ind):
        env_t, env_f = env.copy(), env.copy()
        test = s.test
        # `if v:` on None | int
        if isinstance(test, ast.Name) and env.types.get(test.id) == OPTINT:
            v = test.id
            env_t.types[v] = INT
            out = self.line(ind, "if_truthy %s (fun %s =>" % (v, v), s)
            out += _close(self.block(then_stmts, env_t, k, ind + 2), ")")
            out += self.line(ind + 1, "(" + " " * max(2, 66 - 2 * (ind + 1) - 1)
                             + "(* %d: else (%s is None or 0) *)" % (s.lineno, v))
            out += _close(self.block(else_stmts, env_f, k, ind + 2), ")")
            return out
        # `if v is None:` / `if v is not None:`
        nt = self.none_test(test, env)
        if nt is not None:
            v, is_not = nt
            some_env, none_env = (env_t, env_f) if is_not else (env_f, env_t)
            some_stmts, none_stmts = (then_stmts, else_stmts) if is_not else (else_stmts, then_stmts)
            some_env.types[v] = INT if env.types[v] == OPTINT else ITEM
            out = self.line(ind, "if_none %s (" % v, s)
            out += _close(self.block(none_stmts, none_env, k, ind + 2), ")")
            out += self.line(ind + 1, "(fun %s =>" % v + " " * max(2, 60 - 2 * (ind + 1) - len(v))
                             + "(* %d: %s is not None *)" % (s.lineno, v))
            out += _close(self.block(some_stmts, some_env, k, ind + 2), ")")
            return out
        pre = []
        if isinstance(test, ast.Name) and env.types.get(test.id) == INT:
            c = "negb (Z.eqb %s 0%%Z)" % test.id
        else:
            c, tc = self.expr(test, env, pre)
            if tc != BOOL:
                self.fail(s, "condition of type %s (truthiness of such values is not supported)" % tc)
        out, closes = self.opens(pre, env, k, ind, s)
        out += self.line(ind, "if %s then" % c, None if pre else s)
        out += self.block(then_stmts, env_t, k, ind + 1)
        out += self.line(ind, "else")
        out += self.block(else_stmts, env_f, k, ind + 1)
        return self.wrap(closes, out)

    # ---- while
    def while_(self, s, rest, env, k, ind):
        if s.orelse:
            self.fail(s, "while ... else")
        self.uses_fuel = True
        body = list(s.body)
        names = [n for n in self.assigned(body) if n in env.types]
        entry = {n: (OPTINT if env.types[n] == NONE else env.types[n]) for n in names}
        inner = env.copy()
        for n in names:
            inner.types[n] = entry[n]
        tup = self.state_tuple(names)

        def cont(node, e):
            return "LContinue %s" % self.state_now(node or s, names, entry, e)

        def brk(node, e):
            return "LBreak %s" % self.state_now(node or s, names, entry, e)

        def ret(node, t, ty, e):
            return "LReturn (%s)" % k.ret(node, t, ty, e)

        def exc(e, i):
            return self.line(i, "LReturn (") + _close(k.exc(e, i + 1), ")")

        body_k = K(cont, cont, brk, ret, exc, k.none_value)
        out = self.line(ind, "while_loop fuel (fun '%s =>" % tup, s)
        always = isinstance(s.test, ast.Constant) and s.test.value is True
        if always:
            out += _close(self.block(body, inner, body_k, ind + 2), ")")
        else:
            pre = []
            c, tc = self.expr(s.test, inner, pre)
            if tc != BOOL:
                self.fail(s, "loop test of type %s" % tc)
            t2, closes = self.opens(pre, inner, body_k, ind + 2, None)
            t2 += self.line(ind + 2, "if %s then" % c)
            t2 += self.block(body, inner.copy(), body_k, ind + 3)
            t2 += self.line(ind + 2, "else")
            t2 += self.line(ind + 3, brk(s, inner))
            out += _close(self.wrap(closes, t2), ")")
        after = env.copy()
        for n in names:
            after.types[n] = entry[n]
        out += self.line(ind, "%s (fun '%s =>" % (self.state_now(s, names, entry, env), tup))
        out += _close(self.block(rest, after, k, ind + 1), ")")
        # out of fuel: no Python counterpart
        out += self.line(ind, "(fun '%s =>" % tup)
        out += _close(_close(k.exc(after, ind + 1).replace("e'", "OutOfFuel"), ")"), "")
        return out

    # ---- try / except
    def try_(self, s, rest, env, k, ind):
        if s.finalbody or len(s.handlers) != 1:
            self.fail(s, "only try: ... except <one handler>: ... [else: ...] is supported")
        h = s.handlers[0]
        if h.type is None:
            catches_all = True
        elif isinstance(h.type, ast.Name) and h.type.id in ("OSError", "IOError"):
            catches_all = False
        elif isinstance(h.type, ast.Name) and h.type.id == "Exception":
            catches_all = True
        else:
            self.fail(h, "unsupported exception class")
        body, hbody = list(s.body), list(h.body)
        # `with open(self.save_filename, 'w') as f: self.save_config.write(f)` is one operation
        body = [self.with_pattern(b, env) or b for b in body]

        def build(k2, i2):
            def exc(e, i):
                he = e.copy()
                if h.name:
                    he.handles[h.name] = EXCV
                k_h = K(k2.fall, k.cont, k.brk, k.ret, k.exc, k.none_value)
                outer = k.exc(e, i + 1)
                if catches_all:
                    t = self.line(i, "match e' with OutOfFuel =>") + outer
                    t += self.line(i, "| _ =>" + " " * 40 + "(* %d: except%s: *)" % (
                        h.lineno, (" " + h.type.id) if h.type is not None else ""))
                    t += self.block(hbody, he, k_h, i + 1)
                else:
                    t = self.line(i, "match e' with OSError =>" + " " * 30 + "(* %d: except %s: *)" % (h.lineno, h.type.id))
                    t += self.block(hbody, he, k_h, i + 1)
                    t += self.line(i, "| _ =>") + outer
                return _close(t, " end")

            k_body = K(k2.fall, k.cont, k.brk, k.ret, exc, k.none_value)
            stmts = body
            if orelse:
                # else: runs after the body, outside the handler's reach
                stmts = body + [_EndTry(K(k2.fall, k.cont, k.brk, k.ret, k.exc, k.none_value), s.end_lineno)] + orelse
            return self.line(i2, "(* %d: try: *)" % s.lineno) + self.block(stmts, env.copy(), k_body, i2)

        orelse = list(s.orelse)
        if orelse and rest:
            self.fail(s, "try ... else followed by more statements")
        if rest and self.terminates(hbody) and not self.terminates(body):
            # the handler leaves: what follows continues the body, outside the handler's reach, and sees the
            # variables the body bound
            body = body + [_EndTry(k, s.end_lineno)] + rest
            return build(k, ind)
        return self.with_join(s, list(s.body) + hbody + list(s.orelse), rest, env, k, ind, build)

    def with_pattern(self, b, env):
        """with open(self.save_filename, 'w') as f: self.save_config.write(f)  ->  a marker statement"""
        if not isinstance(b, ast.With):
            return None
        ok = (len(b.items) == 1 and isinstance(b.items[0].optional_vars, ast.Name) and len(b.body) == 1
              and isinstance(b.items[0].context_expr, ast.Call))
        if ok:
            o, f = b.items[0].context_expr, b.items[0].optional_vars.id
            ok = (isinstance(o.func, ast.Name) and o.func.id == "open" and len(o.args) == 2 and not o.keywords
                  and self.is_self_attr(o.args[0], "save_filename")
                  and isinstance(o.args[1], ast.Constant) and o.args[1].value == "w")
            w = b.body[0]
            ok = ok and (isinstance(w, ast.Expr) and isinstance(w.value, ast.Call) and isinstance(w.value.func, ast.Attribute)
                         and w.value.func.attr == "write" and self.handle_of(w.value.func.value, env) == CFG
                         and len(w.value.args) == 1 and isinstance(w.value.args[0], ast.Name)
                         and w.value.args[0].id == f and not w.value.keywords)
        if not ok:
            self.fail(b, "`with` is supported only as `with open(self.save_filename, 'w') as f: self.save_config.write(f)`")
        m = ast.Expr(value=ast.Call(func=ast.Name(id="__write_save_file__", ctx=ast.Load()), args=[], keywords=[]))
        ast.copy_location(m, b)
        ast.copy_location(m.value, b)
        m.note = m.value.note = " ".join(ast.unparse(b).split())
        return m

    # -------------------------------------------------------------- function
    def translate(self):
        self.check_signature()
        fn, spec = self.fn, self.spec
        env = Env()
        for n, ty in spec["params"]:
            if ty in COQ_TYPE:
                env.types[n] = ty
            else:
                env.handles[n] = ty
        ret_ty = spec["ret"]

        def ret(node, text, ty, e):
            if ty != ret_ty:
                self.fail(node, "returns a value of type %s, the translator expects %s" % (ty, ret_ty))
            return "(SOk %s, printed, w)" % _paren(text)

        def fall(_n, _e):
            if ret_ty != UNIT:
                self.fail(fn, "the function can end without a return statement")
            return "(SOk tt, printed, w)"

        def nolo(what):
            def f(n, e):
                self.fail(n, "%s outside a loop" % what)
            return f

        k = K(fall, nolo("continue"), nolo("break"), ret, lambda e, i: self.line(i, "(SExc e', printed, w)"))
        body = self.line(1, "let printed := @nil G in")
        body += self.block(list(fn.body), env, k, 1)
        params = "".join(" (%s : %s)" % (n, COQ_TYPE[ty]) for n, ty in spec["params"] if ty in COQ_TYPE)
        dump = ast.dump(fn, include_attributes=False)
        sha = hashlib.sha256(dump.encode("utf-8")).hexdigest()
        out = "(* %s  %sdef %s  lines %d-%d\n   sha256 of ast.dump: %s\n" % (
            self.rel, ("class %s  " % self.cls) if self.cls else "", fn.name, fn.lineno, fn.end_lineno, sha)
        out += "   result: (SOk <return value> | SExc e, lines written to stdout, final world).  Defaults: %s.%s *)\n" % (
            ", ".join("%s = %r" % kv for kv in sorted(spec.get("defaults", {}).items())) or "none",
            "\n   [fuel] bounds the number of iterations of the while loop (no counterpart in Python)"
            if self.uses_fuel else "")
        out += "Definition %s%s%s (w : W) : sres %s * list G * W :=\n" % (
            spec["coq"], " (fuel : nat)" if self.uses_fuel else "", params, COQ_TYPE[ret_ty])
        out += _close(body, ".")
        return out


# the marker of with_pattern is an operation in statement position
_orig_op_expr = FunctionTranslator.op_expr


def _op_expr(self, e, env, pre):
    if isinstance(e, ast.Call) and isinstance(e.func, ast.Name) and e.func.id == "__write_save_file__":
        return self.use_op(e, "write_save_file", [], pre), UNIT
    return _orig_op_expr(self, e, env, pre)


FunctionTranslator.op_expr = _op_expr


# ------------------------------------------------------------------ module level checks
def _parse(repo, rel):
    path = os.path.join(repo, rel)
    with open(path, encoding="utf-8", newline="") as f:
        src = f.read()
    return path, ast.parse(src, filename=path)


def check_grammar_signatures(repo):
    """the calls of create_guesses / restore_omen are resolved against these signatures"""
    path, tree = _parse(repo, "lib_guesser/pcfg_grammar.py")
    cls = [n for n in tree.body if isinstance(n, ast.ClassDef) and n.name == "PcfgGrammar"]
    if len(cls) != 1:
        raise TranslateError("%s: class PcfgGrammar not found exactly once" % path)
    defs = {n.name: n for n in cls[0].body if isinstance(n, ast.FunctionDef)}
    cg = defs.get("create_guesses")
    if cg is None:
        raise TranslateError("%s: PcfgGrammar.create_guesses not found" % path)
    a = cg.args
    names = [x.arg for x in a.args]
    dv = {x.arg: (d.value if isinstance(d, ast.Constant) else "?") for x, d in zip(a.args[len(a.args) - len(a.defaults):], a.defaults)}
    if names != ["self"] + [n for n, _ in CREATE_GUESSES_PARAMS] or dv != CREATE_GUESSES_DEFAULTS or a.vararg or a.kwarg \
            or a.kwonlyargs:
        raise TranslateError("%s:%d: create_guesses has parameters %r defaults %r, the translator knows %r %r" % (
            path, cg.lineno, names, dv, [n for n, _ in CREATE_GUESSES_PARAMS], CREATE_GUESSES_DEFAULTS))
    ro = defs.get("restore_omen")
    if ro is None or [x.arg for x in ro.args.args] != ["self"] + RESTORE_OMEN_PARAMS or ro.args.defaults:
        raise TranslateError("%s: PcfgGrammar.restore_omen(self, %s) not found" % (path, ", ".join(RESTORE_OMEN_PARAMS)))


def check_module(path, tree, kernel):
    """rebinding inside the module of what the translated functions call would make the translated def not the one
    that runs"""
    names = {s["py"] for s in kernel["specs"]} | {"PcfgQueue", "keypress", "print", "input", "str", "open"}
    for n in ast.walk(tree):
        if isinstance(n, (ast.Assign, ast.AugAssign, ast.AnnAssign, ast.Delete)):
            targets = n.targets if isinstance(n, (ast.Assign, ast.Delete)) else [n.target]
            for t in targets:
                for m in ast.walk(t):
                    if (isinstance(m, ast.Name) and m.id in names) or (isinstance(m, ast.Attribute) and m.attr in names
                                                                        and m.attr not in ("run",)):
                        raise TranslateError("%s:%d: %s is rebound" % (path, n.lineno, ast.unparse(t)))
        if isinstance(n, ast.Name) and n.id in ("setattr", "delattr", "__dict__", "exec", "eval", "globals"):
            raise TranslateError("%s:%d: %s is used in the module" % (path, n.lineno, n.id))
    tops = [n.name for n in tree.body if isinstance(n, (ast.FunctionDef, ast.AsyncFunctionDef, ast.ClassDef))]
    for bad in ("PcfgQueue", "print", "input", "str", "open"):
        if bad in tops:
            raise TranslateError("%s: %s is redefined in the module" % (path, bad))
    imports = [(n.module, n.level, a.name, a.asname) for n in ast.walk(tree) if isinstance(n, ast.ImportFrom) for a in n.names]
    for mod, lvl, name, asname in imports:
        if (asname or name) in ("PcfgQueue",) and not (name == "PcfgQueue" and asname is None and (
                (mod, lvl) in (("priority_queue", 1), ("lib_guesser.priority_queue", 0)))):
            raise TranslateError("%s: PcfgQueue is not imported from lib_guesser.priority_queue" % path)
        if (asname or name) in names and name != "PcfgQueue":
            raise TranslateError("%s: %s is imported over" % (path, asname or name))
    return tops


def init_consts(path, cls):
    """self.<attr> = '<str constant>' assignments of __init__ that nothing else in the class overwrites"""
    out = {}
    init = [n for n in cls.body if isinstance(n, ast.FunctionDef) and n.name == "__init__"]
    stores = {}
    for n in ast.walk(cls):
        if isinstance(n, ast.Attribute) and isinstance(n.ctx, (ast.Store, ast.Del)) and isinstance(n.value, ast.Name) \
                and n.value.id == "self":
            stores[n.attr] = stores.get(n.attr, 0) + 1
    if len(init) == 1:
        for s in init[0].body:
            if isinstance(s, ast.Assign) and len(s.targets) == 1 and FunctionTranslator.is_self_attr(s.targets[0]) \
                    and isinstance(s.value, ast.Constant) and type(s.value.value) is str \
                    and stores.get(s.targets[0].attr) == 1:
                out[s.targets[0].attr] = s.value.value
    return out


def render(which, repo=None):
    """-> text of the generated file of one kernel for the sources of the current working tree"""
    repo = repo or common.REPO
    kernel = KERNELS[which]
    check_grammar_signatures(repo)
    path, tree = _parse(repo, kernel["source"])
    check_module(path, tree, kernel)
    parts, used, const_defs = [], set(), []
    done_by_cls = {}
    for spec in kernel["specs"]:
        spec = dict(spec)
        if spec["cls"]:
            classes = [n for n in tree.body if isinstance(n, ast.ClassDef) and n.name == spec["cls"]]
            if len(classes) != 1:
                raise TranslateError("%s: class %s not found exactly once" % (path, spec["cls"]))
            if classes[0].bases or classes[0].decorator_list or classes[0].keywords:
                raise TranslateError("%s:%d: class %s has bases / decorators" % (path, classes[0].lineno, spec["cls"]))
            scope, consts = classes[0].body, init_consts(path, classes[0])
        else:
            scope, consts = tree.body, {}
        fns = [n for n in scope if isinstance(n, (ast.FunctionDef, ast.AsyncFunctionDef)) and n.name == spec["py"]]
        if len(fns) != 1 or not isinstance(fns[0], ast.FunctionDef):
            raise TranslateError("%s: %s%s not found exactly once" % (path, (spec["cls"] + ".") if spec["cls"] else "", spec["py"]))
        done = done_by_cls.setdefault(spec["cls"], {})
        translated = {(sp["cls"] or "", sp["py"]) for sp in kernel["specs"]}
        helpers = {("", n.name): n for n in tree.body if isinstance(n, ast.FunctionDef) and ("", n.name) not in translated}
        for c in tree.body:
            if isinstance(c, ast.ClassDef):
                for n in c.body:
                    if isinstance(n, ast.FunctionDef) and (c.name, n.name) not in translated:
                        helpers[(c.name, n.name)] = n
        ft = FunctionTranslator(path, kernel["source"], fns[0], spec, spec["cls"], consts, done, helpers)
        parts.append(ft.translate())
        for a in sorted(ft.used_consts):
            d = "(* %s.__init__: self.%s = %r (the only assignment of this attribute in the class) *)\nDefinition py_self_%s : pstr := %s.\n" % (
                spec["cls"], a, consts[a], a, FunctionTranslator.const_str(consts[a]))
            if d not in const_defs:
                const_defs.append(d)
        used |= ft.used_ops
        done[spec["py"]] = spec
    ctx = "Context {W Item Pt G : Type}.\n"
    for name in OP_ORDER:
        if name in used:
            ctx += "Context (%s : %s).%s(* %s *)\n" % (name, OPS[name]["sig"], " " * max(2, 60 - len(name) - len(OPS[name]["sig"])),
                                                  _comment(OPS[name]["doc"]))
    head = (
        "(* GENERATED by harness/translate_session.py from the Python source of the current\n"
        "   working tree (%s) on every run of a check.  Do not edit.\n"
        "   Each definition is the line-by-line image of one Python function in the subset\n"
        "   documented in the translator; the numbers in the comments are source lines.\n"
        "   Model: %s. *)\n"
        "From Coq Require Import List Arith ZArith NArith Bool.\n"
        "From Pcfg Require Import KernelRt ExpandRt SessionRt.\n"
        "Import ListNotations.\n\n"
        "Section %s.\n"
        "(* the world and the operations of the collaborators on it (see the translator's docstring) *)\n"
        % (kernel["source"], kernel["model"], kernel["section"])) + ctx + "\n"
    return head + "".join(d + "\n" for d in const_defs) + "\n".join(parts) + "\nEnd %s.\n" % kernel["section"]


def failure_text(which, err):
    """text written instead of the definitions when the translation fails: it must not
    compile, so that no stale generated definition survives"""
    return ("(* GENERATED by harness/translate_session.py.  The translation of the current sources FAILED:\n"
            "   %s\n   The line below does not type-check on purpose. *)\n"
            "Definition session_%s_translation_failed : False := I.\n" % (_comment(str(err)), which))


def write_all(repo=None):
    import extract_consts as X
    errors = []
    for which in KERNELS:
        path = os.path.join(common.COQ, KERNELS[which]["out"])
        try:
            text = render(which, repo)
        except Exception as e:
            X.write(path, failure_text(which, "%s: %s" % (type(e).__name__, e)))
            errors.append("%s: %s: %s" % (which, type(e).__name__, e))
            continue
        X.write(path, text)
    if errors:
        raise TranslateError("; ".join(errors))


if __name__ == "__main__":
    args = sys.argv[1:]
    if "--write" in args:
        write_all()
        print("written")
    else:
        for which in (args or list(KERNELS)):
            sys.stdout.write(render(which))
