#!/venv/bin/python
"""Fail-closed translator of the guesser's expansion kernel from Python to Gallina.

    /venv/bin/python harness/translate_expand.py            print the generated text
    /venv/bin/python harness/translate_expand.py --write    write coq/gen/Expand_gen.v

Source: lib_guesser/pcfg_grammar.py, class PcfgGrammar, the functions of SPECS
(omen_generate_guesses, _recursive_guesses, create_guesses).  The source is only
parsed (`ast`), never imported or executed.  The output (coq/gen/Expand_gen.v)
targets the runtime coq/theories/ExpandRt.v (+ the loop forms of KernelRt.v), and
coq/theories/ExpandGenProofs.v proves each generated definition equal to the
hand-written model of coq/theories/Expand.v the theorems of C04 / C09 / C17 are
about.  A change of one of these functions therefore changes the generated text
and the equality proofs are re-checked against it on every run.

What a generated function is.  Every translated function prints (print_guess) and
can raise, so `def f(self, a, b)` becomes  `py_f a b : res (list pstr * Z)`:
`Ok (printed, v)` = the lines handed to self.print_guess in order and the Python
return value, `Exc e` = an exception propagates (ExpandRt.v: LookupError for an
IndexError / KeyError of a subscript; OutOfFuel has no Python counterpart).  The
recursive function gets a fuel argument (as does every function calling it).
Parameters of the generated section (never inspected by the translator):
  upper_c          str.upper() of one character
  grammar_values   t i  |->  self.grammar[t][i]['values']  (None: the lookup raises)
  py_int           int(s) on a str
  MarkovCracker    level |-> the strings MarkovCracker(self.omen_grammar, level,
                   self.omen_optimizer).next_guess() returns until it returns None
  should_exit      the value `self.should_exit` has whenever it is read
  py_honeyword_recursive_guess   the (untranslated) method of that name

Accepted subset (anything else raises TranslateError with file:line):

  types      str (code points), int (Z), None-or-int (a parameter with default None),
             bool, node (a (name, index) tuple), pt (list of nodes), list of str,
             mc (a MarkovCracker object = the strings it still has to return).
             Parameter and return types are given by SPECS (checked against the `def`
             line: names, order, defaults); the types of locals are inferred.  A
             variable keeps its type, except that a None-or-int variable is an int
             inside the then-branch of `if v:`.
  statements x = e;  x += e / x -= e on ints;  x = [] (fresh list of str);  x.append(e)
             on such a list as long as it has not been aliased;  if / elif / else
             (what follows a conditional is translated into both branches; `if v:` / `if not v:`
             on a None-or-int v is ExpandRt.if_truthy: one branch runs for an int != 0,
             the other for None and for 0);  for x in e / for i, x in enumerate(e)
             (e a list of str, or a str: its characters; no else; e is evaluated once,
             before the loop; i is an int);
             the generator idiom
                 g = m.next_guess()
                 while g is not None:
                     BODY                      (no continue / break, g and m not assigned)
                     g = m.next_guess()
             x = [ELT for T in IT] (one `for`, no `if`: read as x = []; for T in IT: x.append(ELT));
             `a if c else b` as the whole value of an assignment / append / return (read as
             the if statement) or anywhere when neither branch can raise;
             or  `while True: g = m.next_guess(); if g is None: break; BODY`  (continue allowed),
             which are  for g in <the strings m still returns>;  continue (in for);
             return e;  return self.f(...) / x = self.f(...) for f in SPECS (or the
             opaque _honeyword_recursive_guess);  self.print_guess(e);  a docstring;
             pass.  Skipped with a note in the generated text, because the model has no
             counterpart (status / save-file bookkeeping and stderr):
             self.omen_guess_num = / += ..., self.omen_exit = ..., print(..., file=sys.stderr),
             m.save_session(...) on the mc, x = <expression over self.save_file> (x may then
             only be used in a skipped statement).
  expressions names;  int, str, True, False constants (None only as an argument for a
             None-or-int parameter);  e[i] on a pt / str / list of str (Python index
             semantics, may raise);  e[0], e[1] on a node;  e[a:], e[:b], e[a:b];
             self.grammar[t][i]['values'] (may raise);  len(e);  int(e) on a str;
             e.upper() on a str;  'sep'.join(e);  [e, ...] (list of str);  + on ints,
             strs, lists of str;  - and * on ints;  unary -;  < <= > >= == != on ints;
             == != on strs;  not e, `and` / `or` on bools;  self.should_exit;
             MarkovCracker(self.omen_grammar, level, self.omen_optimizer);
             self.h(args) for another method h of the class (plain or @staticmethod,
             positional parameters, no printing, no recursion, every path ends in
             `return e`): its body is translated in place, `return e` handing e to what
             follows the call (so a helper extracted from a translated function gives the
             same generated term, up to beta, as the code it was extracted from).
             Sub-expressions that may raise are evaluated first, left to right
             (`bindx`), which is Python's order.

What the translation does NOT model (trusted / out of its sight): print_guess itself
(it is the output effect: one line per call; its OSError on a closed pipe is not
modelled), exceptions other than LookupError (int() of a non-number, TypeError: ruled
out by the type discipline above), the MarkovCracker (an oracle, property C10), the
quit flag being changed by another thread (should_exit is one value per run of the
function; the equality theorems are stated for False), status counters and the OMEN
save file, object identity (mutation is accepted on fresh local lists only), and
termination (fuel).  Rebinding of the translated methods from another module is out
of the translator's sight.
"""
import ast
import copy
import hashlib
import os
import sys

HERE = os.path.dirname(os.path.abspath(__file__))
if HERE not in sys.path:
    sys.path.insert(0, HERE)
import common  # noqa: E402
from translate_kernel import TranslateError, _close, _comment  # noqa: E402
from translate_kernel import _paren as _kernel_paren  # noqa: E402
import re  # noqa: E402


def _paren(t):
    t = t.strip()
    if re.fullmatch(r"\d+%[ZN]", t) or (t.startswith("[") and t.endswith("]") and t.count("[") == 1):
        return t
    return _kernel_paren(t)

SOURCE = "lib_guesser/pcfg_grammar.py"
CLASS = "PcfgGrammar"
OUT = os.path.join("gen", "Expand_gen.v")

# ------------------------------------------------------------------ types
STR, INT, OPTINT, BOOL, NODE, PT, STRLIST, MC = "str", "int", "optint", "bool", "node", "pt", "strlist", "mc"
COQ_TYPE = {STR: "pstr", INT: "Z", OPTINT: "option Z", BOOL: "bool", NODE: "pnode", PT: "list pnode",
            STRLIST: "list pstr", MC: "list pstr"}
RESULT = "res (list pstr * Z)"

SPECS = [
    dict(py="omen_generate_guesses", coq="py_omen_generate_guesses",
         params=[("markov_cracker", MC), ("limit", OPTINT)], defaults={"limit": None}, ret=INT),
    dict(py="_recursive_guesses", coq="py_recursive_guesses",
         params=[("cur_guess", STR), ("pt", PT), ("limit", OPTINT)], defaults={"limit": None}, ret=INT,
         recursive=True),
    dict(py="create_guesses", coq="py_create_guesses",
         params=[("pt", PT), ("is_honeyword", BOOL), ("limit", OPTINT)],
         defaults={"is_honeyword": False, "limit": None}, ret=INT),
]
# methods called but not translated: parameters of the generated section
OPAQUE = {
    "_honeyword_recursive_guess": dict(py="_honeyword_recursive_guess", coq="py_honeyword_recursive_guess",
                                       params=[("cur_guess", STR), ("pt", PT), ("limit", OPTINT)],
                                       defaults={"limit": None}, ret=INT, opaque=True),
}
# attributes of self whose stores are skipped (status / save bookkeeping, no counterpart in the model)
GHOST_ATTRS = {"omen_guess_num", "omen_exit"}
# attributes of self that are read only to build arguments of skipped statements (the save-file name)
GHOST_READS = {"save_file"}
GHOST = "not-modelled"

SECTION_CONTEXT = (
    "Context (upper_c : N -> pstr).\n"
    "Context (grammar_values : pstr -> Z -> option (list pstr)).\n"
    "Context (py_int : pstr -> Z).\n"
    "Context (MarkovCracker : Z -> list pstr).\n"
    "Context (should_exit : bool).\n"
    "Context (py_honeyword_recursive_guess : pstr -> list pnode -> option Z -> %s).\n" % RESULT)

# identifiers the generated text uses itself: a Python variable of that name is refused
RESERVED = set("""upper_c grammar_values py_int MarkovCracker should_exit printed fuel tt true false fst snd
length nth nil cons list nat bool unit option Some None O S Z N fun let in if then else match with end forall
exists Type Prop Set as at return fix cofix struct where Definition Fixpoint Section End Context app
for_each for_from for_enum for_range Continue Return ctl append extend sub set_nth
pstr pnode exc res Ok Exc LookupError OutOfFuel bindx lookup if_truthy len py_index seq_index str_index
py_bound slice_from slice_to slice chars str_eqb str_upper str_join negb andb orb
KernelRt ExpandRt Expand pair left right inl inr I Eq Lt Gt xH xI xO Z0 Zpos Zneg N0 Npos
CatM CatC CatPlain SegPlain SegAlpha mod""".split()) | {s["coq"] for s in SPECS} | {s["coq"] for s in OPAQUE.values()}


# ------------------------------------------------------------------ desugaring
def _names(node):
    return {n.id for n in ast.walk(node) if isinstance(n, ast.Name)}


def _at(new, old):
    return ast.fix_missing_locations(ast.copy_location(new, old))


def _split_ifexp(s, value, rebuild):
    """statement s whose whole value is `a if c else b`  ->  if c: s[a] else: s[b]
    (Python evaluates c, then only the chosen branch: the same order)"""
    if not isinstance(value, ast.IfExp):
        return None
    return [_at(ast.If(test=value.test, body=desugar_block([rebuild(value.body)]),
                       orelse=desugar_block([rebuild(value.orelse)])), s)]


def desugar_stmt(s):
    """-> list of statements with the same meaning in the subset the translator walks:
       x = [ELT for T in IT]      ->  x = [];  for T in IT: x.append(ELT)
                                      (one `for`, no `if`; x occurs neither in ELT nor in IT; the
                                      comprehension's own variables are not visible afterwards -
                                      the translator forgets loop variables after a loop anyway
                                      and refuses a loop variable that is already bound)
       x.append(a if c else b) / x = a if c else b / return a if c else b
                                  ->  if c: ...a... else: ...b...
    Anything else is returned unchanged (nested blocks are desugared recursively)."""
    if isinstance(s, ast.Assign) and len(s.targets) == 1 and isinstance(s.targets[0], ast.Name):
        x, v = s.targets[0].id, s.value
        if isinstance(v, ast.ListComp) and len(v.generators) == 1:
            g = v.generators[0]
            if not g.ifs and not g.is_async and x not in _names(v.elt) | _names(g.iter) | _names(g.target):
                init = _at(ast.Assign(targets=[ast.Name(id=x, ctx=ast.Store())],
                                      value=ast.List(elts=[], ctx=ast.Load())), s)
                app = _at(ast.Expr(value=ast.Call(
                    func=ast.Attribute(value=ast.Name(id=x, ctx=ast.Load()), attr="append", ctx=ast.Load()),
                    args=[v.elt], keywords=[])), v.elt)
                loop = _at(ast.For(target=g.target, iter=g.iter, body=desugar_block([app]), orelse=[]), v)
                return [init, loop]
        r = _split_ifexp(s, v, lambda e: _at(ast.Assign(targets=[ast.Name(id=x, ctx=ast.Store())], value=e), s))
        if r:
            return r
    if isinstance(s, ast.Return) and s.value is not None:
        r = _split_ifexp(s, s.value, lambda e: _at(ast.Return(value=e), s))
        if r:
            return r
    if isinstance(s, ast.Expr) and isinstance(s.value, ast.Call) and isinstance(s.value.func, ast.Attribute) \
            and s.value.func.attr == "append" and len(s.value.args) == 1 and not s.value.keywords:
        c = s.value
        r = _split_ifexp(s, c.args[0], lambda e: _at(ast.Expr(value=ast.Call(func=c.func, args=[e], keywords=[])), s))
        if r:
            return r
    for field in ("body", "orelse"):
        if isinstance(s, (ast.If, ast.For, ast.While)) and getattr(s, field, None):
            setattr(s, field, desugar_block(getattr(s, field)))
    return [s]


def desugar_block(stmts):
    out = []
    for s in stmts:
        out.extend(desugar_stmt(s))
    return out


def desugared_body(fn):
    """the statements of fn, desugared (on a copy: the sha in the header is of the source as written)"""
    return desugar_block(copy.deepcopy(list(fn.body)))


class Env:
    """what is known at a program point: the type of the locals and which lists are fresh"""

    def __init__(self):
        self.types = {}      # name -> type (insertion ordered)
        self.fresh = set()   # names bound to a local list nothing else refers to

    def copy(self):
        e = Env()
        e.types = dict(self.types)
        e.fresh = set(self.fresh)
        return e


class K:
    """the context of a block: what falling off its end, `continue`, `return e` and a
    propagating exception become.  fall / cont take the environment at that point (the
    loop-carried variables are coerced to their type at loop entry)."""

    def __init__(self, fall, cont, ret, exc):
        self.fall, self.cont, self.ret, self.exc = fall, cont, ret, exc


class FunctionTranslator:
    def __init__(self, path, rel, fn, spec, done, defs=None, tree=None):
        self.path, self.rel, self.fn, self.spec = path, rel, fn, spec
        self.done = done          # py name -> spec of the functions translated before (+ opaque ones)
        self.defs = defs or {}    # the methods of the class (helpers are inlined on demand)
        self.tree = tree
        self.inlining = []        # names of the helpers being inlined (no recursion)
        self.uid = 0
        self.uses_fuel = bool(spec.get("recursive"))   # set while translating when a fuelled function is called

    # -------------------------------------------------------------- errors
    def fail(self, node, msg):
        raise TranslateError("%s:%d: %s.%s: %s  [%s]" % (
            self.path, getattr(node, "lineno", self.fn.lineno), CLASS, self.fn.name, msg,
            _comment(ast.unparse(node)).split("\n")[0][:100]))

    def temp(self, prefix="t"):
        self.uid += 1
        return "%s'%d" % (prefix, self.uid)

    # -------------------------------------------------------------- header
    def check_signature(self):
        fn, spec = self.fn, self.spec
        a = fn.args
        if fn.decorator_list or a.vararg or a.kwarg or a.kwonlyargs or a.posonlyargs or a.kw_defaults:
            self.fail(fn, "unsupported signature")
        names = [x.arg for x in a.args]
        want = ["self"] + [n for n, _ in spec["params"]]
        if names != want:
            self.fail(fn, "parameters are %r, the translator knows %r" % (names, want))
        if any(x.annotation is not None for x in a.args) or fn.returns is not None:
            self.fail(fn, "annotations are not supported")
        defaults = {}
        for x, d in zip(a.args[len(a.args) - len(a.defaults):], a.defaults):
            if not (isinstance(d, ast.Constant) and (d.value is None or type(d.value) in (bool, int))):
                self.fail(fn, "unsupported default value")
            defaults[x.arg] = d.value
        want_d = spec.get("defaults", {})
        if set(defaults) != set(want_d) or any(type(defaults[n]) is not type(want_d[n]) or defaults[n] != want_d[n]
                                               for n in defaults):
            self.fail(fn, "defaults are %r, the translator knows %r" % (defaults, want_d))
        for n, _ in spec["params"]:
            self.check_name(fn, n)

    def check_name(self, node, name):
        if name in RESERVED or name.startswith("py_") or not name.isidentifier() or not name.isascii() \
                or "'" in name or name.startswith("_"):
            self.fail(node, "the variable name %r collides with the generated code" % name)

    # -------------------------------------------------------------- expressions
    @staticmethod
    def is_self_attr(e, attr=None):
        return (isinstance(e, ast.Attribute) and isinstance(e.value, ast.Name) and e.value.id == "self"
                and (attr is None or e.attr == attr))

    @staticmethod
    def const_str(s):
        return "(@nil N)" if not s else "[" + "; ".join("%d%%N" % ord(c) for c in s) + "]"

    @staticmethod
    def const_int(n):
        return "%d%%Z" % n if n >= 0 else "(%d)%%Z" % n

    def raising(self, pre, text, prefix="t"):
        """the value of an expression that may raise: bound to a fresh temporary"""
        t = self.temp(prefix)
        pre.append((t, text))
        return t

    def coerce(self, node, text, ty, want):
        if ty == want:
            return text
        if ty == INT and want == OPTINT:
            return "Some %s" % _paren(text)
        self.fail(node, "a value of type %s is used where %s is expected" % (ty, want))

    def expr(self, e, env, pre):
        """-> (Gallina text, type); sub-expressions that may raise are appended to pre"""
        if self.is_self_attr(e, "should_exit"):
            return "should_exit", BOOL
        if isinstance(e, ast.Name):
            if e.id not in env.types:
                self.fail(e, "unknown variable %r (not assigned on every path to here?)" % e.id)
            if env.types[e.id] == GHOST:
                self.fail(e, "the not-modelled value %r is used" % e.id)
            return e.id, env.types[e.id]
        if isinstance(e, ast.Constant):
            if e.value is True:
                return "true", BOOL
            if e.value is False:
                return "false", BOOL
            if type(e.value) is int:
                return self.const_int(e.value), INT
            if type(e.value) is str:
                return self.const_str(e.value), STR
            self.fail(e, "unsupported constant")
        if isinstance(e, ast.List):
            elts = []
            for x in e.elts:
                t, ty = self.expr(x, env, pre)
                if ty != STR:
                    self.fail(e, "only lists of strs are supported")
                elts.append(t)
            return ("[" + "; ".join(elts) + "]") if elts else "(@nil pstr)", STRLIST
        if isinstance(e, ast.UnaryOp):
            a, ta = self.expr(e.operand, env, pre)
            if isinstance(e.op, ast.Not) and ta == BOOL:
                return "negb %s" % _paren(a), BOOL
            if isinstance(e.op, ast.USub) and ta == INT:
                return "Z.opp %s" % _paren(a), INT
            self.fail(e, "unsupported unary operator on a value of type %s" % ta)
        if isinstance(e, ast.BoolOp):
            parts = []
            for x in e.values:
                inner = []
                t, ty = self.expr(x, env, inner)
                if ty != BOOL or inner:
                    self.fail(e, "`and` / `or` are supported between bools that cannot raise")
                parts.append(_paren(t))
            op = "andb" if isinstance(e.op, ast.And) else "orb"
            text = parts[-1]
            for p in reversed(parts[:-1]):
                text = "%s %s %s" % (op, p, _paren(text))
            return text, BOOL
        if isinstance(e, ast.BinOp):
            a, ta = self.expr(e.left, env, pre)
            b, tb = self.expr(e.right, env, pre)
            a, b = _paren(a), _paren(b)
            if isinstance(e.op, ast.Add) and (ta, tb) in ((STR, STR), (STRLIST, STRLIST)):
                return "%s ++ %s" % (a, b), ta
            if (ta, tb) == (INT, INT):
                op = {ast.Add: "Z.add", ast.Sub: "Z.sub", ast.Mult: "Z.mul"}.get(type(e.op))
                if op:
                    return "%s %s %s" % (op, a, b), INT
            self.fail(e, "unsupported operator between %s and %s" % (ta, tb))
        if isinstance(e, ast.Compare):
            if len(e.ops) != 1 or len(e.comparators) != 1:
                self.fail(e, "chained comparison")
            a, ta = self.expr(e.left, env, pre)
            b, tb = self.expr(e.comparators[0], env, pre)
            a, b = _paren(a), _paren(b)
            op = type(e.ops[0])
            if (ta, tb) == (INT, INT):
                table = {ast.Lt: "Z.ltb %s %s" % (a, b), ast.LtE: "Z.leb %s %s" % (a, b),
                         ast.Gt: "Z.ltb %s %s" % (b, a), ast.GtE: "Z.leb %s %s" % (b, a),
                         ast.Eq: "Z.eqb %s %s" % (a, b), ast.NotEq: "negb (Z.eqb %s %s)" % (a, b)}
            elif (ta, tb) == (STR, STR):
                table = {ast.Eq: "str_eqb %s %s" % (a, b), ast.NotEq: "negb (str_eqb %s %s)" % (a, b)}
            else:
                self.fail(e, "comparison of %s with %s" % (ta, tb))
            if op not in table:
                self.fail(e, "unsupported comparison operator")
            return table[op], BOOL
        if isinstance(e, ast.Subscript):
            return self.subscript(e, env, pre)
        if isinstance(e, ast.Call):
            return self.call(e, env, pre)
        if isinstance(e, ast.IfExp):
            c, tc = self.expr(e.test, env, pre)
            pa, pb = [], []
            a, ta = self.expr(e.body, env, pa)
            b, tb = self.expr(e.orelse, env, pb)
            if pa or pb:
                self.fail(e, "a conditional expression whose branches may raise is supported only as the whole value "
                             "of an assignment, an append or a return")
            if tc != BOOL or ta != tb:
                self.fail(e, "conditional expression of types %s ? %s : %s" % (tc, ta, tb))
            return "if %s then %s else %s" % (c, a, b), ta
        self.fail(e, "unsupported expression (%s)" % type(e).__name__)

    def grammar_values(self, e, env, pre):
        """self.grammar[t][i]['values'] -> temporary bound to lookup (grammar_values t i), else None"""
        if not (isinstance(e, ast.Subscript) and isinstance(e.slice, ast.Constant) and e.slice.value == "values"):
            return None
        g = e.value
        if not (isinstance(g, ast.Subscript) and isinstance(g.value, ast.Subscript)
                and self.is_self_attr(g.value.value, "grammar")):
            return None
        t, tt = self.expr(g.value.slice, env, pre)
        i, ti = self.expr(g.slice, env, pre)
        if (tt, ti) != (STR, INT):
            self.fail(e, "self.grammar[t][i]['values'] needs a str t and an int i")
        return self.raising(pre, "lookup (grammar_values %s %s)" % (_paren(t), _paren(i))), STRLIST

    def subscript(self, e, env, pre):
        if not isinstance(e.ctx, ast.Load):
            self.fail(e, "unsupported use of a subscript")
        gv = self.grammar_values(e, env, pre)
        if gv is not None:
            return gv
        if self.is_self_attr(e.value, "grammar") or (isinstance(e.value, ast.Subscript)
                                                     and self.is_self_attr(e.value.value, "grammar")):
            self.fail(e, "self.grammar may only be used as self.grammar[t][i]['values']")
        v, tv = self.expr(e.value, env, pre)
        if isinstance(e.slice, ast.Slice):
            if e.slice.step is not None:
                self.fail(e, "slice with a step")
            if tv not in (STR, PT, STRLIST):
                self.fail(e, "slice of a value of type %s" % tv)
            bounds = []
            for b in (e.slice.lower, e.slice.upper):
                if b is None:
                    bounds.append(None)
                    continue
                t, tb = self.expr(b, env, pre)
                if tb != INT:
                    self.fail(e, "slice bound of type %s" % tb)
                bounds.append(_paren(t))
            lo, hi = bounds
            if lo is None and hi is None:
                return v, tv
            if hi is None:
                return "slice_from %s %s" % (_paren(v), lo), tv
            if lo is None:
                return "slice_to %s %s" % (_paren(v), hi), tv
            return "slice %s %s %s" % (_paren(v), lo, hi), tv
        if tv == NODE:
            if isinstance(e.slice, ast.Constant) and type(e.slice.value) is int and e.slice.value in (0, 1):
                return "%s %s" % ("fst" if e.slice.value == 0 else "snd", _paren(v)), (STR if e.slice.value == 0 else INT)
            self.fail(e, "a node may only be subscripted by the constants 0 and 1")
        i, ti = self.expr(e.slice, env, pre)
        if ti != INT:
            self.fail(e, "index of type %s" % ti)
        if tv == PT:
            return self.raising(pre, "seq_index %s %s" % (_paren(v), _paren(i))), NODE
        if tv == STRLIST:
            return self.raising(pre, "seq_index %s %s" % (_paren(v), _paren(i))), STR
        if tv == STR:
            return self.raising(pre, "str_index %s %s" % (_paren(v), _paren(i))), STR
        self.fail(e, "subscript of a value of type %s" % tv)

    def call(self, e, env, pre):
        f = e.func
        if e.keywords or any(isinstance(a, ast.Starred) for a in e.args):
            self.fail(e, "unsupported call")
        if isinstance(f, ast.Name) and f.id == "len" and len(e.args) == 1:
            v, tv = self.expr(e.args[0], env, pre)
            if tv not in (STR, PT, STRLIST):
                self.fail(e, "len of a value of type %s" % tv)
            return "len %s" % _paren(v), INT
        if isinstance(f, ast.Name) and f.id == "int" and len(e.args) == 1:
            v, tv = self.expr(e.args[0], env, pre)
            if tv != STR:
                self.fail(e, "int of a value of type %s" % tv)
            return "py_int %s" % _paren(v), INT
        if isinstance(f, ast.Name) and f.id == "MarkovCracker":
            if len(e.args) != 3 or not self.is_self_attr(e.args[0], "omen_grammar") \
                    or not self.is_self_attr(e.args[2], "omen_optimizer"):
                self.fail(e, "MarkovCracker must be built as MarkovCracker(self.omen_grammar, level, self.omen_optimizer)")
            v, tv = self.expr(e.args[1], env, pre)
            if tv != INT:
                self.fail(e, "the level is a value of type %s" % tv)
            return "MarkovCracker %s" % _paren(v), MC
        if isinstance(f, ast.Attribute) and f.attr == "upper" and not e.args:
            v, tv = self.expr(f.value, env, pre)
            if tv != STR:
                self.fail(e, "upper of a value of type %s" % tv)
            return "str_upper upper_c %s" % _paren(v), STR
        if isinstance(f, ast.Attribute) and f.attr == "join" and len(e.args) == 1:
            s, ts = self.expr(f.value, env, pre)
            v, tv = self.expr(e.args[0], env, pre)
            if (ts, tv) != (STR, STRLIST):
                self.fail(e, "join of %s on %s" % (tv, ts))
            return "str_join %s %s" % (_paren(s), _paren(v)), STR
        if self.is_self_attr(f) and (f.attr in self.done or f.attr == self.spec["py"]):
            self.fail(e, "the call of a translated method is supported as `x = self.f(...)` / `return self.f(...)` only")
        if self.is_self_attr(f) and isinstance(self.defs.get(f.attr), ast.FunctionDef):
            return self.inline_call(e, env, pre)
        self.fail(e, "unsupported call")

    # -------------------------------------------------------------- helper methods, inlined
    def inline_call(self, e, env, pre):
        """self.h(args) for a method h of the class that is not one of SPECS: the body of h is
        translated in place (continuation passing: `return v` hands v to what follows the call;
        an exception goes to the caller's handler).  Restrictions: h takes positional
        parameters only (plain method or @staticmethod), does not print, does not call itself
        or a function being translated, and every path through it ends in `return e`."""
        name = e.func.attr
        fn = self.defs[name]
        if name in self.inlining or name == self.fn.name:
            self.fail(e, "recursive helper method")
        if name in {sp["py"] for sp in SPECS} or name == "print_guess":
            self.fail(e, "unsupported call")
        check_not_rebound(self.tree, self.path, {name})
        static = [d for d in fn.decorator_list if isinstance(d, ast.Name) and d.id == "staticmethod"]
        if len(static) != len(fn.decorator_list):
            self.fail(fn, "helper method with an unsupported decorator")
        a = fn.args
        if a.vararg or a.kwarg or a.kwonlyargs or a.posonlyargs or a.kw_defaults or a.defaults \
                or any(x.annotation is not None for x in a.args) or fn.returns is not None:
            self.fail(fn, "unsupported signature of a helper method")
        params = [x.arg for x in a.args]
        if not static:
            if not params or params[0] != "self":
                self.fail(fn, "the first parameter of a method must be self")
            params = params[1:]
        if e.keywords or len(e.args) != len(params) or any(isinstance(x, ast.Starred) for x in e.args):
            self.fail(e, "a helper method is called with positional arguments only")
        if len(set(params)) != len(params):
            self.fail(fn, "parameters collide")
        args = []
        for x in e.args:
            t, ty = self.expr(x, env, pre)
            if ty not in (STR, INT, BOOL, NODE, PT, STRLIST):
                self.fail(x, "argument of type %s for a helper method" % ty)
            args.append((_paren(t), ty))
            if isinstance(x, ast.Name):
                env.fresh.discard(x.id)
        if self.prints(list(fn.body)):
            self.fail(fn, "a helper method that prints or calls a translated method is not supported")
        kn = self.temp("k")
        rets = []

        def body_text(k, ind):
            outer_fn, self.fn = self.fn, fn
            self.inlining.append(name)
            try:
                henv = Env()
                for n, (_, ty) in zip(params, args):
                    self.check_name(fn, n)
                    henv.types[n] = ty

                def ret(node, text, ty):
                    rets.append(ty)
                    return "%s %s" % (kn, _paren(text))

                def fall(_n, _e):
                    self.fail(fn, "the helper method can end without a return statement")

                hk = K(fall, lambda n, _e: self.fail(n, "continue outside a loop"), ret, k.exc)
                return self.block(desugared_body(fn), henv, hk, ind)
            finally:
                self.inlining.pop()
                self.fn = outer_fn

        # first pass: the type of the result (the text is discarded)
        dummy = K(None, None, None, lambda ex: "Exc %s" % ex)
        body_text(dummy, 0)
        if not rets or len(set(rets)) != 1 or rets[0] not in (STR, INT, BOOL, STRLIST):
            self.fail(fn, "the helper method returns values of type(s) %r" % sorted(set(rets)))
        ty = rets[0]
        t = self.temp("t")
        binders = " ".join("(%s : %s)" % (n, COQ_TYPE[pty]) for n, (_, pty) in zip(params, args))

        def render(k, ind):
            del rets[:]
            text = self.line(ind, "((fun %s %s =>" % (binders, kn))
            text = text.rstrip("\n") + "   (* %d: inlined %s.%s, lines %d-%d *)\n" % (
                e.lineno, CLASS, name, fn.lineno, fn.end_lineno)
            text += _close(body_text(k, ind + 2), ")")
            text += self.line(ind + 1, "%s) (fun %s =>" % (" ".join(a for a, _ in args), t))
            return text

        pre.append((t, render))
        return t, ty

    def method_call(self, e, env, pre):
        """self.f(...) for a translated / opaque f  ->  text of the call (a res value), or None"""
        if not (isinstance(e, ast.Call) and self.is_self_attr(e.func)):
            return None
        name = e.func.attr
        spec = self.spec if name == self.spec["py"] else self.done.get(name)
        if spec is None:
            return None
        params = spec["params"]
        given = {}
        if len(e.args) > len(params):
            self.fail(e, "too many arguments")
        for (n, _), a in zip(params, e.args):
            if isinstance(a, ast.Starred):
                self.fail(e, "unsupported argument")
            given[n] = a
        for kw in e.keywords:
            if kw.arg is None or kw.arg in given or kw.arg not in dict(params):
                self.fail(e, "unsupported keyword argument")
            given[kw.arg] = kw.value
        out = []
        for n, ty in params:
            if n not in given:
                if n in spec.get("defaults", {}):
                    d = spec["defaults"][n]
                    out.append("None" if d is None else ("true" if d is True else "false" if d is False
                                                         else self.const_int(d)))
                    continue
                self.fail(e, "missing argument %r" % n)
            a = given[n]
            if isinstance(a, ast.Constant) and a.value is None and ty == OPTINT:
                out.append("None")
                continue
            t, ta = self.expr(a, env, pre)
            out.append(_paren(self.coerce(a, t, ta, ty)))
            if isinstance(a, ast.Name):
                env.fresh.discard(a.id)
        fuel = ""
        if spec.get("recursive") or spec.get("fuelled"):
            fuel = " fuel'" if name == self.spec["py"] else " fuel"
            if name != self.spec["py"]:
                self.uses_fuel = True
        return "%s%s %s" % (spec["coq"], fuel, " ".join(out))

    # -------------------------------------------------------------- statements
    @staticmethod
    def terminates(stmts):
        if not stmts:
            return False
        s = stmts[-1]
        if isinstance(s, (ast.Return, ast.Continue)):
            return True
        if isinstance(s, ast.If):
            return FunctionTranslator.terminates(s.body) and FunctionTranslator.terminates(s.orelse)
        return False

    def prints(self, stmts):
        for s in stmts:
            for n in ast.walk(s):
                if isinstance(n, ast.Call) and self.is_self_attr(n.func) and \
                        (n.func.attr == "print_guess" or n.func.attr in self.done or n.func.attr == self.spec["py"]):
                    return True
        return False

    def assigned(self, stmts):
        """names (re)bound or mutated somewhere in stmts, in source order of first occurrence"""
        out = []

        def add(n):
            if n not in out:
                out.append(n)

        def target(t):
            if isinstance(t, ast.Name):
                add(t.id)
            elif isinstance(t, ast.Attribute) and self.is_self_attr(t):
                pass          # checked where the statement is translated
            elif isinstance(t, ast.Tuple) and all(isinstance(x, ast.Name) for x in t.elts):
                for x in t.elts:      # accepted as the target of `for i, x in enumerate(...)` only
                    add(x.id)
            else:
                self.fail(t, "unsupported assignment target")

        def visit(n):
            if isinstance(n, ast.Assign):
                for t in n.targets:
                    target(t)
            elif isinstance(n, (ast.AugAssign, ast.AnnAssign)):
                target(n.target)
            elif isinstance(n, ast.For):
                target(n.target)
            elif isinstance(n, (ast.NamedExpr, ast.Delete, ast.Global, ast.Nonlocal, ast.With, ast.Import,
                                ast.ImportFrom, ast.FunctionDef, ast.AsyncFunctionDef, ast.ClassDef, ast.Lambda,
                                ast.ListComp, ast.SetComp, ast.DictComp, ast.GeneratorExp, ast.Try,
                                ast.Yield, ast.YieldFrom, ast.Await, ast.Raise, ast.Assert,
                                ast.AsyncFor, ast.AsyncWith, ast.Starred)):
                self.fail(n, "unsupported construct")
            elif isinstance(n, ast.Call):
                f = n.func
                if isinstance(f, ast.Attribute) and isinstance(f.value, ast.Name) and f.value.id != "self" \
                        and f.attr not in ("upper", "join"):
                    add(f.value.id)       # a method call on a local (append, next_guess): counts as mutation
            for c in ast.iter_child_nodes(n):
                visit(c)

        for s in stmts:
            visit(s)
        return out

    def note(self, s):
        return "(* %d: %s *)" % (s.lineno, _comment(ast.unparse(s).split("\n")[0]))

    def line(self, ind, text, s=None):
        pad = "  " * ind
        if s is None:
            return pad + text + "\n"
        first = pad + text
        return first + " " * max(2, 66 - len(first)) + self.note(s) + "\n"

    def handler(self, k):
        return "(fun e' => %s)" % k.exc("e'")

    def opens(self, pre, k, ind, s=None):
        """the bindx lines of the raising sub-expressions of one statement"""
        out = ""
        for n, (t, text) in enumerate(pre):
            if callable(text):          # an inlined helper method
                out += text(k, ind)
                continue
            out += self.line(ind, "bindx (%s) %s (fun %s =>" % (text, self.handler(k), t), s if n == 0 else None)
        return out

    def wrap(self, pre, text):
        return _close(text, ")" * len(pre)) if pre else text

    def bind(self, node, name, ty, env):
        self.check_name(node, name)
        old = env.types.get(name)
        if old is not None and old != ty and not (old == OPTINT and ty == INT) and not (old == INT and ty == OPTINT):
            self.fail(node, "%r changes its type from %s to %s" % (name, old, ty))
        if old == MC:
            self.fail(node, "the generator object is rebound")
        env.types[name] = ty
        env.fresh.discard(name)

    def block(self, stmts, env, k, ind):
        if not stmts:
            return self.line(ind, k.fall(None, env))
        s, rest = stmts[0], list(stmts[1:])
        if isinstance(s, ast.Expr) and isinstance(s.value, ast.Constant) and type(s.value.value) is str:
            return self.block(rest, env, k, ind)          # docstring
        if isinstance(s, ast.Pass):
            return self.block(rest, env, k, ind)
        if isinstance(s, ast.Return):
            if rest:
                self.fail(rest[0], "statement after return")
            return self.return_(s, env, k, ind)
        if isinstance(s, ast.Continue):
            if rest:
                self.fail(rest[0], "statement after continue")
            return self.line(ind, k.cont(s, env), s)
        if isinstance(s, ast.Assign):
            if rest and isinstance(rest[0], ast.While) and self.next_guess_stmt(s) is not None:
                return self.generator_loop(s, rest[0], rest[1:], env, k, ind)
            return self.assign(s, rest, env, k, ind)
        if isinstance(s, ast.While):
            return self.generator_loop(None, s, rest, env, k, ind)
        if isinstance(s, ast.AugAssign):
            return self.augassign(s, rest, env, k, ind)
        if isinstance(s, ast.Expr):
            return self.effect(s, rest, env, k, ind)
        if isinstance(s, ast.If):
            return self.if_(s, rest, env, k, ind)
        if isinstance(s, ast.For):
            return self.for_(s, rest, env, k, ind)
        self.fail(s, "unsupported statement (%s)" % type(s).__name__)

    def skipped(self, s, rest, env, k, ind):
        return self.line(ind, "(* %d: not modelled, skipped: %s *)" % (s.lineno, _comment(ast.unparse(s).split("\n")[0]))) \
            + self.block(rest, env, k, ind)

    def bound_call(self, s, call_text, pre, k, ind):
        """bindx (call) handler (fun '(out, ret) => let printed := extend printed out in"""
        o, r = self.temp("out"), None
        r = "ret'" + o.split("'")[1]
        text = self.opens(pre, k, ind, s)
        text += self.line(ind, "bindx (%s) %s (fun '(%s, %s) =>" % (call_text, self.handler(k), o, r),
                          None if pre else s)
        text += self.line(ind, "let printed := extend printed %s in" % o)
        return text, r

    def return_(self, s, env, k, ind):
        if s.value is None or (isinstance(s.value, ast.Constant) and s.value.value is None):
            self.fail(s, "return without a value")
        pre = []
        call = self.method_call(s.value, env, pre)
        if call is not None:
            text, r = self.bound_call(s, call, pre, k, ind)
            text += self.line(ind, k.ret(s, r, INT))
            return _close(text, ")" * (len(pre) + 1))
        t, ty = self.expr(s.value, env, pre)
        return self.wrap(pre, self.opens(pre, k, ind, s) + self.line(ind, k.ret(s, t, ty), None if pre else s))

    def assign(self, s, rest, env, k, ind):
        if len(s.targets) != 1:
            self.fail(s, "multiple assignment targets")
        t = s.targets[0]
        if self.is_self_attr(t) and t.attr in GHOST_ATTRS:
            if not isinstance(s.value, ast.Constant):
                self.fail(s, "only constants are stored into the status attributes")
            return self.skipped(s, rest, env, k, ind)
        if not isinstance(t, ast.Name):
            self.fail(s, "unsupported assignment target")
        x = t.id
        if any(self.is_self_attr(n) and n.attr in GHOST_READS for n in ast.walk(s.value)):
            # a value built from the save-file name: not modelled; the local may only be handed to
            # a statement that is skipped as well (m.save_session(x))
            if x in env.types and env.types[x] != GHOST:
                self.fail(s, "%r changes its type from %s to a not-modelled value" % (x, env.types[x]))
            self.check_name(s, x)
            env.types[x] = GHOST
            return self.skipped(s, rest, env, k, ind)
        pre = []
        call = self.method_call(s.value, env, pre)
        if call is not None:
            text, r = self.bound_call(s, call, pre, k, ind)
            self.bind(s, x, INT, env)
            text += self.line(ind, "let %s := %s in" % (x, r))
            return _close(text + self.block(rest, env, k, ind), ")" * (len(pre) + 1))
        if isinstance(s.value, ast.List) and not s.value.elts:
            self.bind(s, x, STRLIST, env)
            env.fresh.add(x)
            return self.line(ind, "let %s := @nil pstr in" % x, s) + self.block(rest, env, k, ind)
        text, ty = self.expr(s.value, env, pre)
        if ty not in (STR, INT, BOOL, NODE, PT, STRLIST, MC):
            self.fail(s, "unsupported value of type %s" % ty)
        if isinstance(s.value, ast.Name):
            env.fresh.discard(s.value.id)         # aliased
        if ty == MC and x in env.types:
            self.fail(s, "the generator object is rebound")
        self.bind(s, x, ty, env)
        out = self.opens(pre, k, ind, s) + self.line(ind, "let %s := %s in" % (x, text), None if pre else s)
        return self.wrap(pre, out + self.block(rest, env, k, ind))

    def augassign(self, s, rest, env, k, ind):
        t = s.target
        if self.is_self_attr(t) and t.attr in GHOST_ATTRS:
            if not isinstance(s.value, ast.Constant):
                self.fail(s, "only constants are added to the status attributes")
            return self.skipped(s, rest, env, k, ind)
        if not isinstance(t, ast.Name):
            self.fail(s, "unsupported assignment target")
        x = t.id
        op = {ast.Add: "Z.add", ast.Sub: "Z.sub"}.get(type(s.op))
        if op is None or env.types.get(x) != INT:
            self.fail(s, "only `x += e` / `x -= e` on ints are supported")
        pre = []
        v, tv = self.expr(s.value, env, pre)
        if tv != INT:
            self.fail(s, "`%s=` by a value of type %s" % ("+" if op == "Z.add" else "-", tv))
        out = self.opens(pre, k, ind, s) + self.line(ind, "let %s := %s %s %s in" % (x, op, x, _paren(v)),
                                                     None if pre else s)
        return self.wrap(pre, out + self.block(rest, env, k, ind))

    def effect(self, s, rest, env, k, ind):
        c = s.value
        if not isinstance(c, ast.Call):
            self.fail(s, "unsupported expression statement")
        f = c.func
        # print(..., file=sys.stderr): not stdout, not modelled
        if isinstance(f, ast.Name) and f.id == "print":
            kws = {kw.arg: kw.value for kw in c.keywords}
            fv = kws.get("file")
            if set(kws) == {"file"} and isinstance(fv, ast.Attribute) and fv.attr == "stderr" \
                    and isinstance(fv.value, ast.Name) and fv.value.id == "sys" \
                    and all(isinstance(a, ast.Constant) for a in c.args):
                return self.skipped(s, rest, env, k, ind)
            self.fail(s, "print is accepted only as print(<constants>, file=sys.stderr)")
        # m.save_session(...) on the generator object: file effect, not modelled
        if isinstance(f, ast.Attribute) and f.attr == "save_session" and isinstance(f.value, ast.Name) \
                and env.types.get(f.value.id) == MC and not c.keywords:
            return self.skipped(s, rest, env, k, ind)
        # self.print_guess(e)
        if self.is_self_attr(f, "print_guess"):
            if len(c.args) != 1 or c.keywords:
                self.fail(s, "print_guess takes one argument")
            pre = []
            t, ty = self.expr(c.args[0], env, pre)
            if ty != STR:
                self.fail(s, "print_guess of a value of type %s" % ty)
            out = self.opens(pre, k, ind, s) + self.line(ind, "let printed := append printed %s in" % _paren(t),
                                                         None if pre else s)
            return self.wrap(pre, out + self.block(rest, env, k, ind))
        # x.append(e) on a fresh list of strs
        if isinstance(f, ast.Attribute) and f.attr == "append" and isinstance(f.value, ast.Name) \
                and len(c.args) == 1 and not c.keywords:
            x = f.value.id
            if env.types.get(x) != STRLIST or x not in env.fresh:
                self.fail(s, "append is supported on a fresh local list (x = []) only")
            pre = []
            t, ty = self.expr(c.args[0], env, pre)
            if ty != STR:
                self.fail(s, "append of a value of type %s" % ty)
            out = self.opens(pre, k, ind, s) + self.line(ind, "let %s := append %s %s in" % (x, x, _paren(t)),
                                                         None if pre else s)
            return self.wrap(pre, out + self.block(rest, env, k, ind))
        self.fail(s, "unsupported call statement")

    def if_(self, s, rest, env, k, ind):
        body, orelse = list(s.body), list(s.orelse)
        bt, et = self.terminates(body), self.terminates(orelse)
        if rest and bt and et:
            self.fail(rest[0], "unreachable statement")
        # what follows the conditional is translated into both branches
        then_stmts = body if bt else body + rest
        else_stmts = orelse if et else orelse + rest
        env_t, env_f = env.copy(), env.copy()
        test = s.test
        negated = isinstance(test, ast.UnaryOp) and isinstance(test.op, ast.Not) \
            and isinstance(test.operand, ast.Name) and env.types.get(test.operand.id) == OPTINT
        if negated or (isinstance(test, ast.Name) and env.types.get(test.id) == OPTINT):
            # `if v:` / `if not v:` on None | int: the branch for an int != 0 gets the int
            v = test.operand.id if negated else test.id
            truthy, falsy = (else_stmts, then_stmts) if negated else (then_stmts, else_stmts)
            env_i, env_n = env.copy(), env.copy()
            env_i.types[v] = INT
            out = self.line(ind, "if_truthy %s (fun %s =>" % (v, v), s)
            if negated:
                out += self.line(ind + 2, "(* %d: else (%s is an int other than 0) *)" % (s.lineno, v))
            out += _close(self.block(truthy, env_i, k, ind + 2), ")")
            out += self.line(ind + 1, "(" + " " * max(2, 66 - 2 * (ind + 1) - 1)
                             + "(* %d: %s (%s is None or 0) *)" % (s.lineno, "then" if negated else "else", v))
            out += _close(self.block(falsy, env_n, k, ind + 2), ")")
            return out
        pre = []
        if isinstance(test, ast.Name) and env.types.get(test.id) == INT:
            c = "negb (Z.eqb %s 0%%Z)" % test.id
        else:
            c, tc = self.expr(test, env, pre)
            if tc != BOOL:
                self.fail(s, "condition of type %s (truthiness of such values is not supported)" % tc)
        out = self.opens(pre, k, ind, s)
        out += self.line(ind, "if %s then" % c, None if pre else s)
        out += self.block(then_stmts, env_t, k, ind + 1)
        out += self.line(ind, "else")
        out += self.block(else_stmts, env_f, k, ind + (0 if bt else 1))
        return self.wrap(pre, out)

    def loop_state(self, node, body, env, extra_skip=()):
        """loop-carried variables: assigned in the body and bound before the loop (`printed` first)"""
        names = [n for n in self.assigned(body) if n in env.types and n not in extra_skip]
        for n in names:
            if env.types[n] == MC:
                self.fail(node, "the generator object is used inside another loop")
        if self.prints(body):
            names = ["printed"] + names
        if not names:
            return [], "tt", "(_ : unit)", {}
        entry = {n: env.types.get(n) for n in names}
        tup = names[0] if len(names) == 1 else "(" + ", ".join(names) + ")"
        pat = tup if len(names) == 1 else "'" + tup
        return names, tup, pat, entry

    def state_now(self, node, names, entry, env):
        """the loop-carried variables as they are now, coerced to their type at loop entry"""
        if not names:
            return "tt"
        vals = []
        for n in names:
            if n == "printed":
                vals.append(n)
                continue
            if n not in env.types:
                self.fail(node, "loop-carried variable %r is not bound here" % n)
            vals.append(self.coerce(node, n, env.types[n], entry[n]))
        return vals[0] if len(vals) == 1 else "(" + ", ".join(vals) + ")"

    def loop(self, s, head, binder, body, rest, env, inner, k, ind, skip=(), prologue=None):
        names, tup, pat, entry = self.loop_state(s, body, env, skip)
        for n in names:
            if n != "printed":
                inner.types[n] = entry[n]

        def cont(node, e):
            return "Continue %s" % _paren(self.state_now(node or s, names, entry, e))

        body_k = K(cont, cont,
                   lambda n, t, ty: "Return (%s)" % k.ret(n, t, ty),
                   lambda e: "Return (%s)" % k.exc(e))
        out = self.line(ind, "%s (fun %s %s =>" % (head, binder, pat), s)
        if prologue:
            out += self.line(ind + 2, prologue)
        out += _close(self.block(body, inner, body_k, ind + 2), ")")
        # after the loop: the carried variables have their entry types; freshness only survives
        # if the body kept it
        for n in list(env.fresh):
            if n not in inner.fresh:
                env.fresh.discard(n)
        out += self.line(ind, "%s (fun %s =>" % (self.state_now(s, names, entry, env), pat))
        out += _close(self.block(rest, env, k, ind), ")")
        return out

    def for_(self, s, rest, env, k, ind):
        if s.orelse:
            self.fail(s, "for ... else")
        it, pos = s.iter, None
        if isinstance(it, ast.Call) and isinstance(it.func, ast.Name) and it.func.id == "enumerate":
            # for pos, x in enumerate(e)
            if len(it.args) != 1 or it.keywords or isinstance(it.args[0], ast.Starred):
                self.fail(s, "enumerate is supported with one argument only")
            if not (isinstance(s.target, ast.Tuple) and len(s.target.elts) == 2
                    and all(isinstance(t, ast.Name) for t in s.target.elts)):
                self.fail(s, "enumerate needs the target `pos, item`")
            pos, x = s.target.elts[0].id, s.target.elts[1].id
            if pos == x:
                self.fail(s, "loop variables collide")
            it = it.args[0]
        elif isinstance(s.target, ast.Name):
            x = s.target.id
        else:
            self.fail(s, "unsupported loop target")
        loop_vars = (x,) if pos is None else (pos, x)
        for v in loop_vars:
            self.check_name(s, v)
        pre = []
        l, tl = self.expr(it, env, pre)        # evaluated once, before the loop
        if tl == STRLIST:
            seq = _paren(l)
        elif tl == STR:
            seq = "(chars %s)" % _paren(l)
        else:
            self.fail(s, "loop over a value of type %s" % tl)
        touched = self.assigned(s.body)
        if isinstance(it, ast.Name) and it.id in touched:
            self.fail(s, "the iterated list is assigned or mutated in the loop")
        inner = env.copy()
        for v in loop_vars:
            if v in env.types:
                self.fail(s, "the loop variable %r is already bound" % v)
            # the loop variables are per iteration; they must not be assigned in the body
            if v in touched:
                self.fail(s, "the loop variable is assigned in the loop")
            inner.fresh.discard(v)
        inner.types[x] = STR
        text = self.opens(pre, k, ind, s)
        if pos is None:
            text += self.loop(s, "for_each %s" % seq, x, list(s.body), rest, env, inner, k, ind, skip=loop_vars)
        else:
            # the position is a Python int: KernelRt.for_enum counts in nat
            inner.types[pos] = INT
            text += self.loop(s, "for_enum %s" % seq, "%s'n %s" % (pos, x), list(s.body), rest, env, inner, k, ind,
                              skip=loop_vars, prologue="let %s := Z.of_nat %s'n in" % (pos, pos))
        return self.wrap(pre, text)

    @staticmethod
    def next_guess_stmt(st):
        """g = m.next_guess()  ->  (g, m), else None"""
        if not (isinstance(st, ast.Assign) and len(st.targets) == 1 and isinstance(st.targets[0], ast.Name)
                and isinstance(st.value, ast.Call) and isinstance(st.value.func, ast.Attribute)
                and st.value.func.attr == "next_guess" and isinstance(st.value.func.value, ast.Name)
                and not st.value.args and not st.value.keywords):
            return None
        return st.targets[0].id, st.value.func.value.id

    def generator_loop(self, a, w, rest, env, k, ind):
        """the two ways of writing `for g in <the strings m still returns>`:
             g = m.next_guess()                  while True:
             while g is not None:                    g = m.next_guess()
                 BODY                                if g is None:
                 g = m.next_guess()                      break
                                                     BODY
        (a is the assignment before the loop, or None for the second form)"""
        def is_none_test(t, g, op):
            return (isinstance(t, ast.Compare) and len(t.ops) == 1 and isinstance(t.ops[0], op)
                    and isinstance(t.left, ast.Name) and t.left.id == g
                    and isinstance(t.comparators[0], ast.Constant) and t.comparators[0].value is None)
        if w.orelse:
            self.fail(w, "while ... else")
        if a is not None:
            first = self.next_guess_stmt(a)
            if first is None:
                self.fail(w, "a while loop is supported only as a loop over a MarkovCracker's next_guess()")
            g, m = first
            if not is_none_test(w.test, g, ast.IsNot):
                self.fail(w, "the loop test must be `%s is not None`" % g)
            if not w.body or self.next_guess_stmt(w.body[-1]) != (g, m):
                self.fail(w, "the last statement of the loop must be `%s = %s.next_guess()`" % (g, m))
            body = list(w.body[:-1])
            may_continue = False       # `continue` would skip the fetch of the next guess
            where = "(* %d, %d, %d: %s = %s.next_guess(); while %s is not None: ...; %s = %s.next_guess() *)" % (
                a.lineno, w.lineno, w.body[-1].lineno, g, m, g, g, m)
        else:
            if not (isinstance(w.test, ast.Constant) and w.test.value is True):
                self.fail(w, "a while loop is supported only as a loop over a MarkovCracker's next_guess()")
            first = self.next_guess_stmt(w.body[0]) if w.body else None
            if first is None or len(w.body) < 2:
                self.fail(w, "`while True:` must start with `g = m.next_guess()` and `if g is None: break`")
            g, m = first
            t = w.body[1]
            if not (isinstance(t, ast.If) and is_none_test(t.test, g, ast.Is) and not t.orelse
                    and len(t.body) == 1 and isinstance(t.body[0], ast.Break)):
                self.fail(t, "`while True:` must start with `g = m.next_guess()` and `if g is None: break`")
            body = list(w.body[2:])
            may_continue = True
            where = "(* %d, %d, %d: while True: %s = %s.next_guess(); if %s is None: break; ... *)" % (
                w.lineno, w.body[0].lineno, t.lineno, g, m, g)
        if env.types.get(m) != MC:
            self.fail(w, "next_guess on a value that is not a MarkovCracker")
        if g in env.types:
            self.fail(w, "the loop variable %r is already bound" % g)
        self.check_name(w, g)
        for st in body:
            for n in ast.walk(st):
                if isinstance(n, (ast.Break, ast.While)) or (isinstance(n, ast.Continue) and not may_continue):
                    self.fail(n, "continue / break / while inside the generator loop")
        if g in self.assigned(body):
            self.fail(w, "the loop variable is assigned in the loop")
        # the generator object may only be used as m.save_session(...) inside the body
        for st in body:
            names = [n for n in ast.walk(st) if isinstance(n, ast.Name) and n.id == m]
            calls = [n for n in ast.walk(st) if isinstance(n, ast.Call) and isinstance(n.func, ast.Attribute)
                     and isinstance(n.func.value, ast.Name) and n.func.value.id == m
                     and n.func.attr == "save_session"]
            if len(names) != len(calls):
                self.fail(st, "the generator object is used inside the loop")
        inner = env.copy()
        inner.types[g] = STR
        text = self.line(ind, where)
        # after the loop the generator is exhausted and g is None: neither may be used
        del env.types[m]
        return text + self.loop(w, "for_each %s" % m, g, body, rest, env, inner, k, ind, skip=(g, m))

    # -------------------------------------------------------------- function
    def translate(self):
        self.check_signature()
        fn, spec = self.fn, self.spec
        env = Env()
        for n, ty in spec["params"]:
            env.types[n] = ty
        ret_ty = spec["ret"]

        def ret(node, text, ty):
            if ty != ret_ty:
                self.fail(node, "returns a value of type %s, the translator expects %s" % (ty, ret_ty))
            return "Ok (printed, %s)" % text

        def fall(_n, _e):
            self.fail(fn, "the function can end without a return statement")

        k = K(fall, lambda n, e: self.fail(n, "continue outside a loop"), ret, lambda e: "Exc %s" % e)
        body = self.line(1, "let printed := @nil pstr in")
        body += self.block(desugared_body(fn), env, k, 1)
        params = " ".join("(%s : %s)" % (n, COQ_TYPE[ty]) for n, ty in spec["params"])
        dump = ast.dump(fn, include_attributes=False)
        sha = hashlib.sha256(dump.encode("utf-8")).hexdigest()
        out = "(* %s  class %s  def %s  lines %d-%d\n   sha256 of ast.dump: %s\n" % (
            self.rel, CLASS, fn.name, fn.lineno, fn.end_lineno, sha)
        out += "   result: Ok (lines given to print_guess, return value) | Exc e.  Defaults: %s.%s *)\n" % (
            ", ".join("%s = %r" % kv for kv in sorted(spec.get("defaults", {}).items())) or "none",
            "\n   [fuel] bounds the depth of the recursion (no counterpart in Python; 0 = OutOfFuel)"
            if (spec.get("recursive") or self.uses_fuel) else "")
        if spec.get("recursive"):
            out += "Fixpoint %s (fuel : nat) %s {struct fuel} : %s :=\n" % (spec["coq"], params, RESULT)
            out += "  match fuel with\n  | O => Exc OutOfFuel\n  | S fuel' =>\n"
            out += _close(body, "\n  end.")
        else:
            out += "Definition %s %s%s : %s :=\n" % (spec["coq"], "(fuel : nat) " if self.uses_fuel else "", params, RESULT)
            out += _close(body, ".")
        spec["fuelled"] = bool(self.uses_fuel and not spec.get("recursive"))
        return out, sha


def check_not_rebound(tree, path, names):
    """a rebinding of one of the names inside this file (assignment in the class body or at module
    level, `self.f = ...`, setattr) would make the translated def not the one that runs; patches
    from other modules are out of the translator's sight"""
    for n in ast.walk(tree):
        if isinstance(n, (ast.Assign, ast.AugAssign, ast.AnnAssign, ast.Delete)):
            targets = n.targets if isinstance(n, (ast.Assign, ast.Delete)) else [n.target]
            # the one accepted rebinding: save_to_file switches the output sink from stdout to the
            # output file (self.print_guess = self.write_guess_to_file); print_guess stays "the output effect"
            if isinstance(n, ast.Assign) and len(targets) == 1 and ast.unparse(targets[0]) == "self.print_guess" \
                    and ast.unparse(n.value) == "self.write_guess_to_file":
                continue
            for t in targets:
                for m in ast.walk(t):
                    if (isinstance(m, ast.Name) and m.id in names) or \
                            (isinstance(m, ast.Attribute) and m.attr in names):
                        raise TranslateError("%s:%d: %s is rebound" % (path, n.lineno, ast.unparse(t)))
        if isinstance(n, ast.Name) and n.id in ("setattr", "delattr", "__dict__"):
            raise TranslateError("%s:%d: %s is used in the module" % (path, n.lineno, n.id))


def render(repo=None):
    """-> text of gen/Expand_gen.v for the sources of the current working tree"""
    repo = repo or common.REPO
    path = os.path.join(repo, SOURCE)
    with open(path, encoding="utf-8", newline="") as f:
        src = f.read()
    tree = ast.parse(src, filename=path)
    classes = [n for n in tree.body if isinstance(n, ast.ClassDef) and n.name == CLASS]
    if len(classes) != 1:
        raise TranslateError("%s: class %s not found exactly once" % (path, CLASS))
    defs = {}
    for n in classes[0].body:
        if isinstance(n, (ast.FunctionDef, ast.AsyncFunctionDef)):
            if n.name in defs:
                raise TranslateError("%s:%d: %s defined twice" % (path, n.lineno, n.name))
            defs[n.name] = n
    names = {s["py"] for s in SPECS} | set(OPAQUE) | {"print_guess", "MarkovCracker"}
    check_not_rebound(tree, path, names)
    for n in ast.walk(tree):
        if isinstance(n, (ast.FunctionDef, ast.AsyncFunctionDef, ast.ClassDef)) and n.name == "MarkovCracker":
            raise TranslateError("%s:%d: MarkovCracker is redefined" % (path, n.lineno))
    imports = [n for n in tree.body if isinstance(n, ast.ImportFrom)
               and any(a.name == "MarkovCracker" or a.asname == "MarkovCracker" for a in n.names)]
    if len(imports) != 1 or imports[0].module != "omen.markov_cracker" or imports[0].level != 1 or \
            not any(a.name == "MarkovCracker" and a.asname is None for a in imports[0].names):
        raise TranslateError("%s: MarkovCracker is not `from .omen.markov_cracker import MarkovCracker`" % path)
    for name in ("print_guess",) + tuple(OPAQUE):
        if not isinstance(defs.get(name), ast.FunctionDef):
            raise TranslateError("%s: %s.%s not found" % (path, CLASS, name))
    parts, done = [], dict(OPAQUE)
    for spec in SPECS:
        spec = dict(spec)
        fn = defs.get(spec["py"])
        if not isinstance(fn, ast.FunctionDef):
            raise TranslateError("%s: %s.%s not found" % (path, CLASS, spec["py"]))
        text, sha = FunctionTranslator(path, SOURCE, fn, spec, done, defs, tree).translate()
        parts.append(text)
        done[spec["py"]] = spec
    head = (
        "(* GENERATED by harness/translate_expand.py from the Python source of the current\n"
        "   working tree (%s, class %s) on every run of a check.  Do not edit.\n"
        "   Each definition is the line-by-line image of one Python function in the subset\n"
        "   documented in the translator; the numbers in the comments are source lines.\n"
        "   theories/ExpandGenProofs.v proves these definitions equal to the hand-written\n"
        "   model of theories/Expand.v. *)\n"
        "From Coq Require Import List Arith ZArith NArith Bool.\n"
        "From Pcfg Require Import KernelRt ExpandRt.\n"
        "Import ListNotations.\n\n"
        "Section ExpandGen.\n"
        "(* what the Python runtime, the loaded grammar and the untranslated callees decide\n"
        "   (see the translator's docstring) *)\n" % (SOURCE, CLASS)) + SECTION_CONTEXT + "\n"
    return head + "\n".join(parts) + "\nEnd ExpandGen.\n"


def failure_text(err):
    """text written instead of the definitions when the translation fails: it must not
    compile, so that no stale generated definition survives"""
    return ("(* GENERATED by harness/translate_expand.py.  The translation of the current sources FAILED:\n"
            "   %s\n   The line below does not type-check on purpose. *)\n"
            "Definition expand_translation_failed : False := I.\n" % _comment(str(err)))


def write(repo=None):
    import extract_consts as X
    path = os.path.join(common.COQ, OUT)
    try:
        text = render(repo)
    except Exception as e:
        X.write(path, failure_text("%s: %s" % (type(e).__name__, e)))
        raise
    return X.write(path, text)


if __name__ == "__main__":
    if "--write" in sys.argv[1:]:
        print("written" if write() else "unchanged", os.path.join(common.COQ, OUT))
    else:
        sys.stdout.write(render())
