#!/venv/bin/python
"""Driver:  ./check Cxx [--tier quick|thorough] [--replay file]

Decision procedure per property (DESIGN.md section 2):
  1. grep gate + full build of the Coq development; the property's theorem
     file Props/Cxx.v must compile (its theorems are the proof obligations).
  2. the property module generates inputs, runs the real code of /repo's
     working tree on them, runs its direct oracle, and has Coq evaluate the
     model on the same inputs (correspondence).
  3. verdict: oracle hits that are not listed known findings -> VIOLATION with
     the concrete input; broken proof / correspondence without an oracle hit
     -> VIOLATION ... no-failing-input-found.
"""
import argparse
import importlib
import json
import os
import re
import sys
import time
import traceback

HERE = os.path.dirname(os.path.abspath(__file__))
sys.path.insert(0, HERE)
import common  # noqa: E402


class Ctx:
    def __init__(self, prop, tier, seed):
        import random
        self.prop = prop
        self.tier = tier
        self.seed = seed
        self.rng = random.Random((seed * 1000003) ^ hash_str(prop))
        self.notes = []
        self.t0 = time.time()

    def scale(self, quick, thorough):
        return thorough if self.tier == "thorough" else quick

    def note(self, s):
        self.notes.append(s)


def hash_str(s):
    h = 0
    for c in s:
        h = (h * 131 + ord(c)) & 0xFFFFFFFF
    return h


def load_known():
    p = os.path.join(common.ROOT, "known_findings.json")
    if not os.path.exists(p):
        return []
    return json.load(open(p))


OUT = os.environ.get("PCFG_OUT", common.ROOT)   # where replays/ and evidence/ go (a scratch dir when a seeded change is evaluated)


def write_replay(prop, tag, data):
    d = os.path.join(OUT, "replays")
    os.makedirs(d, exist_ok=True)
    p = os.path.join(d, "%s_%s.json" % (prop, tag))
    with open(p, "w") as f:
        json.dump(data, f, indent=1, default=str)
    return p


def main():
    ap = argparse.ArgumentParser()
    ap.add_argument("prop")
    ap.add_argument("--tier", default=os.environ.get("VERIF_TIER", "quick"))
    ap.add_argument("--replay", default=None)
    ap.add_argument("--no-build", action="store_true")
    args = ap.parse_args()
    prop = args.prop
    seed = int(os.environ.get("VERIF_SEED", "1"))
    tier = args.tier if args.tier in ("quick", "thorough") else "quick"
    ctx = Ctx(prop, tier, seed)
    mod = importlib.import_module("props." + prop)

    if args.replay:
        data = json.load(open(args.replay))
        vio = mod.replay(ctx, data)
        for v in vio:
            print("VIOLATION property=%s replay=%s" % (prop, args.replay))
            print("  " + v.get("what", ""))
        if not vio:
            print("replay: property holds on this input (or the replay names a broken proof only)")
        sys.exit(1 if vio else 0)

    obligations = []   # (name, ok, detail)
    trusted = []
    broken = []        # names of proof obligations / correspondences that no longer check

    # ---- 1. gate + build
    bad = common.grep_gate()
    obligations.append(("gate:no-admitted-no-axioms", not bad, str(bad[:5])))
    if bad:
        broken.append("gate: forbidden construct %r" % (bad[0],))
    gen_ok, gen_log = True, ""
    try:
        import extract_consts
        extract_consts.main()
        for pl, msg in getattr(extract_consts.main, "errors", {}).items():
            ctx.note("constant extractor plugin %s failed (its constants are absent; dependants will not compile): %s" % (pl, msg))
        if hasattr(mod, "regenerate"):
            mod.regenerate(ctx)
    except Exception:
        gen_ok, gen_log = False, traceback.format_exc()
    obligations.append(("gen:constants-extracted-from-source", gen_ok, gen_log[-2000:]))
    if not gen_ok:
        broken.append("gen: constant extraction from /repo failed")
    props_file = getattr(mod, "PROPS_FILE", "Props/%s.v" % prop)
    if not args.no_build:
        # make -k: a theory file that does not compile only takes down the
        # properties whose theorem file depends on it (their Props file then fails)
        ok, log = common.build()
        if not ok:
            m = re.findall(r'File "\./([^"]+)", line (\d+)', log)
            ctx.note("some theory files do not build: %s" % sorted(set(f for f, _ in m))[:6])
    thms = common.theorem_names(props_file)
    rc, out, err = common.print_assumptions(props_file)
    axioms = common.axioms_from(out)
    for t in thms:
        obligations.append(("theorem:" + t, rc == 0, "" if rc == 0 else err[-1500:]))
    if rc != 0:
        broken.append("theorems of %s do not check: %s" % (props_file, err.strip().split("\n")[0:3]))
    if not thms:
        obligations.append(("theorem:<none>", False, "no theorem file"))
        broken.append("no theorem file for " + prop)

    # ---- 2. property-specific exploration
    # watchdog: the implementation is run in-process; a change that makes it loop for ever must end in a report, not in a hang
    import signal
    budget = int(os.environ.get("VERIF_BUDGET_S", "1200" if tier == "quick" else "7200"))

    class ImplementationHangs(Exception):
        pass

    def on_alarm(signum, frame):
        import traceback as tb
        where = "".join(tb.format_stack(frame)[-6:])
        raise ImplementationHangs("no result after %d s; the main thread was at:\n%s" % (budget, where))
    signal.signal(signal.SIGALRM, on_alarm)
    signal.alarm(budget)
    try:
        res = mod.run(ctx)
        signal.alarm(0)
    except Exception:
        signal.alarm(0)
        tb = traceback.format_exc()
        res = {"evaluations": 0, "distinct_nontrivial": 0, "rule": "", "samples": [],
               "corr": [("harness", False, tb[-3000:])], "violations": [], "dist": {}}
        broken.append("harness crashed: " + tb.strip().split("\n")[-1])
    # corpus of minimised past failures runs too
    cdir = os.path.join(common.ROOT, "corpus", prop)
    ncorpus = 0
    if os.path.isdir(cdir):
        for fn in sorted(os.listdir(cdir)):
            if fn.endswith(".json"):
                try:
                    res.setdefault("violations", []).extend(
                        dict(v, what="[corpus %s] %s" % (fn, v.get("what", ""))) for v in mod.replay(ctx, json.load(open(os.path.join(cdir, fn)))))
                    ncorpus += 1
                except Exception:
                    res.setdefault("corr", []).append(("corpus:" + fn, False, traceback.format_exc()[-800:]))
    res.setdefault("dist", {})["corpus_replayed"] = ncorpus
    for name, ok, detail in res.get("corr", []):
        obligations.append(("corr:" + name, ok, detail))
        if not ok:
            broken.append("correspondence %s: %s" % (name, str(detail)[:300]))

    # ---- 3. verdict
    known = [k for k in load_known() if k.get("property") == prop and k.get("status") == "known"]
    new_vio, known_hits = [], {}
    for v in res.get("violations", []):
        hit = None
        for k in known:
            if re.fullmatch(k["match"], v["sig"]):
                hit = k
                break
        if hit:
            known_hits.setdefault(hit["id"], (hit, []))[1].append(v)
        else:
            new_vio.append(v)

    lines = []
    exit_code = 0
    for kid, (k, vs) in sorted(known_hits.items()):
        lines.append("KNOWN-FINDING: property=%s %s [%s; %d hit(s) this run, e.g. %s]" %
                     (prop, k["what"], kid, len(vs), vs[0].get("what", "")[:160]))
    seen = set()
    for v in new_vio:
        if v["sig"] in seen:
            continue
        seen.add(v["sig"])
        if len(seen) > 5:
            break
        rp = write_replay(prop, "%d_%s" % (len(seen), re.sub(r"[^A-Za-z0-9]+", "_", v["sig"])[:40]),
                          {"property": prop, "seed": seed, "tier": tier, "sig": v["sig"], "what": v.get("what"),
                           "input": v.get("replay"), "broken": broken})
        lines.append("VIOLATION property=%s replay=%s" % (prop, os.path.relpath(rp, OUT)))
        lines.append("  " + v.get("what", "")[:500])
        exit_code = 1
    if broken and not new_vio:
        # a break that is explained by a listed known finding is that finding
        explained = bool(known_hits) and all(b.startswith("correspondence") for b in broken) and \
            res.get("corr_explained_by_known", False)
        if not explained:
            rp = write_replay(prop, "broken", {"property": prop, "seed": seed, "tier": tier,
                                               "broken": broken,
                                               "detail": [o for o in obligations if not o[1]][:10]})
            lines.append("VIOLATION property=%s replay=%s no-failing-input-found" %
                         (prop, os.path.relpath(rp, OUT)))
            for b in broken[:5]:
                lines.append("  no longer checks: " + b[:400])
            exit_code = 1

    # ---- evidence
    n_ob = len(obligations)
    n_ok = sum(1 for o in obligations if o[1])
    ev = {
        "property_id": prop, "tier": tier, "seed": seed, "level": "proof",
        "coverage": {
            "obligations": n_ob, "discharged": n_ok,
            "checker_cmd": "coqc (Coq 8.16.1 kernel, vm_compute) via ./check %s --tier %s" % (prop, tier),
            "trusted_base": [
                "Coq 8.16.1 kernel and vm_compute (no native_compute, no extraction)",
                "axioms reported by Print Assumptions for %s: %s" % (props_file, ", ".join(axioms) or "none (closed under the global context)"),
                "harness: generators, emitters, oracles in /verif/harness (Python)",
            ] + list(getattr(mod, "TRUSTED", [])),
            "obligation_list": [{"name": o[0], "ok": o[1]} for o in obligations],
            "evaluations": int(res.get("evaluations", 0)),
            "distinct_nontrivial": int(res.get("distinct_nontrivial", 0)),
            "rule": res.get("rule", ""),
            "samples": res.get("samples", [])[:5] or ["(none)"],
            "distribution": res.get("dist", {}),
            "known_findings_confirmed": sorted(known_hits.keys()),
        },
        "assumptions": list(getattr(mod, "ASSUMES", [])),
        "wall_s": round(time.time() - ctx.t0, 2),
        "violations": len(seen) + (1 if (broken and not new_vio and exit_code) else 0),
    }
    if ctx.notes:
        ev["coverage"]["notes"] = ctx.notes
    os.makedirs(os.path.join(OUT, "evidence"), exist_ok=True)
    with open(os.path.join(OUT, "evidence", prop + ".json"), "w") as f:
        json.dump(ev, f, indent=1, default=str)

    for l in lines:
        print(l)
    print("%s %s: %d/%d obligations, %d evaluations, %d distinct non-trivial, %.1fs -> %s" %
          (prop, tier, n_ok, n_ob, ev["coverage"]["evaluations"], ev["coverage"]["distinct_nontrivial"],
           ev["wall_s"], "OK" if exit_code == 0 else "VIOLATION"))
    sys.exit(exit_code)


if __name__ == "__main__":
    main()
