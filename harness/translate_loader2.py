#!/venv/bin/python
"""Fail-closed translator of the REMAINING readers of a ruleset from Python to Gallina.

    /venv/bin/python harness/translate_loader2.py            print the generated text
    /venv/bin/python harness/translate_loader2.py --write    write coq/gen/Loader2_gen.v (the OMEN readers) and
                                                             coq/gen/Loader2Grammar_gen.v (the grammar_io modules)

Sources (SPECS):
  lib_guesser/omen/input_file_io.py  _load_config, _load_alphabet, _load_ngrams, _load_length, load_rules
  lib_scorer/omen_scorer.py          OmenScorer._load_omen, OmenScorer.__init__
  lib_scorer/grammar_io.py           _load_from_multiple_files, load_grammar
  lib_guesser/grammar_io.py          _load_config, _load_from_multiple_files, _load_terminals, load_grammar
The functions harness/translate_loader.py already translates (_load_from_file of both
grammar_io modules, _load_base_structures) are CALLED through the fields of the `world`
parameter (Loader2Rt.call_load_from_file ...): the generated files do not depend on
gen/Loader_gen.v; coq/theories/Loader2GrammarFacts.v instantiates the field with the
definition of gen/Loader_gen.v where a theorem needs what that reader guarantees.

The source is only parsed (`ast`), never imported or executed.  The output targets the runtime
coq/theories/Loader2Rt.v (DYNAMICALLY typed Python values `pyval`: the dicts these functions
build get their keys one by one, hold values of different shapes and are indexed by a
parameter) over the control-flow combinators of LoaderRt.v.  Loader2GenProofs.v proves the
generated definitions equal to the hand-written models (TextFile.v, Loader2Model.v) the
theorems of C07 / C10 / C11 / C04 are about.  A change of one of these functions changes the
generated text and the equality proofs are re-checked against it on every run.

Accepted subset (anything else raises TranslateError with file:line):

  functions   module-level `def` and methods of a module-level class, positional parameters
              without defaults, annotations or decorators.  SPECS gives, by POSITION, the
              parameters a function may mutate (its "out parameters"); parameter and local
              names are free.
  statements  x = e;  x op= e (+ - *);  P[k] = e, P.a = e, P[k] op= e, P.a op= e, P.append(e) for a
              path P = a variable followed by subscripts / attributes (read on the way down,
              written back on the way up, in Python's evaluation order);  if / elif / else;
              for x in <file> / range(a, b) / <expression>, with break / continue (no else; no
              `while`);
              try / except C [as n] (no else / finally), nested; bare `raise` in a handler,
              `raise Exception`;  with open(n, 'r'[, encoding=e]) as f / with codecs.open(n, 'r',
              encoding=e[, errors=<constant>]) as f;  return [e];  pass;  docstrings;
              calls of the functions of SPECS / EXTERN as statements;  config.read_file(open(p)),
              config.read(p);  print(...) and traceback.print_exc(...) (DROPPED, see below).
  expressions names;  None, True, False, int and str constants, 1.0 / -1.0 / 0.0;  not, and, or
              (as conditions; lazily);  == != < <= > >= in `not in` `is None` `is not None`;  + - *;
              P[k], P[a:b], P.a;  len, int, float;  s.rstrip / lstrip / strip ([chars]),
              s.split(<constant of one character>);  x.get(k) (section / dict), config.get(s, o),
              config.getint(s, o);  os.path.join(...);  json.loads(e);
              configparser.ConfigParser(), Counter() (an empty dict);  [e, ...], {<str constant>: e,
              ...}, {};  [e for x in a for y in b] (one or two `for`, no `if`);  a tuple display in
              `return a, b, c` only;  calls of the
              functions of SPECS / EXTERN (positional arguments).

Before translation a function is NORMALISED at source level (`normalise`, each rewrite under side conditions
checked there; when one does not hold the source is left as it is and judged by the subset above):
  N1  for x, y in <literal tuple / list of literal tuples of constants> (also through a local bound once to such a
      literal): the body once per row, the loop variables replaced by the constants
  N2  getattr(e, '<identifier>') -> e.<identifier>
  N3  x = [] / {} / Counter(); ...; P = x  ->  later uses of x in that statement list stand for the path P (one object)
  N7  P.update((k, v) for x in it) -> __require_dict__(P); for x in it: P[k] = v
  N8  y = P.setdefault(k, <fresh empty>) -> key = k; __require_dict__(P); if key not in P: P[key] = <fresh>; y stands for P[key]
  N9  T = {k: v for x in it} -> T = {}; for x in it: T[k] = v
  N10 for i, x in enumerate(f, <int constant>): body -> i = <constant>; for x in f: body; i += 1
and the translator itself accepts a chained comparison a op b op' c (b a name / constant) as `a op b and b op' c`,
range(n), and `x = P[k]` / `x = P.a` read from a variable that is mutated elsewhere as a copy GUARDED by
Loader2Rt.dy_scalar (XUnmodelled unless the value is None / bool / int / float / str, for which a copy is exact).

Every value is a Loader2Rt.pyval and every operation checks its operands at run time:
TypeError, KeyError, IndexError, AttributeError, ValueError (int / float), IOError (open),
configparser.Error are values (Loader2Rt.xexn); `except` clauses catch by Python's class
hierarchy (Loader2Rt.x_isa).  XUnmodelled marks an operation the runtime gives no meaning to
(int(float), list * int, `in` on a list, a dict key that is not a str / int, ...): no clause
catches it, so an equality theorem excludes that it happens.
A function returns `XDone (out parameters ..., result)` or `XFail e`.

What the translation does NOT model / trusts:
  * object identity: a mutable value is owned by the variable it is reachable from.  `x = y`,
    `x = P[k]`, `x = P.a` and storing such a read in a container are translated as copies; the
    translator accepts them only when neither x nor the variable the value was read from is
    ever mutated in place in the function (sound for the immutable str / int / float / None
    these sources move around; sharing of a mutable element between two containers is not
    modelled).  Two out arguments of one call must have different roots.
  * when a callee raises, what it did to its out arguments before raising is dropped (the
    handler of the caller sees the value from before the call).  A handler of a `try` whose
    body calls a function of SPECS with out arguments must therefore leave the function
    (return / raise): nothing is claimed about the content of the objects after a failed load.
  * everything printed (print to stderr AND stdout, traceback.print_exc): dropped, including the
    evaluation of the arguments (a name they mention must be a parameter / local of the
    function, nothing more is checked).
  * decoding and line splitting of a file (the oracle of open gives the lines the iteration
    yields or the exception; a decoding error in the middle of a file counts as an error at
    open); closing of files; configparser and json (oracles: Loader2Rt.cfg_oracles);
    config.getint is int(config.get(...)) as in the standard library; a Counter is the dict of
    its entries (reading a missing key of a Counter does not occur in the translated code).
  * rebinding of the translated functions / of the modules and builtins from elsewhere.
"""
import ast
import copy
import hashlib
import os
import sys

HERE = os.path.dirname(os.path.abspath(__file__))
if HERE not in sys.path:
    sys.path.insert(0, HERE)
import common  # noqa: E402
from translate_loader import TranslateError, _close, _paren, _comment, cstr, cint  # noqa: E402

OUT = os.path.join("gen", "Loader2_gen.v")                 # the OMEN readers (guesser and scorer)
OUT_GRAMMAR = os.path.join("gen", "Loader2Grammar_gen.v")  # the grammar_io modules (guesser and scorer)

OMEN_IN = "lib_guesser/omen/input_file_io.py"
OMEN_SC = "lib_scorer/omen_scorer.py"
SC_IO = "lib_scorer/grammar_io.py"
G_IO = "lib_guesser/grammar_io.py"

# out: positions of the parameters the function may mutate
SPECS = [
    dict(source=OMEN_IN, py="_load_config", coq="py_omen_load_config", nparams=3, out=[2]),
    dict(source=OMEN_IN, py="_load_alphabet", coq="py_omen_load_alphabet", nparams=3, out=[2]),
    dict(source=OMEN_IN, py="_load_ngrams", coq="py_omen_load_ngrams", nparams=4, out=[2]),
    dict(source=OMEN_IN, py="_load_length", coq="py_omen_load_length", nparams=5, out=[2]),
    dict(source=OMEN_IN, py="load_rules", coq="py_omen_load_rules", nparams=2, out=[1]),
    dict(source=OMEN_SC, cls="OmenScorer", py="_load_omen", coq="py_omen_scorer_load_omen", nparams=2, out=[0]),
    dict(source=OMEN_SC, cls="OmenScorer", py="__init__", coq="py_omen_scorer_init", nparams=4, out=[0]),
    dict(source=SC_IO, py="_load_from_multiple_files", coq="py_scorer_load_from_multiple_files", nparams=4, out=[0]),
    dict(source=SC_IO, py="load_grammar", coq="py_scorer_load_grammar", nparams=2, out=[0]),
    dict(source=G_IO, py="_load_config", coq="py_load_config", nparams=3, out=[0, 2]),
    dict(source=G_IO, py="_load_from_multiple_files", coq="py_load_from_multiple_files", nparams=4, out=[0]),
    dict(source=G_IO, py="_load_terminals", coq="py_load_terminals", nparams=5, out=[1]),
    dict(source=G_IO, py="load_grammar", coq="py_load_grammar", nparams=6, out=[]),
]

for _s in SPECS:
    _s["group"] = "omen" if _s["source"] in (OMEN_IN, OMEN_SC) else "grammar"
GROUPS = {"omen": OUT, "grammar": OUT_GRAMMAR}

# functions translated elsewhere (harness/translate_loader.py), reached through the world
EXTERN = [
    dict(source=G_IO, py="_load_from_file", call="call_load_from_file (w_load_from_file W)", nparams=3, out=[0]),
    dict(source=G_IO, py="_load_base_structures", call="call_load_base_structures (w_load_base_structures W)",
         nparams=4, out=[0]),
    dict(source=SC_IO, py="_load_from_file", call="call_scorer_load_from_file (w_scorer_load_from_file W)",
         nparams=3, out=[0]),
]

EXC_CLASSES = {
    "Exception": "XC CException", "IOError": "XC CIOError", "OSError": "XC CIOError",
    "EnvironmentError": "XC CIOError", "LookupError": "XC CLookupError", "IndexError": "XC CIndexError",
    "KeyError": "XC CKeyError", "ValueError": "XC CValueError", "ArithmeticError": "XC CArithmeticError",
    "ZeroDivisionError": "XC CZeroDivisionError", "NameError": "XC CNameError",
    "UnboundLocalError": "XC CUnboundLocalError", "UnicodeError": "XC CUnicodeError",
    "UnicodeEncodeError": "XC CUnicodeEncodeError", "TypeError": "CTypeError",
    "AttributeError": "CAttributeError",
}
MODULES = ("os", "sys", "codecs", "configparser", "json", "traceback")
BUILTINS = ("float", "int", "len", "open", "print", "range", "str", "getattr") + tuple(EXC_CLASSES)
MUTATING_METHODS = {"append", "read_file", "read", "insert", "extend", "pop", "remove", "clear", "update", "sort",
                    "reverse", "setdefault", "popitem", "add", "discard", "seek", "write", "close"}


def v_(name):
    return "v_" + name


class Env:
    """what is known at a program point"""

    def __init__(self):
        self.vals = set()    # locals definitely bound to a value
        self.files = set()   # open files
        self.exns = set()    # caught exceptions (only printed)

    def copy(self):
        e = Env()
        e.vals, e.files, e.exns = set(self.vals), set(self.files), set(self.exns)
        return e


class K:
    """the context of a block: what falling off its end, continue, break, return e and an
    exception become"""

    def __init__(self, fall, cont, brk, ret, exc, in_handler=None, frozen=()):
        self.fall, self.cont, self.brk, self.ret, self.exc = fall, cont, brk, ret, exc
        self.in_handler = in_handler     # text of the exception being handled (bare `raise`)
        self.frozen = tuple(frozen)      # roots of the containers enclosing loops iterate over

    def derive(self, **kw):
        d = dict(fall=self.fall, cont=self.cont, brk=self.brk, ret=self.ret, exc=self.exc,
                 in_handler=self.in_handler, frozen=self.frozen)
        d.update(kw)
        return K(**d)


def root_of(t):
    """the variable a subscript / attribute chain is rooted at, or None"""
    while isinstance(t, (ast.Subscript, ast.Attribute)):
        t = t.value
    return t.id if isinstance(t, ast.Name) else None


def is_path(t):
    return root_of(t) is not None and not _has_slice(t)


def _has_slice(t):
    while isinstance(t, (ast.Subscript, ast.Attribute)):
        if isinstance(t, ast.Subscript) and isinstance(t.slice, ast.Slice):
            return True
        t = t.value
    return False



# ---------------------------------------------------------------------------------------------
# Source-level normalisation (before translation).  Each rewrite replaces a statement form by an
# EQUIVALENT one of the accepted subset, under side conditions that are checked here (fail
# closed: when a condition does not hold the source is left as it is and the translator judges it).
#
#  N1  for x, y in <literal tuple / list of literal tuples of constants>: body      (also for x in
#      <literal sequence of constants>, and a local name bound ONCE to such a literal and used
#      nowhere else)  ->  the body once per element, the loop variables replaced by the constants.
#      Conditions: no break / continue directly in the body, the loop variables are not assigned
#      in the body and not used after the loop, no `else`.
#  N2  getattr(e, '<identifier>') with two arguments  ->  e.<identifier>   (getattr is the builtin:
#      the module check refuses modules that mention getattr otherwise - see _module)
#  N3  x = <fresh empty container: [] / {} / Counter()> ... P = x  (P a subscript / attribute path,
#      both in one statement list, x not used in between)  ->  every later use of x in that statement
#      list is replaced by P: x and P name the SAME object from the store on.  Conditions: x is not
#      assigned again and not used outside that statement list, no name occurring in P is assigned
#      later in the list, and P is not stored to again.
class _Subst(ast.NodeTransformer):
    def __init__(self, env):
        self.env = env

    def visit_Name(self, n):
        if isinstance(n.ctx, ast.Load) and n.id in self.env:
            return ast.copy_location(copy.deepcopy(self.env[n.id]), n)
        return n


def _is_const(e):
    return isinstance(e, ast.Constant) and type(e.value) in (str, int, bool, type(None))


def _literal_rows(e, arity):
    """-> list of lists of constant nodes when e is a literal sequence of (tuples of) constants"""
    if not isinstance(e, (ast.Tuple, ast.List)) or not e.elts:
        return None
    rows = []
    for x in e.elts:
        if arity == 0:
            if not _is_const(x):
                return None
            rows.append([x])
        else:
            if not (isinstance(x, ast.Tuple) and len(x.elts) == arity and all(_is_const(c) for c in x.elts)):
                return None
            rows.append(list(x.elts))
    return rows


def _names_stored(nodes):
    out = set()
    for st in nodes:
        for n in ast.walk(st):
            if isinstance(n, ast.Name) and isinstance(n.ctx, (ast.Store, ast.Del)):
                out.add(n.id)
            elif isinstance(n, ast.ExceptHandler) and n.name:
                out.add(n.name)
    return out


def _loads(nodes, name):
    return sum(1 for st in nodes for n in ast.walk(st) if isinstance(n, ast.Name) and n.id == name and isinstance(n.ctx, ast.Load))


def _direct_break(stmts):
    """break / continue that belongs to the loop whose body `stmts` is"""
    for st in stmts:
        if isinstance(st, (ast.Break, ast.Continue)):
            return True
        if isinstance(st, (ast.For, ast.While)):
            if _direct_break(st.orelse):
                return True
            continue
        for field in ("body", "orelse", "finalbody"):
            if _direct_break(getattr(st, field, []) or []):
                return True
        for h in getattr(st, "handlers", []) or []:
            if _direct_break(h.body):
                return True
    return False


def normalise(fn):
    """-> a normalised deep copy of the function definition"""
    fn = copy.deepcopy(fn)

    # ---- N2
    class G(ast.NodeTransformer):
        def visit_Call(self, n):
            self.generic_visit(n)
            if isinstance(n.func, ast.Name) and n.func.id == "getattr" and len(n.args) == 2 and not n.keywords \
                    and isinstance(n.args[1], ast.Constant) and type(n.args[1].value) is str and n.args[1].value.isidentifier():
                return ast.copy_location(ast.Attribute(value=n.args[0], attr=n.args[1].value, ctx=ast.Load()), n)
            return n

    def all_stmt_lists(node):
        for n in ast.walk(node):
            for field in ("body", "orelse", "finalbody"):
                l = getattr(n, field, None)
                if isinstance(l, list) and l and isinstance(l[0], ast.stmt):
                    yield l
            if isinstance(n, ast.Try):
                for h in n.handlers:
                    yield h.body

    # ---- N1: literal rows reachable through a local bound once
    def once_bound_literal(name):
        binds = [n for n in ast.walk(fn) if isinstance(n, ast.Assign) and any(
            isinstance(m, ast.Name) and m.id == name for t in n.targets for m in ast.walk(t))]
        if len(binds) != 1 or len(binds[0].targets) != 1 or not isinstance(binds[0].targets[0], ast.Name):
            return None
        if name in {a.arg for a in fn.args.args}:
            return None
        stores = sum(1 for n in ast.walk(fn) if isinstance(n, ast.Name) and n.id == name and not isinstance(n.ctx, ast.Load))
        if stores != 1 or _loads([fn], name) != 1:
            return None
        return binds[0]

    changed = True
    while changed:
        changed = False
        for lst in all_stmt_lists(fn):
            for i, st in enumerate(lst):
                if not isinstance(st, ast.For) or st.orelse:
                    continue
                tgt = st.target
                if isinstance(tgt, ast.Name):
                    names, arity = [tgt.id], 0
                elif isinstance(tgt, ast.Tuple) and all(isinstance(x, ast.Name) for x in tgt.elts):
                    names, arity = [x.id for x in tgt.elts], len(tgt.elts)
                else:
                    continue
                it, binder = st.iter, None
                if isinstance(it, ast.Name):
                    binder = once_bound_literal(it.id)
                    if binder is None:
                        continue
                    it = binder.value
                rows = _literal_rows(it, arity)
                if rows is None or len(set(names)) != len(names):
                    continue
                if _direct_break(st.body) or set(names) & _names_stored(st.body):
                    continue
                # the loop variables must not be read after the loop (they would hold the last row)
                total = sum(_loads([fn], nm) for nm in names)
                inside = sum(_loads(st.body, nm) for nm in names)
                if total != inside:
                    continue
                new = []
                for row in rows:
                    env = dict(zip(names, row))
                    for b in st.body:
                        new.append(ast.fix_missing_locations(_Subst(env).visit(copy.deepcopy(b))))
                lst[i:i + 1] = new
                if binder is not None:
                    for l2 in all_stmt_lists(fn):
                        if binder in l2:
                            l2.remove(binder)
                            break
                changed = True
                break
            if changed:
                break
    fn = ast.fix_missing_locations(G().visit(fn))

    def fresh_empty(v):
        return (isinstance(v, ast.List) and not v.elts) or (isinstance(v, ast.Dict) and not v.keys) or \
            (isinstance(v, ast.Call) and isinstance(v.func, ast.Name) and v.func.id == "Counter" and not v.args and not v.keywords)


    # ---- N7  P.update((k, v) for x in it)  ->  __require_dict__(P); for x in it: P[k] = v
    # ---- N8  y = P.setdefault(k, <fresh empty>)  ->  _sdN = k; __require_dict__(P); if _sdN not in P: P[_sdN] = <fresh>;
    #          and y stands for P[_sdN] in the rest of the statement list (conditions as for N3)
    # ---- N9  T = {k: v for x in it}  ->  T = {}; for x in it: T[k] = v        (T a name or a path)
    # ---- N10 for i, x in enumerate(f, <int constant>): body  ->  i = <constant>; for x in f: body; i += 1
    #          (no direct `continue` in the body, i not assigned in the body, i not read after the loop)
    counter = [0]

    def load(e):
        e = copy.deepcopy(e)
        for n in ast.walk(e):
            if hasattr(n, "ctx"):
                n.ctx = ast.Load()
        return e

    def store(e):
        e = load(e)
        e.ctx = ast.Store()
        return e

    def req(pth, at):
        return ast.copy_location(ast.Expr(value=ast.Call(func=ast.Name(id="__require_dict__", ctx=ast.Load()), args=[load(pth)], keywords=[])), at)

    def simple_path(e):
        return root_of(e) is not None and not _has_slice(e)

    def direct_continue(stmts):
        for st in stmts:
            if isinstance(st, ast.Continue):
                return True
            if isinstance(st, (ast.For, ast.While)):
                continue
            for field in ("body", "orelse", "finalbody"):
                if direct_continue(getattr(st, field, []) or []):
                    return True
            for h in getattr(st, "handlers", []) or []:
                if direct_continue(h.body):
                    return True
        return False

    again = True
    while again:
        again = False
        for lst in all_stmt_lists(fn):
            for i, st in enumerate(lst):
                new = None
                # N7
                if isinstance(st, ast.Expr) and isinstance(st.value, ast.Call) and isinstance(st.value.func, ast.Attribute) \
                        and st.value.func.attr == "update" and simple_path(st.value.func.value) and len(st.value.args) == 1 \
                        and not st.value.keywords and isinstance(st.value.args[0], ast.GeneratorExp):
                    g = st.value.args[0]
                    if len(g.generators) == 1 and not g.generators[0].ifs and isinstance(g.generators[0].target, ast.Name) \
                            and isinstance(g.elt, ast.Tuple) and len(g.elt.elts) == 2:
                        pth = st.value.func.value
                        counter[0] += 1
                        gv = "gen_var%d" % counter[0]      # the generator's variable lives in its own scope
                        if any(isinstance(n, ast.Name) and n.id == gv for n in ast.walk(fn)):
                            continue
                        ren = _Subst({g.generators[0].target.id: ast.Name(id=gv, ctx=ast.Load())})
                        tgt = ast.Subscript(value=load(pth), slice=ren.visit(copy.deepcopy(g.elt.elts[0])), ctx=ast.Store())
                        loop = ast.For(target=ast.Name(id=gv, ctx=ast.Store()), iter=g.generators[0].iter,
                                       body=[ast.Assign(targets=[tgt], value=ren.visit(copy.deepcopy(g.elt.elts[1])))], orelse=[])
                        new = [req(pth, st), ast.copy_location(loop, st)]
                # N9
                elif isinstance(st, ast.Assign) and len(st.targets) == 1 and isinstance(st.value, ast.DictComp) \
                        and (isinstance(st.targets[0], ast.Name) or simple_path(st.targets[0])):
                    g = st.value
                    if len(g.generators) == 1 and not g.generators[0].ifs and isinstance(g.generators[0].target, ast.Name) \
                            and not _loads([g], root_of(st.targets[0])):
                        counter[0] += 1
                        gv = "gen_var%d" % counter[0]      # the comprehension's variable lives in its own scope
                        if any(isinstance(n, ast.Name) and n.id == gv for n in ast.walk(fn)):
                            continue
                        ren = _Subst({g.generators[0].target.id: ast.Name(id=gv, ctx=ast.Load())})
                        tgt = ast.Subscript(value=load(st.targets[0]), slice=ren.visit(copy.deepcopy(g.key)), ctx=ast.Store())
                        loop = ast.For(target=ast.Name(id=gv, ctx=ast.Store()), iter=g.generators[0].iter,
                                       body=[ast.Assign(targets=[tgt], value=ren.visit(copy.deepcopy(g.value)))], orelse=[])
                        new = [ast.copy_location(ast.Assign(targets=[st.targets[0]], value=ast.Dict(keys=[], values=[])), st),
                               ast.copy_location(loop, st)]
                # N10
                elif isinstance(st, ast.For) and not st.orelse and isinstance(st.target, ast.Tuple) and len(st.target.elts) == 2 \
                        and all(isinstance(x, ast.Name) for x in st.target.elts) and isinstance(st.iter, ast.Call) \
                        and isinstance(st.iter.func, ast.Name) and st.iter.func.id == "enumerate" and not st.iter.keywords \
                        and len(st.iter.args) in (1, 2) and (len(st.iter.args) == 1 or (
                            isinstance(st.iter.args[1], ast.Constant) and type(st.iter.args[1].value) is int)):
                    ix, xv = st.target.elts[0].id, st.target.elts[1].id
                    start = st.iter.args[1].value if len(st.iter.args) == 2 else 0
                    if ix != xv and ix not in _names_stored(st.body) and not direct_continue(st.body) \
                            and _loads([fn], ix) == _loads(st.body, ix) and ix not in {a.arg for a in fn.args.args}:
                        init = ast.Assign(targets=[ast.Name(id=ix, ctx=ast.Store())], value=ast.Constant(value=start))
                        inc = ast.AugAssign(target=ast.Name(id=ix, ctx=ast.Store()), op=ast.Add(), value=ast.Constant(value=1))
                        loop = ast.For(target=ast.Name(id=xv, ctx=ast.Store()), iter=st.iter.args[0], body=list(st.body) + [inc], orelse=[])
                        new = [ast.copy_location(init, st), ast.copy_location(loop, st)]
                        ast.copy_location(inc, st)
                # N8
                elif isinstance(st, ast.Assign) and len(st.targets) == 1 and isinstance(st.targets[0], ast.Name) \
                        and isinstance(st.value, ast.Call) and isinstance(st.value.func, ast.Attribute) \
                        and st.value.func.attr == "setdefault" and simple_path(st.value.func.value) and len(st.value.args) == 2 \
                        and not st.value.keywords and fresh_empty(st.value.args[1]):
                    y, pth = st.targets[0].id, st.value.func.value
                    rest = lst[i + 1:]
                    pnames = {n.id for n in ast.walk(pth) if isinstance(n, ast.Name)}
                    stores_y = sum(1 for n in ast.walk(fn) if isinstance(n, ast.Name) and n.id == y and not isinstance(n.ctx, ast.Load))
                    if y not in pnames and not ((pnames | {y}) & _names_stored(rest)) and stores_y == 1 \
                            and _loads([fn], y) == _loads(rest, y) and y not in {a.arg for a in fn.args.args}:
                        counter[0] += 1
                        kn = "sd_key%d" % counter[0]
                        if any(isinstance(n, ast.Name) and n.id == kn for n in ast.walk(fn)):
                            continue
                        elem = ast.Subscript(value=load(pth), slice=ast.Name(id=kn, ctx=ast.Load()), ctx=ast.Load())
                        test = ast.Compare(left=ast.Name(id=kn, ctx=ast.Load()), ops=[ast.NotIn()], comparators=[load(pth)])
                        new = [ast.copy_location(ast.Assign(targets=[ast.Name(id=kn, ctx=ast.Store())], value=st.value.args[0]), st),
                               req(pth, st),
                               ast.copy_location(ast.If(test=test, body=[ast.Assign(targets=[store(elem)], value=st.value.args[1])], orelse=[]), st)]
                        for k2 in range(i + 1, len(lst)):
                            lst[k2] = ast.fix_missing_locations(_Subst({y: elem}).visit(lst[k2]))
                if new is not None:
                    lst[i:i + 1] = [ast.fix_missing_locations(x) for x in new]
                    again = True
                    break
            if again:
                break

    # ---- N3
    for lst in list(all_stmt_lists(fn)):
        i = 0
        while i < len(lst):
            st = lst[i]
            i += 1
            if not (isinstance(st, ast.Assign) and len(st.targets) == 1 and isinstance(st.targets[0], ast.Name) and fresh_empty(st.value)):
                continue
            x = st.targets[0].id
            if x in {a.arg for a in fn.args.args}:
                continue
            # the store P = x, later in the same list, x untouched in between
            j = None
            for k in range(i, len(lst)):
                s2 = lst[k]
                if isinstance(s2, ast.Assign) and len(s2.targets) == 1 and isinstance(s2.value, ast.Name) and s2.value.id == x \
                        and isinstance(s2.targets[0], (ast.Subscript, ast.Attribute)) and root_of(s2.targets[0]) is not None \
                        and not _has_slice(s2.targets[0]):
                    j = k
                    break
                if _loads([s2], x) or x in _names_stored([s2]):
                    break
            if j is None:
                continue
            path = lst[j].targets[0]
            rest = lst[j + 1:]
            if not _loads(rest, x):
                continue
            pnames = {n.id for n in ast.walk(path) if isinstance(n, ast.Name)}
            if x in pnames or (pnames | {x}) & _names_stored(rest):
                continue
            # x is used in this statement list only (it is rebound before any other use elsewhere: a loop body)
            if _loads([fn], x) != _loads(rest, x) + 1:
                continue
            stores_x = sum(1 for n in ast.walk(fn) if isinstance(n, ast.Name) and n.id == x and not isinstance(n.ctx, ast.Load))
            if stores_x != 1:
                continue
            # P is not stored to again
            pdump = ast.dump(path).replace("Store()", "Load()")
            again = any(isinstance(n, (ast.Assign, ast.AugAssign)) and any(
                ast.dump(t).replace("Store()", "Load()") == pdump for t in (n.targets if isinstance(n, ast.Assign) else [n.target]))
                for s3 in rest for n in ast.walk(s3))
            if again:
                continue
            load_path = copy.deepcopy(path)
            for n in ast.walk(load_path):
                if hasattr(n, "ctx"):
                    n.ctx = ast.Load()
            for k in range(j + 1, len(lst)):
                lst[k] = ast.fix_missing_locations(_Subst({x: load_path}).visit(lst[k]))
    return fn


class FunctionTranslator:
    def __init__(self, path, fn, spec, module):
        self.path, self.fn, self.spec, self.module = path, fn, spec, module
        self.uid = 0

    # -------------------------------------------------------------- errors / names
    def fail(self, node, msg):
        raise TranslateError("%s:%d: %s: %s  [%s]" % (
            self.path, getattr(node, "lineno", self.fn.lineno), self.fn.name, msg,
            _comment(ast.unparse(node)).split("\n")[0][:100]))

    def fresh(self, prefix="t"):
        self.uid += 1
        return "%s%d" % (prefix, self.uid)

    def check_name(self, node, name):
        if not name.isidentifier() or not name.isascii():
            self.fail(node, "unsupported variable name %r" % name)

    # -------------------------------------------------------------- callees
    def callee(self, f):
        """-> the SPECS / EXTERN entry a call of f reaches, with the text of the receiver for a
        method (or None)"""
        if isinstance(f, ast.Name) and f.id not in self.locals:
            for s in SPECS + EXTERN:
                if s["source"] == self.spec["source"] and s["py"] == f.id and "cls" not in s:
                    return s, None
        if isinstance(f, ast.Attribute) and isinstance(f.value, ast.Name) and "cls" in self.spec \
                and f.value.id == self.params[0]:
            for s in SPECS:
                if s["source"] == self.spec["source"] and s.get("cls") == self.spec["cls"] and s["py"] == f.attr:
                    return s, f.value
        return None, None

    # -------------------------------------------------------------- pre-pass
    def scan(self):
        fn = self.fn
        a = fn.args
        if fn.decorator_list or a.vararg or a.kwarg or a.kwonlyargs or a.posonlyargs or a.kw_defaults or a.defaults:
            self.fail(fn, "unsupported signature")
        if any(x.annotation is not None for x in a.args) or fn.returns is not None:
            self.fail(fn, "annotations are not supported")
        if len(a.args) != self.spec["nparams"]:
            self.fail(fn, "%d parameters, the translator knows %d" % (len(a.args), self.spec["nparams"]))
        self.params = [x.arg for x in a.args]
        if len(set(self.params)) != len(self.params):
            self.fail(fn, "duplicate parameter")
        for n in self.params:
            self.check_name(fn, n)
        binders = set(self.params)

        def target(t):
            if isinstance(t, ast.Name):
                binders.add(t.id)
            elif isinstance(t, (ast.Tuple, ast.List)):
                for x in t.elts:
                    target(x)

        for n in ast.walk(fn):
            if n is fn:
                continue
            if isinstance(n, (ast.FunctionDef, ast.AsyncFunctionDef, ast.ClassDef, ast.Lambda, ast.SetComp,
                              ast.DictComp, ast.GeneratorExp, ast.Global, ast.Nonlocal, ast.Import, ast.ImportFrom,
                              ast.NamedExpr, ast.Delete, ast.AsyncFor, ast.AsyncWith, ast.Await, ast.Yield,
                              ast.YieldFrom, ast.Starred, ast.AnnAssign, ast.Assert, ast.While, ast.IfExp)):
                self.fail(n, "unsupported construct (%s)" % type(n).__name__)
            if hasattr(ast, "Match") and isinstance(n, ast.Match):
                self.fail(n, "unsupported construct (match)")
            if isinstance(n, ast.Assign):
                for t in n.targets:
                    target(t)
            elif isinstance(n, ast.AugAssign):
                target(n.target)
            elif isinstance(n, ast.For):
                target(n.target)
            elif isinstance(n, ast.comprehension):
                target(n.target)
            elif isinstance(n, ast.With):
                for it in n.items:
                    if it.optional_vars is not None:
                        target(it.optional_vars)
            elif isinstance(n, ast.ExceptHandler) and n.name:
                binders.add(n.name)
        self.locals = binders
        self.scalar_copies = set()
        # roots of in-place mutations anywhere in the function
        self.mutated = set()
        for n in ast.walk(fn):
            for r in self.mutation_roots(n):
                self.mutated.add(r)
        for i, p in enumerate(self.params):
            if p in self.mutated and i not in self.spec["out"]:
                self.fail(fn, "the parameter %r is mutated but SPECS does not list it as an out parameter" % p)
        # variables that are (possible) aliases of a part of another variable: x = <read of r>
        for n in ast.walk(fn):
            if isinstance(n, ast.Assign) and len(n.targets) == 1 and isinstance(n.targets[0], ast.Name):
                self.check_read_copy(n, n.value, n.targets[0].id)

    def mutation_roots(self, n):
        """roots of the in-place mutations the node itself performs"""
        out = []
        if isinstance(n, ast.Assign):
            for t in n.targets:
                if isinstance(t, (ast.Subscript, ast.Attribute)):
                    out.append(root_of(t))
        elif isinstance(n, ast.AugAssign):
            if isinstance(n.target, (ast.Subscript, ast.Attribute)):
                out.append(root_of(n.target))
        elif isinstance(n, ast.Call):
            f = n.func
            if isinstance(f, ast.Attribute) and f.attr in MUTATING_METHODS:
                out.append(root_of(f.value))
            spec, recv = self.callee(f) if hasattr(self, "locals") else (None, None)
            if spec is not None:
                args = ([recv] if recv is not None else []) + list(n.args)
                for i in spec["out"]:
                    if i < len(args):
                        out.append(root_of(args[i]))
        return [r for r in out if r is not None]

    def is_read(self, e):
        """an expression whose value may be (a part of) the value of another variable"""
        return isinstance(e, (ast.Name, ast.Attribute)) or \
            (isinstance(e, ast.Subscript) and not isinstance(e.slice, ast.Slice))

    def check_read_copy(self, node, e, holder):
        """e is stored under the name `holder` (holder = None: in a container / returned):
        translated as a copy.  Refused when the variable it is read from is mutated in place in
        this function, or when a second NAME of the value is"""
        if isinstance(e, (ast.List, ast.Tuple)):
            for x in e.elts:
                self.check_read_copy(node, x, None)
            return
        if isinstance(e, ast.Dict):
            for x in e.values:
                self.check_read_copy(node, x, None)
            return
        if not self.is_read(e):
            return
        r = root_of(e)
        if r is None:
            return
        if r in self.mutated:
            if holder is not None and holder != r and holder not in self.mutated and isinstance(node, ast.Assign) \
                    and len(node.targets) == 1 and isinstance(node.targets[0], ast.Name) and node.value is e \
                    and not isinstance(e, ast.Name):
                self.scalar_copies.add(id(node))     # translated with a run-time test that the value is immutable
                return
            self.fail(node, "a value read from %r is given a second name / stored, and %r is mutated in place in this "
                            "function (aliasing is not modelled)" % (r, r))
        if holder is not None and holder != r and holder in self.mutated:
            self.fail(node, "%r is a second name of (a part of) %r and is mutated in place (aliasing is not modelled)"
                      % (holder, r))

    def assigned(self, stmts, env):
        """names bound before that are rebound or mutated somewhere in stmts, in order of first
        occurrence"""
        out = []

        def add(name):
            if name is not None and name not in out:
                out.append(name)

        def target(t):
            if isinstance(t, ast.Name):
                add(t.id)
            elif isinstance(t, (ast.Subscript, ast.Attribute)):
                add(root_of(t))
            elif isinstance(t, (ast.Tuple, ast.List)):
                for x in t.elts:
                    target(x)

        for s in stmts:
            for n in ast.walk(s):
                if isinstance(n, ast.Assign):
                    for t in n.targets:
                        target(t)
                elif isinstance(n, ast.AugAssign):
                    target(n.target)
                elif isinstance(n, ast.For):
                    target(n.target)
                elif isinstance(n, ast.With):
                    for it in n.items:
                        if it.optional_vars is not None:
                            target(it.optional_vars)
                elif isinstance(n, ast.ExceptHandler) and n.name:
                    add(n.name)
                for r in self.mutation_roots(n):
                    add(r)
        return [n for n in out if n in env.vals]

    # -------------------------------------------------------------- expressions
    # expr -> (steps, text).  A step is (pattern, outcome text, rebinds): evaluate the outcome
    # (it can raise: handler of the context), bind the pattern; `rebinds` = it rebinds a Python
    # variable (a call with out arguments).  The text is a pure pyval given the steps.

    def is_attr_chain(self, f, names):
        for n in reversed(names[1:]):
            if not (isinstance(f, ast.Attribute) and f.attr == n):
                return False
            f = f.value
        return isinstance(f, ast.Name) and f.id == names[0] and f.id not in self.locals

    def is_global(self, f, name):
        return isinstance(f, ast.Name) and f.id == name and name not in self.locals

    def inline(self, steps, final):
        """the outcome text: run the steps, then `final` (an outcome text)"""
        text = final
        for pat, out, rebinds in reversed(steps):
            if rebinds:
                raise TranslateError("a call with out arguments in a lazily evaluated / nested position")
            text = "xthen (%s) (fun %s => %s)" % (out, pat, text)
        return text

    def expr(self, e, env):
        if isinstance(e, ast.Name):
            n = e.id
            if n in env.vals:
                return [], v_(n)
            if n in env.files or n in env.exns:
                self.fail(e, "a file / caught exception is used as a value")
            if n in self.locals:
                self.fail(e, "the local %r may be unbound here (not assigned on every path)" % n)
            self.fail(e, "unsupported use of the global name %r" % n)
        if isinstance(e, ast.Constant):
            v = e.value
            if v is None:
                return [], "VNone"
            if v is True:
                return [], "(VBool true)"
            if v is False:
                return [], "(VBool false)"
            if type(v) is str:
                return [], "(VStr %s)" % _paren(cstr(v))
            if type(v) is int:
                return [], "(VInt %s)" % _paren(cint(v))
            if type(v) is float:
                return [], "(VFloat %s)" % _paren(self.float_lit(e, v))
            self.fail(e, "unsupported constant")
        if isinstance(e, ast.UnaryOp):
            if isinstance(e.op, ast.USub) and isinstance(e.operand, ast.Constant) and type(e.operand.value) in (int, float):
                v = -e.operand.value
                if type(v) is int:
                    return [], "(VInt %s)" % _paren(cint(v))
                return [], "(VFloat %s)" % _paren(self.float_lit(e, v))
            if isinstance(e.op, ast.Not):
                st, c = self.cond(e, env)
                return st, "(VBool %s)" % _paren(c)
            self.fail(e, "unsupported unary operator")
        if isinstance(e, ast.Compare):
            st, c = self.cond(e, env)
            return st, "(VBool %s)" % _paren(c)
        if isinstance(e, ast.BoolOp):
            self.fail(e, "`and` / `or` as a value (supported as a condition only)")
        if isinstance(e, ast.BinOp):
            f = {ast.Add: "dy_add", ast.Sub: "dy_sub", ast.Mult: "dy_mul"}.get(type(e.op))
            if f is None:
                self.fail(e, "unsupported operator")
            s1, a = self.expr(e.left, env)
            s2, b = self.expr(e.right, env)
            t = self.fresh()
            return s1 + s2 + [(t, "%s %s %s" % (f, _paren(a), _paren(b)), False)], t
        if isinstance(e, ast.Subscript):
            s1, c = self.expr(e.value, env)
            if isinstance(e.slice, ast.Slice):
                if e.slice.step is not None:
                    self.fail(e, "slice with a step")
                steps, bounds = list(s1), []
                for b in (e.slice.lower, e.slice.upper):
                    if b is None:
                        bounds.append("None")
                    else:
                        st, t = self.expr(b, env)
                        steps += st
                        bounds.append("(Some %s)" % _paren(t))
                t = self.fresh()
                return steps + [(t, "dy_slice %s %s %s" % (_paren(c), bounds[0], bounds[1]), False)], t
            s2, k = self.expr(e.slice, env)
            t = self.fresh()
            return s1 + s2 + [(t, "dy_getitem (w_cfg W) %s %s" % (_paren(c), _paren(k)), False)], t
        if isinstance(e, ast.Attribute):
            if root_of(e) is not None and root_of(e) not in self.locals:
                self.fail(e, "unsupported use of the global name %r" % root_of(e))
            s1, o = self.expr(e.value, env)
            t = self.fresh()
            return s1 + [(t, "dy_getattr %s %s" % (_paren(o), _paren(cstr(e.attr))), False)], t
        if isinstance(e, ast.List):
            steps, parts = [], []
            for x in e.elts:
                self.check_read_copy(e, x, None)
                st, t = self.expr(x, env)
                steps += st
                parts.append(t)
            return steps, "(VList [%s])" % "; ".join(parts) if parts else "(VList [])"
        if isinstance(e, ast.Dict):
            steps, parts, seen = [], [], set()
            for k, v in zip(e.keys, e.values):
                if not (isinstance(k, ast.Constant) and type(k.value) is str) or k.value in seen:
                    self.fail(e, "a dict display must have distinct str constants as keys")
                seen.add(k.value)
                self.check_read_copy(e, v, None)
                st, t = self.expr(v, env)
                steps += st
                parts.append("(VStr %s, %s)" % (_paren(cstr(k.value)), t))
            return steps, "(VDict [%s])" % "; ".join(parts) if parts else "(VDict [])"
        if isinstance(e, ast.ListComp):
            return self.listcomp(e, env)
        if isinstance(e, ast.Call):
            return self.call(e, env)
        self.fail(e, "unsupported expression (%s)" % type(e).__name__)

    def float_lit(self, e, v):
        import math
        if v == 1.0:
            return "f_one fo"
        if v == -1.0:
            return "f_mone fo"
        if v == 0.0 and math.copysign(1.0, v) > 0:
            return "f_zero fo"
        self.fail(e, "float constants other than 1.0, -1.0, 0.0 are not supported")

    def cond(self, e, env):
        """-> (steps, text of a bool)"""
        if isinstance(e, ast.UnaryOp) and isinstance(e.op, ast.Not):
            st, c = self.cond(e.operand, env)
            return st, "negb %s" % _paren(c)
        if isinstance(e, ast.BoolOp):
            is_or = isinstance(e.op, ast.Or)
            steps, acc = self.cond(e.values[-1], env)
            acc_out = None
            # right to left: a or (b or c); operands after the first are evaluated lazily
            for v in reversed(e.values[:-1]):
                rest = self.inline(steps, "XDone %s" % _paren(acc)) if acc_out is None else acc_out
                st, c = self.cond(v, env)
                t = self.fresh()
                lazy = "if %s then XDone true else %s" % (c, rest) if is_or else "if %s then %s else XDone false" % (c, rest)
                steps, acc, acc_out = st + [(t, lazy, False)], t, None
            return steps, acc
        if isinstance(e, ast.Compare) and len(e.ops) == 2:
            # a op b op' c with b a name or a constant (evaluated once either way): a op b and b op' c
            mid = e.comparators[0]
            if not (isinstance(mid, ast.Name) or _is_const(mid)):
                self.fail(e, "chained comparison whose middle operand is not a name / constant")
            left = ast.copy_location(ast.Compare(left=e.left, ops=[e.ops[0]], comparators=[mid]), e)
            right = ast.copy_location(ast.Compare(left=copy.deepcopy(mid), ops=[e.ops[1]], comparators=[e.comparators[1]]), e)
            return self.cond(ast.copy_location(ast.BoolOp(op=ast.And(), values=[left, right]), e), env)
        if isinstance(e, ast.Compare):
            if len(e.ops) != 1:
                self.fail(e, "chained comparison")
            op = type(e.ops[0])
            right = e.comparators[0]
            if op in (ast.Is, ast.IsNot):
                if not (isinstance(right, ast.Constant) and right.value is None):
                    self.fail(e, "`is` is supported against None only")
                st, a = self.expr(e.left, env)
                c = "is_none %s" % _paren(a)
                return st, c if op is ast.Is else "negb (%s)" % c
            s1, a = self.expr(e.left, env)
            s2, b = self.expr(right, env)
            a, b = _paren(a), _paren(b)
            t = self.fresh()
            if op in (ast.Eq, ast.NotEq):
                st = s1 + s2 + [(t, "dy_eq (f_eqb fo) %s %s" % (a, b), False)]
                return st, t if op is ast.Eq else "negb %s" % t
            if op in (ast.In, ast.NotIn):
                st = s1 + s2 + [(t, "dy_contains %s %s" % (b, a), False)]
                return st, t if op is ast.In else "negb %s" % t
            f = {ast.Lt: "dy_lt", ast.LtE: "dy_le", ast.Gt: "dy_gt", ast.GtE: "dy_ge"}.get(op)
            if f is None:
                self.fail(e, "unsupported comparison operator")
            return s1 + s2 + [(t, "%s %s %s" % (f, a, b), False)], t
        st, v = self.expr(e, env)
        t = self.fresh()
        return st + [(t, "dy_truth %s" % _paren(v), False)], t

    def listcomp(self, e, env):
        gens = e.generators
        if not 1 <= len(gens) <= 2 or any(g.ifs or g.is_async for g in gens):
            self.fail(e, "a comprehension is supported with one or two `for` and no `if`")
        inner = env.copy()
        names = []
        for g in gens:
            if not isinstance(g.target, ast.Name):
                self.fail(e, "unsupported comprehension target")
            self.check_name(e, g.target.id)
            if g.target.id in env.vals or g.target.id in names:
                self.fail(e, "the comprehension variable %r is an existing variable" % g.target.id)
            names.append(g.target.id)
        self.check_read_copy(e, e.elt, None)
        try:
            s0, it0 = self.expr(gens[0].iter, env)
            inner.vals.add(names[0])
            if len(gens) == 2:
                s1, it1 = self.expr(gens[1].iter, inner)
                inner.vals.add(names[1])
            se, elt = self.expr(e.elt, inner)
            elt_out = self.inline(se, "XDone %s" % _paren(elt))
            if len(gens) == 1:
                body = "x_mapM (fun %s => %s) l1" % (v_(names[0]), elt_out)
            else:
                in2 = self.inline(s1, "xthen (dy_iter %s) (fun l2 => x_mapM (fun %s => %s) l2)"
                                  % (_paren(it1), v_(names[1]), elt_out))
                body = "x_concat (x_mapM (fun %s => %s) l1)" % (v_(names[0]), in2)
        except TranslateError as err:
            if "out arguments in a lazily" in str(err):
                self.fail(e, str(err))
            raise
        t = self.fresh()
        return s0 + [(t, "xthen (dy_iter %s) (fun l1 => xthen (%s) (fun r => XDone (VList r)))" % (_paren(it0), body),
                      False)], t

    def call(self, e, env):
        f = e.func
        if e.keywords:
            self.fail(e, "keyword arguments")
        nargs = len(e.args)

        def args():
            steps, texts = [], []
            for x in e.args:
                st, t = self.expr(x, env)
                steps += st
                texts.append(_paren(t))
            return steps, texts

        if self.is_global(f, "len") and nargs == 1:
            st, a = args()
            t = self.fresh()
            return st + [(t, "dy_len %s" % a[0], False)], t
        if self.is_global(f, "int") and nargs == 1:
            st, a = args()
            t = self.fresh()
            return st + [(t, "dy_int (w_pint W) %s" % a[0], False)], t
        if self.is_global(f, "float") and nargs == 1:
            st, a = args()
            t = self.fresh()
            return st + [(t, "dy_float (w_pfloat W) %s" % a[0], False)], t
        if self.is_global(f, "range") and nargs == 2:
            st, a = args()
            t = self.fresh()
            return st + [(t, "dy_range %s %s" % (a[0], a[1]), False)], t
        if self.is_global(f, "range") and nargs == 1:
            st, a = args()
            t = self.fresh()
            return st + [(t, "dy_range (VInt (0%%Z)) %s" % a[0], False)], t
        if self.is_global(f, "__require_dict__") and nargs == 1:
            st, a = args()
            t = self.fresh()
            return st + [(t, "dy_require_dict %s" % a[0], False)], t
        if self.is_attr_chain(f, ["os", "path", "join"]) and nargs >= 1:
            self.need_import(e, "os")
            st, a = args()
            t = self.fresh()
            return st + [(t, "dy_path_join (w_path_join W) [%s]" % "; ".join(a), False)], t
        if self.is_attr_chain(f, ["json", "loads"]) and nargs == 1:
            self.need_import(e, "json")
            st, a = args()
            t = self.fresh()
            return st + [(t, "dy_json_loads (w_cfg W) %s" % a[0], False)], t
        if self.is_attr_chain(f, ["configparser", "ConfigParser"]) and nargs == 0:
            self.need_import(e, "configparser")
            return [], "VCfgNew"
        if self.is_global(f, "Counter") and nargs == 0:
            if "Counter" not in self.module["from_collections"]:
                self.fail(e, "Counter is not imported from collections")
            return [], "(VDict [])"
        spec, recv = self.callee(f)
        if spec is not None:
            return self.known_call(e, spec, recv, env)
        if isinstance(f, ast.Attribute):
            m = f.attr
            s0, r = self.expr(f.value, env)
            r = _paren(r)
            if m in ("rstrip", "lstrip", "strip") and nargs <= 1:
                st, a = args()
                t = self.fresh()
                arg = "(Some %s)" % a[0] if a else "None"
                return s0 + st + [(t, "dy_%s (w_ws W) %s %s" % (m, r, arg), False)], t
            if m == "split" and nargs == 1 and isinstance(e.args[0], ast.Constant) \
                    and type(e.args[0].value) is str and len(e.args[0].value) == 1:
                t = self.fresh()
                return s0 + [(t, "dy_split %s %d%%N" % (r, ord(e.args[0].value)), False)], t
            if m == "get" and nargs == 1:
                st, a = args()
                t = self.fresh()
                return s0 + st + [(t, "dy_get1 (w_cfg W) %s %s" % (r, a[0]), False)], t
            if m == "get" and nargs == 2:
                st, a = args()
                t = self.fresh()
                return s0 + st + [(t, "dy_cfg_get (w_cfg W) %s %s %s" % (r, a[0], a[1]), False)], t
            if m == "getint" and nargs == 2:
                st, a = args()
                t = self.fresh()
                return s0 + st + [(t, "dy_cfg_getint (w_cfg W) (w_pint W) %s %s %s" % (r, a[0], a[1]), False)], t
        self.fail(e, "unsupported call")

    def need_import(self, node, mod):
        if mod not in self.module["imported"]:
            self.fail(node, "%s is used but the module does not import it plainly" % mod)

    def known_call(self, e, spec, recv, env):
        """a call of a function of SPECS / EXTERN: arguments, the call, the out arguments written
        back to where they were read from"""
        actual = ([recv] if recv is not None else []) + list(e.args)
        if len(actual) != spec["nparams"]:
            self.fail(e, "%d arguments, %s takes %d" % (len(actual), spec["py"], spec["nparams"]))
        roots = [root_of(actual[i]) for i in spec["out"] if is_path(actual[i])]
        if len(set(roots)) != len(roots):
            self.fail(e, "two out arguments of one call have the same root (aliasing is not modelled)")
        for i in spec["out"]:
            r = root_of(actual[i]) if is_path(actual[i]) else None
            if r is not None and r in self.cur_frozen:
                self.fail(e, "%r is changed while a loop iterates over it" % r)
        steps, texts = [], []
        for x in actual:
            st, t = self.expr(x, env)
            steps += st
            texts.append(_paren(t))
        fn_text = spec["call"] if "call" in spec else "%s W" % spec["coq"]
        outs = [self.fresh("o") for _ in spec["out"]]
        res = self.fresh()
        pat = "'(%s)" % ", ".join(outs + [res]) if outs else res
        steps.append((pat, "%s %s" % (fn_text, " ".join(texts)), False))
        for o, i in zip(outs, spec["out"]):
            a = actual[i]
            if not is_path(a):
                continue        # a fresh value: what the callee does to it is unobservable
            if isinstance(a, ast.Name):
                if a.id not in env.vals:
                    self.fail(e, "the out argument %r may be unbound" % a.id)
                steps.append((v_(a.id), "LET " + o, True))
            else:
                root, upd = self.upd(a, env, lambda old, o=o: "XDone %s" % o, e)
                steps.append((v_(root), upd, True))
        return steps, res

    # -------------------------------------------------------------- updates along a path
    def upd(self, t, env, inner, node):
        """functional update along the path t (subscripts / attributes rooted at a variable):
        -> (root variable, outcome text of the new value of the root); inner(old text) is the
        outcome text of the new value at the end of the path.  The indices are evaluated on
        the way down, after the container they index has been read (Python's order)."""
        if isinstance(t, ast.Name):
            if t.id not in env.vals:
                self.expr(t, env)
                self.fail(node, "update of a variable that is not bound")
            self.check_mutation_root(node, t.id)
            return t.id, inner(v_(t.id))
        tmp = self.fresh("u")
        if isinstance(t, ast.Subscript):
            if isinstance(t.slice, ast.Slice):
                self.fail(node, "update through a slice")
            try:
                sk, k = self.expr(t.slice, env)
                body = self.inline(sk, "dy_upd_item (w_cfg W) \x00OLD\x00 %s (fun %s => %s)" % (_paren(k), tmp, inner(tmp)))
            except TranslateError as err:
                if "out arguments in a lazily" in str(err):
                    self.fail(node, str(err))
                raise
            return self.upd(t.value, env, lambda old: body.replace("\x00OLD\x00", old), node)
        if isinstance(t, ast.Attribute):
            return self.upd(t.value, env, lambda old: "dy_upd_attr %s %s (fun %s => %s)"
                            % (old, _paren(cstr(t.attr)), tmp, inner(tmp)), node)
        self.fail(node, "unsupported update path")

    def check_mutation_root(self, node, root):
        if root in self.params and self.params.index(root) not in self.spec["out"]:
            self.fail(node, "the parameter %r is mutated but SPECS does not list it as an out parameter" % root)
        if root in self.cur_frozen:
            self.fail(node, "%r is changed while a loop iterates over it" % root)

    # -------------------------------------------------------------- statements
    def note(self, s):
        return "(* %d: %s *)" % (s.lineno, _comment(ast.unparse(s).split("\n")[0])[:110])

    def line(self, ind, text, s=None):
        first = "  " * ind + text
        if s is None:
            return first + "\n"
        return first + " " * max(2, 72 - len(first)) + self.note(s) + "\n"

    def state(self, names):
        """-> (tuple text, binder text) of the variables a join / loop / handler carries"""
        if not names:
            return "tt", "(_ : unit)"
        if len(names) == 1:
            return v_(names[0]), "(%s : val)" % v_(names[0])
        return ("(%s)" % ", ".join(v_(n) for n in names),
                "'((%s) : %s)" % (", ".join(v_(n) for n in names), " * ".join("val" for _ in names)))

    def check_state(self, node, names, now):
        for n in names:
            if n not in now.vals:
                self.fail(node, "%r is unbound on a path that must carry it on" % n)

    @staticmethod
    def terminates(stmts):
        if not stmts:
            return False
        s = stmts[-1]
        if isinstance(s, (ast.Return, ast.Continue, ast.Break, ast.Raise)):
            return True
        if isinstance(s, ast.If):
            return FunctionTranslator.terminates(s.body) and FunctionTranslator.terminates(s.orelse)
        if isinstance(s, ast.Try):
            return FunctionTranslator.terminates(s.body) and all(FunctionTranslator.terminates(h.body) for h in s.handlers)
        if isinstance(s, ast.With):
            return FunctionTranslator.terminates(s.body)
        return False

    def with_steps(self, steps, env, k, ind, node, body):
        """the text: evaluate the steps (each may raise: handler of k), then body(ind, note)"""
        out, closers, note = "", 0, node
        for pat, outc, _ in steps:
            if outc.startswith("LET "):
                out += self.line(ind, "let %s := %s in" % (pat, outc[4:]), note)
                note = None
                continue
            out += self.line(ind, "xbind (%s) (fun e => %s) (fun %s =>" % (outc, k.exc(env, "e"), pat), note)
            closers, note = closers + 1, None
        out += body(ind, note)
        return _close(out, ")" * closers) if closers else out

    def block(self, stmts, env, k, ind):
        stmts = list(stmts)
        if not stmts:
            return k.fall(env, ind)
        s, rest = stmts[0], stmts[1:]
        self.cur_frozen = set(k.frozen)

        def after(env2, ind2):
            return self.block(rest, env2, k, ind2)

        if isinstance(s, ast.Expr) and isinstance(s.value, ast.Constant) and type(s.value.value) is str:
            return after(env, ind)
        if isinstance(s, ast.Pass):
            return after(env, ind)
        if isinstance(s, ast.Return):
            if s.value is None:
                steps, t = [], "VNone"
            elif isinstance(s.value, ast.Tuple):
                # return a, b, c: a tuple (the function ends here: nothing is shared afterwards)
                steps, parts = [], []
                for x in s.value.elts:
                    st, t = self.expr(x, env)
                    steps += st
                    parts.append(t)
                t = "(VTuple [%s])" % "; ".join(parts)
            else:
                steps, t = self.expr(s.value, env)
            return self.with_steps(steps, env, k, ind, s, lambda i, n: self.line(i, k.ret(env, t, s), n))
        if isinstance(s, ast.Raise):
            return self.raise_(s, env, k, ind)
        if isinstance(s, ast.Continue):
            if k.cont is None:
                self.fail(s, "continue outside a loop")
            return self.line(ind, k.cont(env, s), s)
        if isinstance(s, ast.Break):
            if k.brk is None:
                self.fail(s, "break outside a loop")
            return self.line(ind, k.brk(env, s), s)
        if isinstance(s, ast.Assign):
            return self.assign(s, env, k, ind, after)
        if isinstance(s, ast.AugAssign):
            return self.augassign(s, env, k, ind, after)
        if isinstance(s, ast.Expr):
            return self.effect(s, env, k, ind, after)
        if isinstance(s, ast.If):
            return self.if_(s, rest, env, k, ind, after)
        if isinstance(s, ast.For):
            return self.for_(s, rest, env, k, ind, after)
        if isinstance(s, ast.Try):
            return self.try_(s, rest, env, k, ind, after)
        if isinstance(s, ast.With):
            return self.with_(s, rest, env, k, ind, after)
        self.fail(s, "unsupported statement (%s)" % type(s).__name__)

    def raise_(self, s, env, k, ind):
        if s.cause is not None:
            self.fail(s, "raise ... from")
        if s.exc is None:
            if k.in_handler is None:
                self.fail(s, "bare raise outside an except clause")
            return self.line(ind, k.exc(env, k.in_handler), s)
        x = s.exc
        if isinstance(x, ast.Call) and not x.args and not x.keywords:
            x = x.func
        if self.is_global(x, "Exception"):
            return self.line(ind, k.exc(env, "XPlain"), s)
        self.fail(s, "only `raise` and `raise Exception` are supported")

    # ---- assignment
    def assign(self, s, env, k, ind, after):
        if len(s.targets) != 1:
            self.fail(s, "multiple assignment targets")
        t, v = s.targets[0], s.value
        if isinstance(t, ast.Name):
            x = t.id
            self.check_name(s, x)
            if x in self.params and self.params.index(x) in self.spec["out"]:
                self.fail(s, "the out parameter %r is rebound" % x)
            if x in env.files or x in env.exns:
                self.fail(s, "a file / exception variable is rebound")
            if x in self.cur_frozen:
                self.fail(s, "%r is rebound while a loop iterates over it" % x)
            steps, text = self.expr(v, env)
            if id(s) in self.scalar_copies:
                t = self.fresh()
                steps, text = steps + [(t, "dy_scalar %s" % _paren(text), False)], t

            def body(i, n):
                env.vals.add(x)
                return self.line(i, "let %s := %s in" % (v_(x), text), n) + after(env, i)
            return self.with_steps(steps, env, k, ind, s, body)
        if isinstance(t, (ast.Subscript, ast.Attribute)):
            if not is_path(t):
                self.fail(s, "unsupported assignment target")
            self.check_read_copy(s, v, None)
            # Python evaluates the right-hand side first, then the target's container and index, then stores
            steps, text = self.expr(v, env)
            if isinstance(t, ast.Subscript):
                try:
                    sk, kx = self.expr(t.slice, env)
                    store = self.inline(sk, "dy_setitem \x00OLD\x00 %s %s" % (_paren(kx), _paren(text)))
                except TranslateError as err:
                    if "out arguments in a lazily" in str(err):
                        self.fail(s, str(err))
                    raise
                root, upd = self.upd(t.value, env, lambda old: store.replace("\x00OLD\x00", old), s)
            else:
                root, upd = self.upd(t.value, env, lambda old: "dy_setattr %s %s %s"
                                     % (old, _paren(cstr(t.attr)), _paren(text)), s)

            def body(i, n):
                return _close(self.line(i, "xbind (%s) (fun e => %s) (fun %s =>" % (upd, k.exc(env, "e"), v_(root)), n)
                              + after(env, i), ")")
            return self.with_steps(steps, env, k, ind, s, body)
        self.fail(s, "unsupported assignment target")

    def augassign(self, s, env, k, ind, after):
        f = {ast.Add: "dy_add", ast.Sub: "dy_sub", ast.Mult: "dy_mul"}.get(type(s.op))
        if f is None:
            self.fail(s, "unsupported augmented operator")
        t = s.target
        if isinstance(t, ast.Name):
            x = t.id
            if x in self.mutated:
                self.fail(s, "augmented assignment to a variable that is also mutated in place")
            if x in self.cur_frozen:
                self.fail(s, "%r is rebound while a loop iterates over it" % x)
            if x in self.params and self.params.index(x) in self.spec["out"]:
                self.fail(s, "the out parameter %r is rebound" % x)
            s0, a = self.expr(t, env)
            s1, b = self.expr(s.value, env)
            tmp = self.fresh()
            steps = s0 + s1 + [(tmp, "%s %s %s" % (f, _paren(a), _paren(b)), False)]

            def body(i, n):
                return self.line(i, "let %s := %s in" % (v_(x), tmp), n) + after(env, i)
            return self.with_steps(steps, env, k, ind, s, body)
        if not is_path(t):
            self.fail(s, "unsupported augmented target")
        # path op= e: read the old value, evaluate e, compute, write back
        try:
            s1, b = self.expr(s.value, env)
            inner = lambda old: self.inline(s1, "%s %s %s" % (f, old, _paren(b)))
            root, upd = self.upd(t, env, inner, s)
        except TranslateError as err:
            if "out arguments in a lazily" in str(err):
                self.fail(s, str(err))
            raise

        def body(i, n):
            return _close(self.line(i, "xbind (%s) (fun e => %s) (fun %s =>" % (upd, k.exc(env, "e"), v_(root)), n)
                          + after(env, i), ")")
        return self.with_steps([], env, k, ind, s, body)

    # ---- expression statements
    def printed_names_ok(self, s, c):
        for a in list(c.args) + [x.value for x in c.keywords]:
            for m in ast.walk(a):
                if isinstance(m, ast.Name) and m.id not in self.locals and m.id not in ("str", "sys", "repr", "len"):
                    self.fail(s, "a printed expression mentions the global name %r" % m.id)

    def effect(self, s, env, k, ind, after):
        c = s.value
        if not isinstance(c, ast.Call):
            self.fail(s, "unsupported expression statement")
        f = c.func
        if self.is_global(f, "print"):
            kw = {x.arg: x.value for x in c.keywords}
            if set(kw) - {"file"} or ("file" in kw and not self.is_attr_chain(kw["file"], ["sys", "stderr"])):
                self.fail(s, "print is supported as print(...) / print(..., file=sys.stderr) only")
            self.printed_names_ok(s, c)
            return self.line(ind, "(* printed, not modelled *)", s) + after(env, ind)
        if self.is_global(f, "__require_dict__") and len(c.args) == 1 and not c.keywords:
            steps, _ = self.expr(c, env)
            return self.with_steps(steps, env, k, ind, s, lambda i, n: after(env, i))
        if self.is_attr_chain(f, ["traceback", "print_exc"]):
            self.printed_names_ok(s, c)
            return self.line(ind, "(* printed, not modelled *)", s) + after(env, ind)
        spec, recv = self.callee(f)
        if spec is not None:
            if c.keywords:
                self.fail(s, "keyword arguments")
            steps, _ = self.known_call(c, spec, recv, env)
            return self.with_steps(steps, env, k, ind, s, lambda i, n: after(env, i))
        if not isinstance(f, ast.Attribute) or c.keywords:
            self.fail(s, "unsupported call statement")
        m = f.attr
        if m == "append" and len(c.args) == 1 and is_path(f.value):
            self.check_read_copy(s, c.args[0], None)
            try:
                sx, x = self.expr(c.args[0], env)
                root, upd = self.upd(f.value, env, lambda old: self.inline(sx, "dy_append %s %s" % (old, _paren(x))), s)
            except TranslateError as err:
                if "out arguments in a lazily" in str(err):
                    self.fail(s, str(err))
                raise

            def body(i, n):
                return _close(self.line(i, "xbind (%s) (fun e => %s) (fun %s =>" % (upd, k.exc(env, "e"), v_(root)), n)
                              + after(env, i), ")")
            return self.with_steps([], env, k, ind, s, body)
        if m in ("read_file", "read") and len(c.args) == 1 and isinstance(f.value, ast.Name):
            cv = f.value.id
            if cv not in env.vals:
                self.expr(f.value, env)
            self.check_mutation_root(s, cv)
            a = c.args[0]
            if m == "read_file":
                # config.read_file(open(name)): the file object never gets a name
                if not (isinstance(a, ast.Call) and self.is_global(a.func, "open") and len(a.args) == 1 and not a.keywords):
                    self.fail(s, "read_file is supported as config.read_file(open(name)) only")
                a = a.args[0]
            steps, name = self.expr(a, env)
            fn = "dy_cfg_read_file" if m == "read_file" else "dy_cfg_read"
            steps = steps + [(v_(cv), "%s (w_cfg W) %s %s" % (fn, v_(cv), _paren(name)), True)]
            return self.with_steps(steps, env, k, ind, s, lambda i, n: after(env, i))
        self.fail(s, "unsupported call statement")

    # ---- compound statements
    def if_(self, s, rest, env, k, ind, after):
        steps, c = self.cond(s.test, env)
        body, orelse = list(s.body), list(s.orelse)
        bt, et = self.terminates(body), self.terminates(orelse)
        hdr = ast.copy_location(ast.Expr(value=s.test), s)

        def emit(i, n):
            head = "  " * i + "if %s then" % c
            head = head + " " * max(2, 72 - len(head)) + "(* %d: if %s *)\n" % (s.lineno, _comment(ast.unparse(s.test))[:100])
            if not rest or bt or et:
                kk = k if not rest else k.derive(fall=after)
                return (head + self.block(body, env.copy(), kk, i + 1)
                        + self.line(i, "else") + self.block(orelse, env.copy(), kk, i + 1))
            names = self.assigned(body + orelse, env)
            tup, pat = self.state(names)
            kn = self.fresh("k")

            def fall(e2, i2):
                self.check_state(s, names, e2)
                return self.line(i2, "%s %s" % (kn, tup))
            kk = k.derive(fall=fall)
            out = self.line(i, "rt_join (fun %s =>" % kn)
            out += self.line(i + 1, "if %s then" % c, hdr)
            out += self.block(body, env.copy(), kk, i + 2)
            out += self.line(i + 1, "else")
            out += _close(self.block(orelse, env.copy(), kk, i + 2), ")")
            out += self.line(i, "(fun %s =>" % pat)
            out += _close(after(env.copy(), i), ")")
            return out
        return self.with_steps(steps, env, k, ind, None, emit)

    def loop_k(self, k, names, tup, node, ctor, frozen=()):
        cont_t, brk_t, ret_t = ctor

        def fall(e2, i2):
            self.check_state(node, names, e2)
            return self.line(i2, "%s %s" % (cont_t, tup))

        def cont(e2, n):
            self.check_state(n, names, e2)
            return "%s %s" % (cont_t, tup)

        def brk(e2, n):
            self.check_state(n, names, e2)
            return "%s %s" % (brk_t, tup)
        return K(fall=fall, cont=cont, brk=brk,
                 ret=lambda e2, t, n: "%s (%s)" % (ret_t, k.ret(e2, t, n)),
                 exc=lambda e2, ex: "%s (%s)" % (ret_t, k.exc(e2, ex)),
                 in_handler=k.in_handler, frozen=k.frozen + tuple(frozen))

    def for_(self, s, rest, env, k, ind, after):
        if not isinstance(s.target, ast.Name):
            self.fail(s, "unsupported loop target")
        if s.orelse:
            self.fail(s, "for ... else")
        x = s.target.id
        self.check_name(s, x)
        if x in self.params:
            self.fail(s, "a parameter is the loop variable")
        if x in self.mutated:
            self.fail(s, "the loop variable %r is mutated in place (the element would have to be written back)" % x)
        it = s.iter
        names = [n for n in self.assigned(s.body, env) if n != x]
        tup, pat = self.state(names)
        hdr = ast.copy_location(ast.Expr(value=ast.Name(id="for %s in %s" % (x, ast.unparse(it)), ctx=ast.Load())), s)
        inner = env.copy()
        e3 = env.copy()
        e3.vals.discard(x)
        # ---- a loop over an open file
        if isinstance(it, ast.Name) and it.id in env.files:
            fv = it.id
            inner.vals.add(x)
            bk = self.loop_k(k, names, tup, s, ("FCont", "FBrk false", "FRet"))
            ln = self.fresh("ln")
            out = self.line(ind, "rt_for_file %s (fun %s %s =>" % (v_(fv), ln, pat), hdr)
            out += self.line(ind + 2, "let %s := VStr %s in" % (v_(x), ln))
            out += _close(self.block(s.body, inner, bk, ind + 2), ")")
            out += self.line(ind + 1, tup)
            out += self.line(ind + 1, "rt_no_else_file")
            out += self.line(ind, "(fun %s %s =>" % ("(%s : rt_file)" % v_(fv), pat))
            out += _close(after(e3, ind), ")")
            return out
        # ---- a loop over the elements of a value
        # a read of (a part of) a variable is iterated in place; anything else is a fresh value
        roots = {root_of(it)} if self.is_read(it) and root_of(it) is not None else set()
        if x in {m.id for m in ast.walk(it) if isinstance(m, ast.Name)}:
            self.fail(s, "the loop variable occurs in the iterated expression")
        if roots & (set(names) | {x}):
            self.fail(s, "the iterated value is assigned or mutated in the loop")
        steps, l = self.expr(it, env)
        lt = self.fresh("l")
        steps = steps + [(lt, "dy_iter %s" % _paren(l), False)]
        inner.vals.add(x)
        bk = self.loop_k(k, names, tup, s, ("LCont", "LBrk", "LRet"), frozen=tuple(roots))

        def emit(i, n):
            out = self.line(i, "rt_for %s (fun %s %s =>" % (lt, "(%s : val)" % v_(x), pat), hdr)
            out += _close(self.block(s.body, inner, bk, i + 2), ")")
            out += self.line(i + 1, tup)
            out += self.line(i + 1, "rt_no_else")
            out += self.line(i, "(fun %s =>" % pat)
            out += _close(after(e3, i), ")")
            return out
        return self.with_steps(steps, env, k, ind, None, emit)

    def calls_with_out(self, stmts):
        for st in stmts:
            for n in ast.walk(st):
                if isinstance(n, ast.Call):
                    spec, _ = self.callee(n.func)
                    if spec is not None and spec["out"] and "call" not in spec:
                        return n
        return None

    def try_(self, s, rest, env, k, ind, after):
        if s.orelse or s.finalbody or not s.handlers:
            self.fail(s, "try with else / finally / without except")
        names = self.assigned(s.body, env)
        tup, pat = self.state(names)
        hn = self.fresh("h")
        risky = self.calls_with_out(s.body)
        fallers = [list(s.body)] + [list(h.body) for h in s.handlers]
        nfall = sum(0 if self.terminates(b) else 1 for b in fallers)
        out = ""
        if not rest:
            kk = k
        elif nfall <= 1:
            kk = k.derive(fall=after)
        else:
            allnames = self.assigned([s], env)
            jtup, jpat = self.state(allnames)
            kn = self.fresh("k")

            def jfall(e2, i2):
                self.check_state(s, allnames, e2)
                return self.line(i2, "%s %s" % (kn, jtup))
            kk = k.derive(fall=jfall)
            out += self.line(ind, "rt_join (fun %s =>" % kn)
        bk = kk.derive(exc=lambda e2, ex: (self.check_state(s, names, e2), "%s %s %s" % (hn, _paren(ex), tup))[1])
        body_text = self.block(s.body, env.copy(), bk, ind)
        henv = env.copy()
        out += self.line(ind, "let %s := fun (e : xexn) %s =>" % (hn, pat),
                         ast.copy_location(ast.Expr(value=ast.Name(id="try / except", ctx=ast.Load())), s.handlers[0]))
        i = ind + 1
        for h in s.handlers:
            if h.type is None:
                self.fail(h, "bare except")
            classes = h.type.elts if isinstance(h.type, ast.Tuple) else [h.type]
            tests = []
            for c in classes:
                if isinstance(c, ast.Name) and c.id in EXC_CLASSES and c.id not in self.locals:
                    tests.append("x_isa (%s) e" % EXC_CLASSES[c.id])
                elif self.is_attr_chain(c, ["configparser", "Error"]):
                    self.need_import(h, "configparser")
                    tests.append("x_isa CConfigError e")
                else:
                    self.fail(h, "unsupported exception class")
            test = tests[0] if len(tests) == 1 else " || ".join("(%s)" % t for t in tests)
            hdr = ast.copy_location(ast.Expr(value=ast.Name(id="except %s%s" % (ast.unparse(h.type), " as " + h.name if h.name else ""), ctx=ast.Load())), h)
            out += self.line(i, "if %s then" % test, hdr)
            he = henv.copy()
            if h.name:
                self.check_name(h, h.name)
                if h.name in he.vals or h.name in he.files or h.name in self.params:
                    self.fail(h, "the exception variable %r is an existing variable" % h.name)
                he.exns.add(h.name)
            if risky is not None and not self.terminates(list(h.body)):
                self.fail(h, "a handler that falls through although the try body calls a function with out arguments "
                             "(what the callee did before raising is not modelled)")
            hk = kk.derive(in_handler="e")
            if h.name:
                base_fall = hk.fall

                def hfall(e2, i2, base_fall=base_fall, nm=h.name):
                    e2 = e2.copy()
                    e2.exns.discard(nm)
                    return base_fall(e2, i2)
                hk = hk.derive(fall=hfall)
            out += self.block(h.body, he, hk, i + 1)
            out += self.line(i, "else")
        out += self.line(i, k.exc(henv, "e") + " in")
        out += body_text
        if rest and nfall > 1:
            out = _close(out, ")")
            out += self.line(ind, "(fun %s =>" % jpat)
            out += _close(after(env.copy(), ind), ")")
        return out

    def with_(self, s, rest, env, k, ind, after):
        if len(s.items) != 1 or not isinstance(s.items[0].optional_vars, ast.Name):
            self.fail(s, "unsupported with statement")
        c, fv = s.items[0].context_expr, s.items[0].optional_vars.id
        self.check_name(s, fv)
        if fv in env.vals or fv in env.files or fv in self.params or fv in self.mutated:
            self.fail(s, "the file variable %r is an existing variable" % fv)
        with_vars = {id(w.items[0].optional_vars) for w in ast.walk(self.fn) if isinstance(w, ast.With) and len(w.items) == 1}
        for n in ast.walk(self.fn):
            if isinstance(n, ast.Name) and n.id == fv and isinstance(n.ctx, ast.Store) and id(n) not in with_vars:
                self.fail(s, "the file variable %r is also assigned outside a with statement" % fv)
        if not isinstance(c, ast.Call):
            self.fail(s, "unsupported context manager")
        kw = {x.arg: x.value for x in c.keywords}
        if not (len(c.args) == 2 and isinstance(c.args[1], ast.Constant) and c.args[1].value == "r"):
            self.fail(s, "a file is opened as open / codecs.open(name, 'r', ...) only")
        if self.is_attr_chain(c.func, ["codecs", "open"]):
            self.need_import(s, "codecs")
            if not (set(kw) == {"encoding"} or (set(kw) == {"encoding", "errors"} and isinstance(kw["errors"], ast.Constant)
                                                and type(kw["errors"].value) is str)):
                self.fail(s, "codecs.open is supported as codecs.open(name, 'r', encoding=e[, errors=<constant>]) only")
            oracle = "w_codecs_open W"
        elif self.is_global(c.func, "open"):
            if set(kw) - {"encoding"}:
                self.fail(s, "open is supported as open(name, 'r'[, encoding=e]) only")
            oracle = "w_open W"
        else:
            self.fail(s, "unsupported context manager")
        errors = "(Some %s)" % _paren(cstr(kw["errors"].value)) if "errors" in kw else "None"
        steps, a = self.expr(c.args[0], env)
        if "encoding" in kw:
            s2, b = self.expr(kw["encoding"], env)
            steps, enc = steps + s2, "(Some %s)" % _paren(b)
        else:
            enc = "None"
        call = "dy_open (%s) %s %s %s" % (oracle, _paren(a), enc, errors)

        def emit(i, n):
            inner = env.copy()
            inner.files.add(fv)

            def fall(e2, i2):
                e2 = e2.copy()
                e2.files.discard(fv)        # the file is closed
                return after(e2, i2) if rest else k.fall(e2, i2)
            bk = k.derive(fall=fall)
            out = self.line(i, "xbind (%s) (fun e => %s) (fun %s =>" % (call, k.exc(env, "e"), v_(fv)), s)
            return _close(out + self.block(s.body, inner, bk, i), ")")
        return self.with_steps(steps, env, k, ind, None, emit)

    # -------------------------------------------------------------- function
    def translate(self):
        self.scan()
        fn, spec = self.fn, self.spec
        env = Env()
        env.vals = set(self.params)
        outs = [self.params[i] for i in spec["out"]]

        def ret(e2, text, node):
            for o in outs:
                if o not in e2.vals:
                    self.fail(node, "the out parameter %r is gone at a return" % o)
            return "XDone (%s)" % ", ".join([v_(o) for o in outs] + [text])

        def fall(e2, i2):
            return self.line(i2, ret(e2, "VNone", fn))

        k = K(fall=fall, cont=None, brk=None, ret=ret, exc=lambda e2, ex: "XFail %s" % _paren(ex))
        self.cur_frozen = set()
        body = self.block(list(fn.body), env, k, 1)
        params = " ".join("(%s : val)" % v_(n) for n in self.params)
        rty = " * ".join("val" for _ in range(len(outs) + 1))
        dump = ast.dump(fn, include_attributes=False)
        sha = hashlib.sha256(dump.encode("utf-8")).hexdigest()
        where = "%s  %sdef %s" % (spec["source"], "class %s: " % spec["cls"] if "cls" in spec else "", fn.name)
        out = "(* %s  lines %d-%d\n   sha256 of ast.dump: %s\n   result: (%s) *)\n" % (
            where, fn.lineno, fn.end_lineno, sha, ", ".join(outs + ["the value returned"]))
        out += "Definition %s (W : world fo C S) %s : xres (%s) :=\n" % (spec["coq"], params, rty)
        out += _close(body, ".")
        return out


def _module(repo, rel, cache):
    if rel in cache:
        return cache[rel]
    path = os.path.join(repo, rel)
    with open(path, encoding="utf-8", newline="") as f:
        src = f.read()
    tree = ast.parse(src, filename=path)
    defs, classes = {}, {}
    imported, from_collections = set(), set()
    for n in tree.body:
        if isinstance(n, (ast.FunctionDef, ast.AsyncFunctionDef, ast.ClassDef)):
            if n.name in defs or n.name in classes:
                raise TranslateError("%s:%d: %s defined twice" % (path, n.lineno, n.name))
            if isinstance(n, ast.ClassDef):
                if n.bases or n.keywords or n.decorator_list:
                    raise TranslateError("%s:%d: class %s has bases / decorators" % (path, n.lineno, n.name))
                meths = {}
                for m in n.body:
                    if isinstance(m, (ast.FunctionDef, ast.AsyncFunctionDef)):
                        if m.name in meths:
                            raise TranslateError("%s:%d: method %s defined twice" % (path, m.lineno, m.name))
                        meths[m.name] = m
                    elif not (isinstance(m, ast.Expr) and isinstance(m.value, ast.Constant)) and not isinstance(m, ast.Pass):
                        raise TranslateError("%s:%d: class %s has statements other than methods" % (path, m.lineno, n.name))
                classes[n.name] = meths
            else:
                defs[n.name] = n
        if isinstance(n, ast.Import):
            for a in n.names:
                if a.asname is None:
                    imported.add(a.name.split(".")[0])
                elif a.asname in MODULES:
                    raise TranslateError("%s:%d: %s is an alias of another module" % (path, n.lineno, a.asname))
        if isinstance(n, ast.ImportFrom):
            for a in n.names:
                if n.module == "collections" and a.name == "Counter" and a.asname is None and n.level == 0:
                    from_collections.add("Counter")
                elif (a.asname or a.name) in MODULES + BUILTINS + ("Counter",) or a.name == "*":
                    raise TranslateError("%s:%d: from-import of %s" % (path, n.lineno, a.name))
    names = {s["py"] for s in SPECS + EXTERN if s["source"] == rel} | set(MODULES) | set(BUILTINS) | {"Counter"}
    names |= {s["cls"] for s in SPECS if s["source"] == rel and "cls" in s}
    for n in ast.walk(tree):
        targets = []
        if isinstance(n, (ast.Assign, ast.Delete)):
            targets = n.targets
        elif isinstance(n, (ast.AugAssign, ast.AnnAssign)):
            targets = [n.target]
        elif isinstance(n, (ast.Global, ast.Nonlocal)):
            if set(n.names) & names:
                raise TranslateError("%s:%d: global declaration of a name the translation relies on" % (path, n.lineno))
        elif isinstance(n, (ast.FunctionDef, ast.ClassDef)) and n.name in set(MODULES) | set(BUILTINS) | {"Counter"}:
            raise TranslateError("%s:%d: %s is redefined" % (path, n.lineno, n.name))
        for t in targets:
            for m in ast.walk(t):
                if isinstance(m, ast.Name) and m.id in names and isinstance(m.ctx, (ast.Store, ast.Del)):
                    if any(m in list(ast.walk(b)) for b in tree.body if not isinstance(b, (ast.FunctionDef, ast.ClassDef))):
                        raise TranslateError("%s:%d: %s is rebound" % (path, n.lineno, m.id))
                if isinstance(m, ast.Attribute) and m.attr in names and isinstance(m.ctx, (ast.Store, ast.Del)) \
                        and not (isinstance(m.value, ast.Name) and m.value.id == "self"):
                    raise TranslateError("%s:%d: %s is rebound" % (path, n.lineno, ast.unparse(m)))
        if isinstance(n, ast.Name) and n.id in ("setattr", "delattr", "globals", "__builtins__", "exec", "eval",
                                                "vars", "locals"):
            raise TranslateError("%s:%d: %s is used in the module" % (path, n.lineno, n.id))
    cache[rel] = dict(path=path, defs=defs, classes=classes, imported=imported, from_collections=from_collections)
    return cache[rel]


def render(repo=None, group="omen"):
    """-> text of the generated file of one group for the sources of the current working tree"""
    repo = repo or common.REPO
    cache, parts = {}, []
    for spec in SPECS:
        if spec["group"] != group:
            continue
        mod = _module(repo, spec["source"], cache)
        if "cls" in spec:
            fn = mod["classes"].get(spec["cls"], {}).get(spec["py"])
            if "__setattr__" in mod["classes"].get(spec["cls"], {}) or "__getattr__" in mod["classes"].get(spec["cls"], {}) \
                    or "__getattribute__" in mod["classes"].get(spec["cls"], {}):
                raise TranslateError("%s: class %s customises attribute access" % (mod["path"], spec["cls"]))
        else:
            fn = mod["defs"].get(spec["py"])
        if not isinstance(fn, ast.FunctionDef):
            raise TranslateError("%s: def %s not found" % (mod["path"], spec["py"]))
        for m in MODULES:
            if any(isinstance(n, ast.Name) and n.id == m for n in ast.walk(fn)) and m not in mod["imported"]:
                raise TranslateError("%s: %s uses %s, which the module does not import plainly" % (mod["path"], spec["py"], m))
        parts.append(FunctionTranslator(mod["path"], normalise(fn), spec, mod).translate())
    if group == "grammar":
        for ext in EXTERN:
            mod = _module(repo, ext["source"], cache)
            fn = mod["defs"].get(ext["py"])
            if not isinstance(fn, ast.FunctionDef) or len(fn.args.args) != ext["nparams"]:
                raise TranslateError("%s: def %s with %d parameters not found" % (mod["path"], ext["py"], ext["nparams"]))
    head = (
        "(* GENERATED by harness/translate_loader2.py from the Python source of the current\n"
        "   working tree on every run of a check.  Do not edit.\n"
        "   Each definition is the line-by-line image of one Python function in the subset\n"
        "   documented in the translator; the numbers in the comments are source lines.\n"
        "   theories/%s proves these definitions equal to the hand-written\n"
        "   models of theories/TextFile.v and theories/Loader2Model.v. *)\n"
        "From Coq Require Import List ZArith NArith Bool.\n"
        "From Pcfg Require Import TextFile LoaderRt Loader2Rt.\n"
        "Import ListNotations.\n\n"
        "Section Loader2_gen.\n"
        "(* the float operations (LoaderRt.fops), the types of a parsed configuration and of one\n"
        "   of its sections; W : world fo C S is what the interpreter, the file system and the\n"
        "   readers of gen/Loader_gen.v decide (Loader2Rt.v) *)\n"
        "Context (fo : fops) {C S : Type}.\n"
        "Notation val := (pyval (F fo) C S).\n") % ("Loader2GenProofs.v" if group == "omen" else "Loader2GrammarGenProofs.v")
    return head + "\n" + "\n".join(parts) + "\nEnd Loader2_gen.\n"


def failure_text(err):
    return ("(* GENERATED by harness/translate_loader2.py.  The translation of the current sources FAILED:\n"
            "   %s\n   The line below does not type-check on purpose. *)\n"
            "Definition loader2_translation_failed : False := I.\n" % _comment(str(err)))


def write(repo=None):
    """writes both generated files; a group whose translation fails gets a file that does not
    compile (the other group is still written), then the first error is raised"""
    import extract_consts as X
    changed, first = False, None
    for group, rel in GROUPS.items():
        path = os.path.join(common.COQ, rel)
        try:
            text = render(repo, group)
        except Exception as e:
            X.write(path, failure_text("%s: %s" % (type(e).__name__, e)))
            first = first or e
            continue
        changed |= bool(X.write(path, text))
    if first is not None:
        raise first
    return changed


if __name__ == "__main__":
    if "--write" in sys.argv[1:]:
        print("written" if write() else "unchanged", ", ".join(os.path.join(common.COQ, r) for r in GROUPS.values()))
    else:
        for g in GROUPS:
            sys.stdout.write(render(group=g))
