"""Status of the translator tie of the scorer's parse (harness/translate_scorer.py), as a
correspondence-style obligation of C13: gen/Scorer_gen.v must have been generated from the
current source and must compile, and the two files with the equality proofs (generated
definition = hand-written model Scorer.score over Segment.parse; the theorems of C13 over the
generated definition) must have been built by `make` from the current generated text.  When
one was not, it is compiled once more on its own to name the lemma that no longer checks (the
broken theorem a `no-failing-input-found` verdict names), or the construct the translator
refused."""
import omen_gen_tie

GEN = "gen/Scorer_gen.v"
PROOFS = ("theories/ScorerGenProofs.v", "theories/ScorerGenInst.v")
NAME = ("translator-tie:translated PCFGPasswordScorer.parse = model Scorer.score over Segment.parse "
        "(gen/Scorer_gen.v, ScorerGenProofs.v, ScorerGenInst.v)")


def obligation():
    """-> (name, ok, detail) for the `corr` list of C13"""
    for proofs in PROOFS:
        st = omen_gen_tie.status(NAME, GEN, proofs)
        if not st[1]:
            return st
    return (NAME, True, "")
