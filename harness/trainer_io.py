"""Trainer I/O harness shared by C06, C07 and C19: generators of training lists
and of their file encodings, drivers for the real trainer (in-process with the
parser / reader / OMEN tables captured, and `trainer.py` as a subprocess on a
scratch copy of the code tree), the real loaders, independent recounts and the
emission of Coq cases for coq/theories/IoCorr.v.

Every random choice comes from the caller's random.Random.  Runs are cached
inside one process only."""
import codecs
import configparser
import copy
import json
import os
import subprocess
import unicodedata
from collections import Counter

import common
from consts import trainer_io as K

common.repo_on_path()

ENCODINGS = ("utf-8", "latin-1", "cp1251", "cp1252")

# ---------------------------------------------------------------------------
# character classes

_classes = {}


def char_classes():
    """Probed / extracted classes of special characters (code points)."""
    if _classes:
        return _classes
    P = K.probe_interpreter()
    try:
        rej, _ = K.extract_check_valid()
    except Exception:      # noqa: BLE001 - the source has a shape the extractor refuses: ask the running code instead
        from lib_trainer.trainer_file_input import check_valid
        cand = sorted(set(range(0x300)) | set(P["py_linebreaks"]) | set(P["py_whitespace"]))
        rej = [c for c in cand if not check_valid("a" + chr(c) + "b")]
    cf = [c for c in range(0x110000) if unicodedata.category(chr(c)) == "Cf"]
    _classes.update({
        "linebreak": list(P["py_linebreaks"]),
        "whitespace": list(P["py_whitespace"]),
        "int_whitespace": list(P["py_int_whitespace"]),
        "format": cf,
        "rejected": list(rej),
        "decimal_zeros": list(P["py_decimal_zeros"]),
    })
    return _classes


def encodable(s, enc):
    try:
        s.encode(enc)
        return True
    except UnicodeEncodeError:
        return False


def special_chars_for(enc, rng, n_format=6):
    """Every probed line-break and white-space character the encoding can
    represent, plus a sample of format characters, NUL..US representatives and
    a few other troublemakers."""
    C = char_classes()
    out = []
    for c in sorted(set(C["linebreak"]) | set(C["whitespace"])):
        if encodable(chr(c), enc):
            out.append(c)
    fmt = [c for c in C["format"] if encodable(chr(c), enc)]
    fixed = [c for c in (0xAD, 0x200B, 0x200C, 0x200D, 0x200E, 0x2060, 0xFEFF, 0x061C) if c in fmt]
    out += fixed
    rest = [c for c in fmt if c not in fixed]
    rng.shuffle(rest)
    out += rest[:n_format]
    for c in (0x00, 0x01, 0x1B, 0x7F, 0x80, 0x9F, 0x300, 0x1F600, 0x10FFFF, 0xFFFE, 0xE000, 0x130, 0x3A3, 0xDF):
        if encodable(chr(c), enc) and c not in out:
            out.append(c)
    return out


# ---------------------------------------------------------------------------
# password and list generators

WORDS = ["password", "love", "monkey", "dragon", "iloveyou", "secret", "summer", "shadow", "Princess", "LetMeIn",
         "pass", "word", "a", "zz", "PaSSword", "QWERTY", "football", "baseball", "superman", "trustno"]
NONASCII = {
    "utf-8": ["пароль", "любовь", "café", "über", "señor", "密码", "パスワード", "😀", "naïve", "Ж", "ß",
              "٣٤", "²", "ñandú", "Ωmega", "éé"],
    "latin-1": ["café", "über", "señor", "naïve", "ß", "²", "é", "ñandú", "Ãµ"],
    "cp1251": ["пароль", "любовь", "Ж", "привет", "Москва"],
    "cp1252": ["café", "über", "señor", "naïve", "ß", "€uro", "œuvre", "é"],
}
DIGITS = ["1", "12", "123", "123456", "2019", "1984", "007", "42", "2024", "19", "99", "00", "1234"]
SYMBOLS = ["!", "!!", "@", "#", "$$", "*", "?", ".", "_", "-", " ", "  ", "! ", "%^&"]
WALKS = ["1qaz", "qwerty", "asdf", "zxcvbn", "1q2w3e", "qazwsx", "1qaz2wsx"]
CONTEXT = ["#1", "<3", ";p", "No.1", "Mr.", "*0*"]
EMAILS = ["bob@gmail.com", "x.y@yahoo.com", "me@example.org"]
SITES = ["www.google.com", "facebook.com", "http://test.org", "mysite.net"]
# richer e-mail / website material (kinds "email2" / "site2": only on request, the default mix is unchanged)
MAIL_USERS = ["bob", "alice", "x.y", "Mr.X", "j_doe", "a1", "info", "Bob"]
MAIL_PROVIDERS = ["gmail.com", "yahoo.com", "hotmail.com", "mail.ru", "web.de", "yahoo.co.uk", "aol.com", "example.org",
                  "GMAIL.COM", "Yahoo.com", "uni.edu", "gmx.net", "google.com", "facebook.com"]
SITE_PREFIXES = ["", "", "www.", "www.", "http://", "http://www.", "WWW.", "https://", "https://www."]
SITE_HOSTS = ["google.com", "facebook.com", "test.org", "mysite.net", "bbc.co.uk", "yandex.ru", "Example.COM", "heise.de",
              "myspace.com", "gmail.com", "yahoo.com", "mail.ru"]
SITE_TAILS = ["", "", "1", "123", "/", "/index.html", "!", "2019"]
HEXLOOK = ["$HEX[", "$HEX[41]x", "x$HEX[41]", "$hex[41]", "$HEX[41", "HEX[41]", "$HEX [41]"]
HEXSHAPED = ["$HEX[41]", "$HEX[zz]", "$HEX[]", "$HEX[4]", "$HEX[41 42]", "$HEX[c3]", "$HEX[4142]]"]


def gen_password(rng, enc, kind=None):
    """One logical password, encodable in `enc`."""
    kind = kind or rng.choice(["word", "word", "wd", "wd", "dw", "wsd", "walk", "year", "ctx", "multi", "na", "na",
                               "space", "email", "site", "sym", "digits", "hexlook", "mixed"])
    w = rng.choice(WORDS)
    if rng.random() < 0.2:
        w = w.capitalize()
    na = rng.choice(NONASCII[enc])
    if kind == "word":
        return w
    if kind == "wd":
        return w + rng.choice(DIGITS)
    if kind == "dw":
        return rng.choice(DIGITS) + w
    if kind == "wsd":
        return w + rng.choice(SYMBOLS) + rng.choice(DIGITS)
    if kind == "walk":
        return rng.choice(WALKS) + rng.choice(["", rng.choice(WORDS), rng.choice(DIGITS)])
    if kind == "year":
        return w + rng.choice(["2019", "1984", "2001", "1999"])
    if kind == "ctx":
        return w + rng.choice(CONTEXT)
    if kind == "multi":
        return rng.choice(WORDS) + rng.choice(WORDS)
    if kind == "na":
        return rng.choice([na, na + rng.choice(DIGITS), w + na, na + rng.choice(SYMBOLS)])
    if kind == "space":
        return rng.choice([" " + w, w + " ", " " + w + " ", w + " " + rng.choice(WORDS), "  " + w + rng.choice(DIGITS),
                           w + "  ", " "])
    if kind == "email":
        return rng.choice(EMAILS) + rng.choice(["", "1", "!"])
    if kind == "site":
        return rng.choice(SITES) + rng.choice(["", "1", "123"])
    if kind == "email2":
        return rng.choice(MAIL_USERS) + "@" + rng.choice(MAIL_PROVIDERS) + rng.choice(["", "", "1", "!", "123"])
    if kind == "site2":
        return (rng.choice(SITE_PREFIXES) + rng.choice(["", "", "", "mail.", "m."]) + rng.choice(SITE_HOSTS)
                + rng.choice(SITE_TAILS))
    if kind == "sym":
        return rng.choice(SYMBOLS) + rng.choice(SYMBOLS)
    if kind == "digits":
        return rng.choice(DIGITS)
    if kind == "hexlook":
        return rng.choice(HEXLOOK)
    return rng.choice(WORDS)[:3] + rng.choice(DIGITS) + rng.choice(SYMBOLS) + na


def seed_with_char(rng, enc, cp):
    """A password carrying the special character cp (first / middle / last / alone / repeated)."""
    c = chr(cp)
    w = rng.choice(WORDS[:12])
    return rng.choice([w + c, c + w, w[:3] + c + w[3:], w + c + rng.choice(DIGITS), c, w + c + c,
                       w + " " + c, c + " " + w])


def gen_entries(rng, enc, n_distinct=None, specials=(), dup_bias=0.5, kinds=None):
    """A logical training list: [(password, count)] in order; passwords may
    repeat as separate entries (non-adjacent duplicates)."""
    n = n_distinct or rng.randint(3, 14)
    entries = []
    for _ in range(n):
        p = gen_password(rng, enc, rng.choice(kinds) if kinds else None)
        cnt = 1
        if rng.random() < dup_bias:
            cnt = rng.choice([1, 2, 2, 3, 3, 4, 5, 7])
        entries.append((p, cnt))
    for cp in specials:
        entries.insert(rng.randint(0, len(entries)), (seed_with_char(rng, enc, cp), rng.choice([1, 1, 2, 3])))
    if entries and rng.random() < 0.4:          # a non-adjacent repeat
        entries.append(rng.choice(entries))
    if rng.random() < 0.3:                      # tied counts and single-item length classes
        entries.append((rng.choice(WORDS), 2))
        entries.append((rng.choice(WORDS), 2))
    return [(p, c) for p, c in entries if encodable(p, enc)]


def flatten(entries):
    out = []
    for p, c in entries:
        out += [p] * c
    return out


def is_hex_shaped(p):
    return p.startswith("$HEX[") and p.endswith("]")


def has_linebreak(p):
    lb = set(char_classes()["linebreak"])
    return any(ord(c) in lb for c in p)


def hex_form(p, enc):
    return "$HEX[" + p.encode(enc).hex() + "]"


def junk_lines(rng, enc, prefix):
    """Raw byte payloads every reader must skip (with the counter they bump):
    (bytes, kind).  Usable in every variant (a count is put in front of them in
    prefix mode)."""
    J = [(b"", "blank"), (b"pass\tword", "tab"), (b"\tx", "tab"), (b"ab\x01cd", "control"), (b"\x7f\x00", "control"),
         (b"$HEX[zz]", "badhex"), (b"$HEX[4]", "badhex"), (b"$HEX[]", "blank-hex"),
         (b"$HEX[09]", "hex-tab"), (b"$HEX[610a62]", "hex-newline")]
    if enc == "utf-8":
        J += [(b"caf\xe9", "undecodable"), (b"\xff\xfeab", "undecodable"), (b"$HEX[c3]", "badhex-utf8"),
              (b"$HEX[e9]", "badhex-utf8"), (b"ab\xc3", "undecodable"), (b"\xed\xa0\x80x", "undecodable")]
    if enc == "cp1252":
        J += [(b"ab\x81cd", "undecodable"), (b"$HEX[8d]", "badhex-cp")]
    if enc == "cp1251":
        J += [(b"ab\x98cd", "undecodable"), (b"$HEX[98]", "badhex-cp")]
    rng.shuffle(J)
    return J[:rng.randint(1, 5)]


def build_file(rng, entries, enc, mode, eol=b"\n", junk=(), final_eol=True, pads=True):
    """Bytes of a training file for the logical list `entries`.
    mode: 'plain'  every password on its own line, count times (hex only where unavoidable)
          'hex'    every line $HEX[...]
          'mixed'  per line a random choice of plain / hex
          'prefix' one line per entry: '<count> <payload>', payload plain or hex at random
    Passwords that are hex-shaped or contain a line break can only be written in
    hex form.  `junk`: [(index, raw_bytes, count)] lines inserted before entry #index."""
    lines = []
    junk_at = {}
    for idx, raw, cnt in junk:
        junk_at.setdefault(idx, []).append((raw, cnt))

    def payload(p, want_hex):
        if want_hex or is_hex_shaped(p) or has_linebreak(p) or p != p.rstrip("\r\n") or p == "":
            return hex_form(p, enc).encode("ascii")
        return p.encode(enc)

    def emit(raw, cnt):
        if mode == "prefix":
            pad = b""
            if pads and rng.random() < 0.3:
                pad = rng.choice([b" ", b"   ", b"\t", b" \t "])
            lines.append(pad + str(cnt).encode("ascii") + b" " + raw)
        else:
            for _ in range(cnt):
                lines.append(raw)

    for i, (p, cnt) in enumerate(entries):
        for raw, jc in junk_at.get(i, []):
            emit(raw, jc)
        if mode == "prefix":
            emit(payload(p, rng.random() < 0.35), cnt)
        else:
            for _ in range(cnt):
                wh = mode == "hex" or (mode == "mixed" and rng.random() < 0.5)
                lines.append(payload(p, wh))
    for raw, jc in junk_at.get(len(entries), []):
        emit(raw, jc)
    if eol == "mixed":
        data = b""
        for i, ln in enumerate(lines):
            data += ln
            if i + 1 < len(lines) or final_eol:
                data += rng.choice([b"\n", b"\r\n"])
        return data
    data = eol.join(lines)
    if final_eol and lines:
        data += eol
    return data


def expected_sequence(entries):
    """What every reader must yield for the logical list (before check_valid)."""
    return flatten(entries)


# ---------------------------------------------------------------------------
# the real reader

def read_passwords(path, enc, prefixcount):
    """Run the real TrainerFileInput over the file."""
    from lib_trainer.trainer_file_input import TrainerFileInput
    fi = TrainerFileInput(path, enc, prefixcount)
    seq = list(fi.read_password())
    return seq, fi.num_passwords, fi.num_encoding_errors


_ro_cache = []


def reader_open():
    if not _ro_cache:
        try:
            _ro_cache.append(K.extract_reader_open())
        except Exception:      # noqa: BLE001 - unrecognised source shape: the oracles still run, on the published way of opening
            _ro_cache.append({"kind": "codecs", "newline": None, "glue": None})
    return _ro_cache[0]


def stream_text(path, enc):
    """The decoded text as the reader's file object sees it (opened the way the
    source opens it: consts.trainer_io.extract_reader_open)."""
    ro = reader_open()
    if ro["kind"] == "codecs":
        with codecs.open(path, "r", encoding=enc, errors="surrogateescape") as f:
            return f.read()
    with open(path, "r", encoding=enc, errors="surrogateescape", newline=ro["newline"]) as f:
        return f.read()


def reader_linebreaks():
    return K.reader_linebreaks_of(reader_open(), char_classes()["linebreak"])


def unencodable_chars(text, enc):
    out = []
    for c in sorted(set(text)):
        if not encodable(c, enc):
            out.append(ord(c))
    return out


def surrogate_reason_aborts(enc):
    """Does the codec report 'surrogates not allowed' for an escaped byte?"""
    try:
        "\udc80".encode(enc)
    except UnicodeEncodeError as e:
        return e.reason == "surrogates not allowed"
    return False


def hex_decode_table(text, enc):
    """bytes.decode(enc) for every $HEX payload that can occur in the text."""
    tbl = {}
    for ln in text.splitlines():
        cands = [ln.rstrip("\r\n")]
        t = cands[0].lstrip().split(" ")
        cands.append(" ".join(t[1:]))
        for c in cands:
            if c.startswith("$HEX[") and c.endswith("]"):
                try:
                    b = bytes.fromhex(c[5:-1])
                except ValueError:
                    continue
                try:
                    tbl[bytes(b)] = b.decode(enc)
                except UnicodeDecodeError:
                    tbl[bytes(b)] = None
    return tbl


# ---------------------------------------------------------------------------
# the real trainer

class TrainRun:
    pass


def parser_counters(parser):
    """Deep copy of every count_* table of a PCFGPasswordParser (name -> copy)."""
    return {k: copy.deepcopy(v) for k, v in sorted(vars(parser).items()) if k.startswith("count_")}


def read_tree(d):
    out = {}
    for root, _, files in os.walk(d):
        for fn in files:
            p = os.path.join(root, fn)
            out[os.path.relpath(p, d)] = open(p, "rb").read()
    return out


def normalise_tree(tree):
    """Drop what legitimately differs between two runs: the uuid and the
    training file name in config.ini."""
    out = dict(tree)
    if "config.ini" in out:
        lines = out["config.ini"].split(b"\n")
        lines = [l for l in lines if not (l.startswith(b"uuid = ") or l.startswith(b"filename = "))]
        out["config.ini"] = b"\n".join(lines)
    return out


def program_info(training_file, enc, coverage, prefixcount, ngram, alphabet_size, save_sensitive, multiword=False):
    return {'name': 'PCFG Trainer', 'version': '4.7', 'author': 'Matt Weir', 'contact': 'cweir@vt.edu',
            'rule_name': 'X', 'training_file': training_file, 'encoding': enc, 'comments': '',
            'save_sensitive': save_sensitive, 'prefixcount': prefixcount, 'ngram': ngram,
            'alphabet_size': alphabet_size,
            'alphabet': 'abcdefghijklmnopqrstuvwxyzABCDEFGHIJKLMNOPQRSTUVWXYZ0123456789!.*@-_$#<?',
            'smoothing': 0.01, 'coverage': coverage, 'max_len': 21, 'multiword': multiword or False}


def train_inprocess(training_file, enc, rule_dir, coverage=0.6, prefixcount=False, ngram=4, alphabet_size=100,
                    save_sensitive=False, multiword=None):
    """run_trainer of the working tree, in-process, writing to rule_dir, with the
    three readers, the parser (its counters), every section list and the OMEN
    tables captured through module attributes (no repository change)."""
    import lib_trainer.run_trainer as RT
    import lib_trainer.pcfg_password_parser as PP
    from lib_trainer.trainer_file_output import create_rule_folders
    rec = TrainRun()
    rec.sections, rec.readers, rec.parsers, rec.omen, rec.omen_save = [], [], [], [], None
    o_bsc, o_tfi, o_pp, o_al, o_save = (PP.base_structure_creation, RT.TrainerFileInput, RT.PCFGPasswordParser,
                                        RT.AlphabetLookup, RT.save_omen_rules_to_disk)
    o_stats = getattr(RT, "print_statistics", None)
    rec.snapshot = None

    def stats(pcfg_parser, *a, **k):
        # the moment parsing has ended (all three passes done, nothing saved yet): every count_* table as it is NOW
        if rec.snapshot is None:
            rec.snapshot = parser_counters(pcfg_parser)
        return o_stats(pcfg_parser, *a, **k)

    def bsc(section_list):
        rec.sections.append([(s[0], s[1]) for s in section_list])
        return o_bsc(section_list)

    class RecInput(o_tfi):
        def __init__(self, *a, **k):
            super().__init__(*a, **k)
            self.verif_seq = []
            self.verif_file = a[0] if a else k.get("filename")
            rec.readers.append(self)

        def read_password(self):
            for p in super().read_password():
                self.verif_seq.append(p)
                yield p

    def mk_parser(*a, **k):
        p = o_pp(*a, **k)
        rec.parsers.append(p)
        return p

    def mk_al(*a, **k):
        x = o_al(*a, **k)
        rec.omen.append(x)
        return x

    def save_omen(omen_trainer, omen_keyspace, omen_levels_count, num_valid_passwords, base_directory, pinfo):
        rec.omen_save = {"keyspace": copy.deepcopy(omen_keyspace), "levels_count": copy.deepcopy(omen_levels_count),
                         "n": num_valid_passwords, "alphabet": pinfo['alphabet']}
        return o_save(omen_trainer, omen_keyspace, omen_levels_count, num_valid_passwords, base_directory, pinfo)

    pinfo = program_info(training_file, enc, coverage, prefixcount, ngram, alphabet_size, save_sensitive, multiword)
    PP.base_structure_creation, RT.TrainerFileInput, RT.PCFGPasswordParser = bsc, RecInput, mk_parser
    RT.AlphabetLookup, RT.save_omen_rules_to_disk = mk_al, save_omen
    if o_stats is not None:
        RT.print_statistics = stats
    try:
        def go():
            if not create_rule_folders(rule_dir):
                return False
            return RT.run_trainer(pinfo, rule_dir)
        try:
            rec.ok, rec.stdout, rec.stderr = common.quiet_call(go)
            rec.exc = None
        except Exception as e:          # noqa: BLE001 - the implementation raised
            rec.ok, rec.stdout, rec.stderr, rec.exc = False, "", "", repr(e)
    finally:
        PP.base_structure_creation, RT.TrainerFileInput, RT.PCFGPasswordParser = o_bsc, o_tfi, o_pp
        RT.AlphabetLookup, RT.save_omen_rules_to_disk = o_al, o_save
        if o_stats is not None:
            RT.print_statistics = o_stats
    rec.ok = bool(rec.ok)
    rec.rule_dir, rec.enc, rec.coverage, rec.prefixcount, rec.ngram = rule_dir, enc, coverage, prefixcount, ngram
    rec.save_sensitive = save_sensitive
    rec.tree = read_tree(rule_dir) if os.path.isdir(rule_dir) else {}
    rec.parser = rec.parsers[0] if rec.parsers else None
    # the reader of the --multiword pre-training list (if any) is not one of the three passes over the training file
    rec.multiword_reader = [r for r in rec.readers if multiword and getattr(r, "verif_file", None) == multiword]
    rec.readers = [r for r in rec.readers if r not in rec.multiword_reader]
    rec.seqs = [list(r.verif_seq) for r in rec.readers]
    rec.n = rec.readers[0].num_passwords if rec.readers else 0
    rec.nerr = [r.num_encoding_errors for r in rec.readers]
    rec.npws = [r.num_passwords for r in rec.readers]
    rec.omen_trainer = rec.omen[0] if rec.omen else None
    return rec


def train_cli(code, training_file, name, enc, coverage=0.6, prefixcount=False, hashseed="0", ngram=4,
              save_sensitive=False, timeout=300, multiword=None):
    """`trainer.py` of a scratch copy of the code tree as a subprocess."""
    env = common.subenv()
    env["PYTHONPATH"] = code
    env["PYTHONHASHSEED"] = str(hashseed)
    cmd = [common.PY, "trainer.py", "-t", training_file, "-r", name, "-e", enc, "-c", repr(coverage), "-n", str(ngram)]
    if prefixcount:
        cmd.append("--prefixcount")
    if save_sensitive:
        cmd.append("--save_sensitive")
    if multiword:
        cmd += ["--multiword", multiword]
    r = subprocess.run(cmd, cwd=code, env=env, stdin=subprocess.DEVNULL, stdout=subprocess.PIPE,
                       stderr=subprocess.PIPE, timeout=timeout)
    d = os.path.join(code, "Rules", name)
    return r.returncode, r.stdout.decode("utf-8", "replace"), r.stderr.decode("utf-8", "replace"), read_tree(d)


# ---------------------------------------------------------------------------
# independent recount from the captured section lists

PREFIXES = (("http://www.", 1), ("http://", 0), ("www.", 0))


def lower_in_place(s):
    """s lower-cased as far as every character keeps its place (U+0130 stays)."""
    return "".join(c.lower() if len(c.lower()) == 1 else c for c in s)


def tld_list():
    """The TLD list of the working tree (a data constant), [] when it cannot be read."""
    try:
        from consts import trainer_seg
        return list(trainer_seg.extract_data()["tld_list"])
    except Exception:      # noqa: BLE001 - unrecognised source shape: ask the running code
        try:
            from lib_trainer.detection_rules.tld_list import get_tld_list
            return [t for t in get_tld_list() if isinstance(t, str) and t]
        except Exception:      # noqa: BLE001
            return []


def site_parts(url, tlds):
    """(host, prefix) of a website segment, from its text alone: the URL ends with a
    TLD of the list or goes on with '/' behind one; the host is what stands between
    the last '.' in front of that TLD and the TLD's end; the prefix is the one of
    http://www. / http:// / www. that stands in front of the host (None if none).
    Returns None when the text does not determine the TLD (no or several candidates)."""
    cands = set()
    for t in tlds:
        i = url.find(t)
        while i != -1:
            e = i + len(t)
            if e == len(url) or url[e] == "/":
                cands.add((i, e))
            i = url.find(t, i + 1)
    if len(cands) != 1:
        return None
    ti, te = cands.pop()
    hs = url.rfind(".", 0, ti) + 1
    prefix = None
    for p, extra in PREFIXES:
        k = url[:hs + extra].rfind(p)
        if k != -1:
            if k != 0:
                return None
            prefix = p
            break
    return url[hs:te], prefix


def recount(sections, tlds=None):
    """The counters the parser must hold, recomputed from the section lists the
    real detectors produced.  Terminals: alpha (lower-cased) + mask, digits,
    other, keyboard, years, context, e-mail text, e-mail provider (what follows
    the first '@' of an e-mail segment), website text, website host and prefix
    (site_parts; only with `tlds`); structures: base (supported only), raw, prince.
    R["site_exact"] / R["email_exact"]: every website / e-mail segment determined its items."""
    R = {"alpha": {}, "masks": {}, "digits": {}, "other": {}, "keyboard": {}, "years": Counter(),
         "context": Counter(), "base": Counter(), "raw": Counter(), "prince": Counter(),
         "emails": Counter(), "providers": Counter(), "urls": Counter(), "hosts": Counter(), "prefixes": Counter(),
         "site_exact": tlds is not None and len(tlds) > 0, "email_exact": True, "n_email": 0, "n_site": 0}

    def li(d, item):
        d.setdefault(len(item), Counter())[item] += 1
    for sl in sections:
        supported = True
        for text, label in sl:
            t = label[0]
            R["prince"][label] += 1
            if t in ("E", "W"):
                supported = False
            if t == "A":
                li(R["alpha"], text.lower())
                li(R["masks"], "".join("U" if ch.isupper() else "L" for ch in text))
            elif t == "D":
                li(R["digits"], text)
            elif t == "O":
                li(R["other"], text)
            elif t == "K":
                li(R["keyboard"], text)
            elif t == "Y":
                R["years"][text] += 1
            elif t == "X":
                R["context"][text] += 1
            elif t == "E":
                R["n_email"] += 1
                em = lower_in_place(text)
                if "\u03a3" in text or "@" not in text:     # final-sigma context / not an address: not decided here
                    R["email_exact"] = False
                R["emails"][em] += 1
                R["providers"][em[em.find("@") + 1:]] += 1
            elif t == "W":
                R["n_site"] += 1
                R["urls"][text] += 1
                hp = site_parts(text, tlds) if tlds else None
                if hp is None:
                    R["site_exact"] = False
                else:
                    R["hosts"][hp[0]] += 1
                    R["prefixes"][hp[1]] += 1
        s = "".join(l for _, l in sl)
        if supported:
            R["base"][s] += 1
        R["raw"][s] += 1
    return R


def most_common_stable(counter):
    """Independent of Counter.most_common: stable, descending."""
    items = list(counter.items())
    out = []
    for it in items:                     # insertion sort keeping first-come-first for ties
        i = len(out)
        while i > 0 and out[i - 1][1] < it[1]:
            i -= 1
        out.insert(i, it)
    return out


def expected_lines(counter):
    """[(value, count/total)] the file must hold (exact division of the code)."""
    items = most_common_stable(counter)
    total = sum(c for _, c in items)
    return [(v, c / total) for v, c in items]


def parse_rule_file(data, enc):
    """Independent, strict parse of a trainer-written file: bytes -> [(value,
    prob_text)] splitting at LF bytes only and at the LAST tab of the line."""
    out = []
    text = data.decode(enc)
    if text == "":
        return out
    if not text.endswith("\n"):
        raise ValueError("file does not end with LF")
    for ln in text[:-1].split("\n"):
        v, _, p = ln.rpartition("\t")
        out.append((v, p))
    return out


def group_lines(lines):
    """Consecutive equal probabilities -> [(values, prob)]."""
    out = []
    for v, p in lines:
        if out and out[-1][1] == p:
            out[-1][0].append(v)
        else:
            out.append(([v], p))
    return out


# ---------------------------------------------------------------------------
# the real loaders

def load_guesser(rule_dir):
    from lib_guesser.pcfg_grammar import PcfgGrammar
    try:
        g, so, se = common.quiet_call(PcfgGrammar, "X", rule_dir, "4.7")
        return g, None, se
    except BaseException as e:      # noqa: BLE001
        return None, repr(e), ""


def load_scorer(rule_dir):
    from lib_scorer.pcfg_password_scorer import PCFGPasswordScorer
    from lib_scorer.grammar_io import load_grammar
    s = PCFGPasswordScorer()
    try:
        ok, so, se = common.quiet_call(load_grammar, s, rule_dir)
    except BaseException as e:      # noqa: BLE001
        return s, False, repr(e)
    return s, bool(ok), se[-300:]


def load_omen_scorer(rule_dir, enc):
    from lib_scorer.omen_scorer import OmenScorer
    try:
        o, so, se = common.quiet_call(OmenScorer, rule_dir, enc, 9)
        return o, None
    except BaseException as e:      # noqa: BLE001
        return None, "%s: %s" % (type(e).__name__, e)


def guesser_file(path, enc):
    """_load_from_file of the guesser on one file."""
    from lib_guesser.grammar_io import _load_from_file
    sec = []
    ok, so, se = common.quiet_call(_load_from_file, sec, path, enc)
    return [(list(g["values"]), g["prob"]) for g in sec] if ok else None


def scorer_file(path, enc):
    from lib_scorer.grammar_io import _load_from_file
    c = Counter()
    ok, so, se = common.quiet_call(_load_from_file, c, path, enc)
    return bool(ok), list(c.items())


# ---------------------------------------------------------------------------
# Coq literals

cs = common.cstr


def cf(x):
    return "(%s)%%float" % common.cfloat(x)


def cN(n):
    return "%d%%N" % n


def cZ(n):
    return "(%d)%%Z" % n


def clist(items, f, ty):
    items = list(items)
    if not items:
        return "(@nil %s)" % ty
    return "[" + "; ".join(f(i) for i in items) + "]"


def cstrs(l):
    return clist(l, cs, "str")


def cpair(a, b):
    return "(%s, %s)" % (a, b)


def copt(x, f):
    return "None" if x is None else "(Some %s)" % f(x)


def repr_table(floats):
    seen, out = set(), []
    for p in floats:
        k = p.hex() if p == p else "nan"
        if k in seen:
            continue
        seen.add(k)
        out.append(p)
    return clist(out, lambda p: cpair(cf(p), cs(repr(p))), "(float * str)")


def pfloat_table(text):
    tbl = {}
    for ln in text.splitlines(True):
        for raw in (ln.rstrip(), ln.rstrip("\r\n")):
            for f in raw.split("\t"):
                if f not in tbl:
                    try:
                        tbl[f] = float(f)
                    except ValueError:
                        tbl[f] = None
    return tbl


def c_pfloat_table(tbl):
    return clist(tbl.items(), lambda kv: cpair(cs(kv[0]), copt(kv[1], cf)), "(str * option float)")


def c_file_case(text, enc):
    return "{| fc_text := %s; fc_pfloat := %s; fc_unenc := %s; fc_abort := %s |}" % (
        cs(text), c_pfloat_table(pfloat_table(text)),
        clist(unencodable_chars(text, enc), cN, "N"), common.cbool(surrogate_reason_aborts(enc)))


def c_counts(counter):
    return clist(counter.items(), lambda kv: cpair(cs(str(kv[0])), cN(kv[1])), "(str * N)")


def c_lcounts(d):
    return clist(d.items(), lambda kv: cpair(cN(kv[0]), c_counts(kv[1])), "(N * list (str * N))")


HEADER = ["From Coq Require Import List NArith ZArith Bool Floats.",
          "From Pcfg Require Import TextFile Counters Reader IoCorr.",
          "Import ListNotations.", "Open Scope float_scope.", "Open Scope N_scope.", ""]


def shard(name, ty, check, cases):
    """One Coq shard: `cases` are Gallina terms of type `ty`."""
    src = list(HEADER)
    src.append("Definition cases : list (%s) := %s." % (ty, clist(cases, str, "(%s)" % ty).replace("; ", ";\n ")))
    src.append("Eval vm_compute in (failing_io %s cases)." % check)
    return (name, "\n".join(src))


def run_shards(prop, groups, per=80):
    """groups: [(kind, ty, check, [(term, replay_info)])] -> corr entries."""
    shards, index = [], {}
    for kind, ty, check, cases in groups:
        for s in range(0, len(cases), per):
            nm = "%s_%03d" % (kind, s // per)
            shards.append(shard(nm, ty, check, [c for c, _ in cases[s:s + per]]))
            index[nm] = (kind, cases[s:s + per])
    corr, bad = [], []
    for name, idx, log in common.run_case_shards(prop, shards):
        kind, cases = index[name]
        if idx is None:
            corr.append((name, False, "shard did not compile: " + log[-700:]))
        elif idx:
            info = cases[idx[0]][1]
            corr.append((name, False, "model and implementation differ (%s) for cases %s; first: %s"
                         % (kind, idx[:10], json.dumps(info, default=str)[:700])))
            bad += [(kind, cases[i][1]) for i in idx]
        else:
            corr.append((name, True, "%d cases" % len(cases)))
    return corr, bad
