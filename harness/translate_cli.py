#!/venv/bin/python
"""ast -> Gallina translator for the guesser's command line / save-file glue (task T17).

Translated on every run from the text of <repo>/pcfg_guesser.py (never imported, never executed):

    main                      -> py_main
    parse_command_line        -> py_parse_command_line
    create_save_config        -> py_create_save_config
    load_save                 -> py_load_save
    (and every other module-level function main reaches through plain calls)

into coq/gen/Cli_gen.v, over the runtime coq/theories/CliRt.v and the Python values / argparse /
configparser model of coq/theories/CliModel.v.  coq/theories/CliGenProofs.v proves the generated
functions equal to the hand-written model (CliModel.m_parse, m_create_save_config, m_load_save,
m_main) for every argv, every save file and every answer of the collaborators.

Reading given to the accepted subset
------------------------------------
* A function body is a statement sequence in the monad `M R A` of CliRt.v (`bind`, `ret`, `return_`,
  `raise`, `try_catch`).  Local variables become Gallina binders `v_<name>` (renaming a local does
  not change the meaning of the generated term); sub-expressions that can raise are bound to
  temporaries `t<n>` in Python's evaluation order.  `if` / `elif` / `else` join by returning the
  tuple of the variables they (re)bind; `a and b` / `a or b` short-circuit; `return` anywhere.
* The dict display assigned in `main` (program_info) is THE mutable object of the program: it lives
  in the world (`pi_new`, `pi_get`, `pi_set`).  A function that receives it as a parameter receives
  that object (checked: the argument is the bare name), so writes by a callee are seen by the caller
  and survive an exception.  The name must only be used as `name[<str literal>]` or as such an
  argument.
* argparse: `argparse.ArgumentParser(description=...)` (no other keyword), `parser.add_argument(
  <str literals>, dest=, action='store'|'store_const', const=, default=, type=int|str, choices=,
  required=False, help=, metavar=)` -> `ap_add_argument` / `mk_opt`; `parser.parse_args()` (no
  arguments: sys.argv[1:] = `e_argv`) -> `ap_parse_args`; `args.<dest>` -> `ns_attr`.
* configparser: `configparser.ConfigParser()`, and on a local variable `c`: `c.read_file(open(n))`,
  `c.has_option(s, k)`, `c.get(s, k)`, `c.getboolean(s, k)`, `c[s][k]`, `c.add_section(s)`,
  `c.set(s, k, v)` (the three mutators rebind `c`; `x = y` between names is refused so that no alias
  of a mutable object exists); `raise configparser.Error(...)`; `except IOError|OSError`,
  `except configparser.Error`, `except Exception`, bare `except`.
* Collaborators, bound by the parameter NAMES read from their `def` in lib_guesser/: `PcfgGrammar(...)`
  (`new_grammar`, logs EGrammar; raising = `e_grammar` answers None), `pcfg.ruleset_info['uuid']`,
  `CrackingSession(pcfg, save_config, save_filename)` / `.run(load_session, limit)` (ECrackRun),
  `HoneywordSession(pcfg, mode)` / `.run(limit)` (EHoneyRun); `print_banner()`.
* `os.path.join(os.path.dirname(os.path.realpath(__file__)), a, ...)` -> `script_path`;
  `datetime.datetime.now().isoformat()` -> `now_iso`; `str(x)`; `+`; `not`; `==`, `!=`, `<`, `<=`,
  `>`, `>=`, `in`, `is None`, `is not None`; constants None / True / False / int / str; list displays.
* A table loop is unrolled at translation time: a local bound ONCE, by `name = [(c11, .., c1k), (c21, ..), ...]` (a list
  or tuple display of tuples of constants, all of one arity - or of plain constants, then the loop binds one name), whose only use is as the iterable of ONE
  `for v1, .., vk in name:` that follows the assignment in the same statement list, is read as the
  loop body repeated once per row with the constants substituted for v1..vk (Python's semantics of
  iterating a list nobody else can reach; a `raise` / `return` in the body ends the sequence as it
  ends the loop).  The loop variables must not be assigned in the body nor used outside the loop,
  the loop has no `else`, `break` or `continue`.  Anything else about such a list (indexing,
  mutation, a second use, non-constant elements) is refused like any tuple / loop.
  `for v.. in <such a display written in the loop header>:` is unrolled the same way.
* `f"...{e}..."` as a value is the concatenation of its literal pieces and `str(e)` of its fields (no conversion, no
  format spec); `getattr(args, '<literal>')` is `args.<literal>`; `os.path.dirname(os.path.realpath(__file__))` is the
  value `e_script_dir`, `os.path.join(a, b, ...)` is the oracle `e_pjoin` on the component strings (`path_join`).
* `print(..., file=sys.stderr)` -> `print_err` (a no-op); a `print` without `file=` -> `print_out`
  (logs EStdout); any other `file=` is refused.

NOT modelled (trusted / out of scope): the text of what is printed, of `help=` / `description=` /
`metavar=` and of exception messages (they are not evaluated: an exception raised while such a text
is built is not seen); what print_banner writes; sys.stderr itself; the exception classes beyond
CliModel.exn; interpolation and key case folding of configparser (option keys in the source must be
lower-case literals); the serialisation of a config to a file (the file system is the oracle `e_fs`);
module-level code outside the translated functions (the `__main__` guard, the imports: the names
`print_banner`, `PcfgGrammar`, `CrackingSession`, `HoneywordSession`, `argparse`, `configparser`,
`os`, `sys`, `datetime` are taken to mean what the import lines at the top say - checked).

Anything else raises Refuse with file:line and coq/gen/Cli_gen.v is replaced by a file that does
not compile (fail closed)."""
import ast
import copy
import os
import sys

sys.path.insert(0, os.path.dirname(os.path.abspath(__file__)))
import common  # noqa: E402

OUT = os.path.join("gen", "Cli_gen.v")
SRC = "pcfg_guesser.py"


class Refuse(Exception):
    pass


def _comment(s):
    return s.replace("(*", "( *").replace("*)", "* )")


# ----------------------------------------------------------------------------- literals

def lit(s):
    if all(32 <= ord(c) < 127 and c != '"' for c in s):
        return '(lit "%s")' % s
    return "([%s]%%N : str)" % "; ".join(str(ord(c)) for c in s)


def zlit(n):
    return "%d%%Z" % n if n >= 0 else "(%d)%%Z" % n


def tup(names):
    if not names:
        return "tt"
    if len(names) == 1:
        return names[0]
    return "(" + ", ".join(names) + ")"


def pat(names):
    if not names:
        return "_"
    if len(names) == 1:
        return names[0]
    return "'(" + ", ".join(names) + ")"


def ind(text, n=2):
    pad = " " * n
    return "\n".join(pad + l if l else l for l in text.split("\n"))


# ----------------------------------------------------------------------------- collaborators

GRAMMAR_FIELDS = [("rule_name", "gc_rule_name"), ("base_directory", "gc_base_directory"), ("version", "gc_version"),
                  ("save_file", "gc_save_file"), ("skip_brute", "gc_skip_brute"), ("skip_case", "gc_skip_case"),
                  ("debug", "gc_debug")]


def _const_default(node, where):
    if not isinstance(node, ast.Constant) or not (node.value is None or isinstance(node.value, (bool, int, str))):
        raise Refuse("%s: default value is not a constant" % where)
    return node.value


def _signature(repo, rel, cls, meth):
    """-> [(param name, default or NODEFAULT)] of cls.meth without self"""
    p = os.path.join(repo, rel)
    tree = ast.parse(open(p, encoding="utf-8").read(), filename=p)
    for n in tree.body:
        if isinstance(n, ast.ClassDef) and n.name == cls:
            for m in n.body:
                if isinstance(m, ast.FunctionDef) and m.name == meth:
                    a = m.args
                    if a.vararg or a.kwarg or a.kwonlyargs or a.posonlyargs:
                        raise Refuse("%s:%d: %s.%s: unsupported parameter kinds" % (rel, m.lineno, cls, meth))
                    names = [x.arg for x in a.args]
                    if not names or names[0] != "self":
                        raise Refuse("%s:%d: %s.%s: first parameter is not self" % (rel, m.lineno, cls, meth))
                    names = names[1:]
                    nd = len(a.defaults)
                    out = []
                    for i, nm in enumerate(names):
                        j = i - (len(names) - nd)
                        out.append((nm, _const_default(a.defaults[j], "%s:%d: %s.%s(%s)" % (rel, m.lineno, cls, meth, nm))
                                    if j >= 0 else NODEFAULT))
                    return out
    raise Refuse("%s: %s.%s not found" % (rel, cls, meth))


class _NoDefault:
    def __repr__(self):
        return "<no default>"


NODEFAULT = _NoDefault()

EXN_CLASS = {"IOError": "CIOError", "OSError": "CIOError", "Exception": "CException", "BaseException": "CAll",
             "configparser.Error": "CConfigError"}
RAISE_CLASS = {"configparser.Error": "ConfigError", "IOError": "IOError", "OSError": "IOError", "ValueError": "ValueError",
               "TypeError": "TypeError", "KeyError": "KeyError", "SystemExit": "SystemExit"}

# what the names must have been imported as
IMPORTS = {"print_banner": ("lib_guesser.banner_info", "print_banner"),
           "PcfgGrammar": ("lib_guesser.pcfg_grammar", "PcfgGrammar"),
           "CrackingSession": ("lib_guesser.cracking_session", "CrackingSession"),
           "HoneywordSession": ("lib_guesser.honeyword_session", "HoneywordSession")}
MODULES = ["argparse", "configparser", "os", "sys", "datetime"]


def dotted(node):
    if isinstance(node, ast.Name):
        return node.id
    if isinstance(node, ast.Attribute):
        b = dotted(node.value)
        return None if b is None else b + "." + node.attr
    return None


# ----------------------------------------------------------------------------- table loops

def _is_const(n):
    return isinstance(n, ast.Constant) and (n.value is None or isinstance(n.value, (bool, int, str)))


def _display_rows(d):
    """a list / tuple display of constants, or of tuples of constants of one arity -> (scalar?, rows) or None"""
    if not (isinstance(d, (ast.List, ast.Tuple)) and d.elts):
        return None
    if all(_is_const(e) for e in d.elts):
        return True, [[e.value] for e in d.elts]
    rows = []
    for e in d.elts:
        if not (isinstance(e, ast.Tuple) and e.elts and all(_is_const(c) for c in e.elts)):
            return None
        rows.append([c.value for c in e.elts])
    if len(set(len(r) for r in rows)) != 1:
        return None
    return False, rows


def _table_rows(stmt):
    """`name = [(c, ..), ..]` / `name = ((c, ..), ..)` / `name = (c, ..)` -> (name, scalar?, rows) or None"""
    if not (isinstance(stmt, ast.Assign) and len(stmt.targets) == 1 and isinstance(stmt.targets[0], ast.Name)):
        return None
    r = _display_rows(stmt.value)
    return None if r is None else (stmt.targets[0].id, r[0], r[1])


class _Subst(ast.NodeTransformer):
    def __init__(self, env):
        self.env = env

    def visit_Name(self, node):
        if isinstance(node.ctx, ast.Load) and node.id in self.env:
            return ast.copy_location(ast.Constant(value=self.env[node.id]), node)
        return node


def _stmt_lists(node):
    for n in ast.walk(node):
        for fld in ("body", "orelse", "finalbody"):
            v = getattr(n, fld, None)
            if isinstance(v, list) and v and isinstance(v[0], ast.stmt):
                yield v


def unroll_tables(fn):
    """-> a copy of the function in which every table loop (see the module docstring) is replaced by its unrolled
    body (and the assignment of the table, if it has a name, is removed).  A display of constant tuples that is used in
    any other way is left alone (and refused later: tuples are outside the subset)."""
    fn = copy.deepcopy(fn)

    def refuse(node, msg):
        raise Refuse("%s:%d: %s: %s" % (SRC, getattr(node, "lineno", 0), fn.name, msg))

    def unroll(loop, scalar, rows, what):
        if loop.orelse:
            refuse(loop, "for ... else over %s" % what)
        tg = loop.target
        if scalar:
            if not isinstance(tg, ast.Name):
                refuse(loop, "the loop over %s unpacks constants" % what)
            tvars = [tg]
        else:
            if isinstance(tg, ast.Name):
                refuse(loop, "the loop over %s binds whole rows (tuples are outside the subset)" % what)
            tvars = list(tg.elts) if isinstance(tg, ast.Tuple) else None
            if tvars is None or not all(isinstance(v, ast.Name) for v in tvars) or len(set(v.id for v in tvars)) != len(tvars):
                refuse(loop, "the target of the loop over %s is not a tuple of distinct names" % what)
            if len(tvars) != len(rows[0]):
                refuse(loop, "the loop over %s unpacks %d names from rows of %d" % (what, len(tvars), len(rows[0])))
        ids = set(v.id for v in tvars)
        inside = set(id(n) for n in ast.walk(loop))
        for n in ast.walk(fn):
            if isinstance(n, ast.Name) and n.id in ids and id(n) not in inside:
                refuse(n, "loop variable %r of the table loop is used outside the loop" % n.id)
            if isinstance(n, ast.arg) and n.arg in ids:
                refuse(loop, "loop variable %r of the table loop is a parameter" % n.arg)
        for b in loop.body:
            for n in ast.walk(b):
                if isinstance(n, ast.Name) and n.id in ids and not isinstance(n.ctx, ast.Load):
                    refuse(n, "loop variable %r is assigned inside the table loop" % n.id)
                if isinstance(n, (ast.Break, ast.Continue)):
                    refuse(n, "break / continue inside the table loop")
                if isinstance(n, (ast.For, ast.While, ast.FunctionDef, ast.Lambda, ast.ClassDef, ast.Global, ast.Nonlocal)):
                    refuse(n, "%s inside the table loop" % type(n).__name__)
        out = []
        for row in rows:
            env = {v.id: c for v, c in zip(tvars, row)}
            for b in loop.body:
                out.append(ast.fix_missing_locations(_Subst(env).visit(copy.deepcopy(b))))
        return out

    changed = True
    while changed:
        changed = False
        for blk in _stmt_lists(fn):
            for i, st in enumerate(blk):
                # for v.. in <display of constants>:   (nobody else can reach the display)
                if isinstance(st, ast.For):
                    r = _display_rows(st.iter)
                    if r is not None:
                        blk[i:i + 1] = unroll(st, r[0], r[1], "the display of constants")
                        changed = True
                        break
                    continue
                tr = _table_rows(st)
                if tr is None:
                    continue
                name, scalar, rows = tr
                names = [n for n in ast.walk(fn) if isinstance(n, ast.Name) and n.id == name]
                stores = [n for n in names if not isinstance(n.ctx, ast.Load)]
                loads = [n for n in names if isinstance(n.ctx, ast.Load)]
                fors = [x for x in blk[i + 1:] if isinstance(x, ast.For) and isinstance(x.iter, ast.Name) and x.iter.id == name]
                if len(stores) != 1 or len(loads) != 1 or len(fors) != 1 or loads[0] is not fors[0].iter \
                        or name in [a.arg for a in fn.args.args]:
                    continue                      # not a table loop: the tuple display is refused downstream
                loop = fors[0]
                body = unroll(loop, scalar, rows, "the table %r" % name)
                j = blk.index(loop)
                blk[j:j + 1] = body
                del blk[i]
                changed = True
                break
            if changed:
                break
    return fn


# ----------------------------------------------------------------------------- one function

class Fn:
    def __init__(self, tr, node, heap):
        self.tr, self.node, self.heap = tr, unroll_tables(node), heap      # heap: name of THE dict in this function (or None)
        self.ntemp = 0
        self.prelude = []

    def refuse(self, node, msg):
        raise Refuse("%s:%d: %s: %s" % (SRC, getattr(node, "lineno", 0), self.node.name, msg))

    def temp(self):
        self.ntemp += 1
        return "t%d" % self.ntemp

    # ---- expressions: -> (binds [(pattern, M text)], pure text, kind)
    def const(self, node, v):
        if v is None:
            return "VNone"
        if isinstance(v, bool):
            return "(VBool %s)" % ("true" if v else "false")
        if isinstance(v, int):
            return "(VInt %s)" % zlit(v)
        if isinstance(v, str):
            return "(VStr %s)" % lit(v)
        self.refuse(node, "constant %r is outside the subset" % (v,))

    def strlit(self, node, what):
        if not (isinstance(node, ast.Constant) and isinstance(node.value, str)):
            self.refuse(node, "%s must be a string literal" % what)
        return node.value

    def val(self, e, scope):
        """expression that must be a plain value"""
        b, t, k = self.expr(e, scope)
        if k != "val":
            self.refuse(e, "a %s object is used as a value" % k)
        return b, t

    def chain(self, binds, final):
        text = final
        for p, m in reversed(binds):
            text = "bind (%s) (fun %s =>\n%s)" % (m, p, text)
        return text

    def expr(self, e, scope):
        if isinstance(e, ast.Constant):
            return [], self.const(e, e.value), "val"
        if isinstance(e, ast.Name):
            if e.id == self.heap:
                self.refuse(e, "the program_info dict %r is used as a value (only %s[<literal>] and passing it to a "
                            "translated function are in the subset)" % (e.id, e.id))
            if e.id not in scope:
                self.refuse(e, "name %r is not a local variable bound on every path to this use" % e.id)
            return [], "v_" + e.id, scope[e.id]
        if isinstance(e, ast.List):
            binds, items = [], []
            for x in e.elts:
                b, t = self.val(x, scope)
                binds += b
                items.append(t)
            return binds, "(VList [%s])" % "; ".join(items), "val"
        if isinstance(e, ast.UnaryOp) and isinstance(e.op, ast.Not):
            b, t = self.val(e.operand, scope)
            return b, "(py_not %s)" % t, "val"
        if isinstance(e, ast.UnaryOp) and isinstance(e.op, ast.USub) and isinstance(e.operand, ast.Constant) \
                and isinstance(e.operand.value, int) and not isinstance(e.operand.value, bool):
            return [], "(VInt %s)" % zlit(-e.operand.value), "val"
        if isinstance(e, ast.BoolOp):
            return self.boolop(e, scope)
        if isinstance(e, ast.Compare):
            return self.compare(e, scope)
        if isinstance(e, ast.BinOp) and isinstance(e.op, ast.Add):
            b1, t1 = self.val(e.left, scope)
            b2, t2 = self.val(e.right, scope)
            t = self.temp()
            return b1 + b2 + [(t, "py_add %s %s" % (t1, t2))], t, "val"
        if isinstance(e, ast.Subscript):
            return self.subscript(e, scope)
        if isinstance(e, ast.Attribute):
            if isinstance(e.value, ast.Name) and scope.get(e.value.id) == "ns":
                t = self.temp()
                return [(t, "ns_attr v_%s %s" % (e.value.id, lit(e.attr)))], t, "val"
            self.refuse(e, "attribute %s is outside the subset" % ast.unparse(e))
        if isinstance(e, ast.Call):
            return self.call(e, scope)
        if isinstance(e, ast.JoinedStr):
            # f"lit{e1}lit{e2}": the pieces concatenated left to right, a field is str(e) (format(e, '') of the modelled values)
            binds, acc = [], None
            for part in e.values:
                if isinstance(part, ast.Constant) and isinstance(part.value, str):
                    if part.value == "":
                        continue
                    piece = self.const(part, part.value)
                elif isinstance(part, ast.FormattedValue) and part.conversion == -1 and part.format_spec is None:
                    b, t = self.val(part.value, scope)
                    piece = self.temp()
                    binds += b + [(piece, "py_str %s" % t)]
                else:
                    self.refuse(e, "f-string field with a conversion / format spec")
                if acc is None:
                    acc = piece
                else:
                    t2 = self.temp()
                    binds.append((t2, "py_add %s %s" % (acc, piece)))
                    acc = t2
            return binds, (acc if acc is not None else self.const(e, "")), "val"
        self.refuse(e, "expression %s is outside the subset" % type(e).__name__)

    def boolop(self, e, scope):
        is_and = isinstance(e.op, ast.And)
        binds, acc = self.val(e.values[0], scope)
        for right in e.values[1:]:
            b2, t2 = self.val(right, scope)
            cond = "py_truthy %s" % acc
            if not b2:
                acc = "(if %s then %s else %s)" % ((cond, t2, acc) if is_and else (cond, acc, t2))
            else:
                t = self.temp()
                rhs = self.chain(b2, "ret %s" % t2)
                keep = "ret %s" % acc
                m = "if %s then\n%s\nelse\n%s" % ((cond, ind(rhs), ind(keep)) if is_and else (cond, ind(keep), ind(rhs)))
                binds = binds + [(t, m)]
                acc = t
        return binds, acc, "val"

    def compare(self, e, scope):
        if len(e.ops) != 1:
            self.refuse(e, "chained comparison")
        op, l, r = e.ops[0], e.left, e.comparators[0]
        if isinstance(op, (ast.Is, ast.IsNot)):
            if not (isinstance(r, ast.Constant) and r.value is None):
                self.refuse(e, "`is` is only accepted against None")
            b, t = self.val(l, scope)
            return b, "(%s %s)" % ("py_is_none" if isinstance(op, ast.Is) else "py_is_not_none", t), "val"
        b1, t1 = self.val(l, scope)
        b2, t2 = self.val(r, scope)
        if isinstance(op, ast.Eq):
            return b1 + b2, "(py_eq %s %s)" % (t1, t2), "val"
        if isinstance(op, ast.NotEq):
            return b1 + b2, "(py_ne %s %s)" % (t1, t2), "val"
        if isinstance(op, ast.In):
            return b1 + b2, "(py_in %s %s)" % (t1, t2), "val"
        if isinstance(op, ast.NotIn):
            return b1 + b2, "(py_not (py_in %s %s))" % (t1, t2), "val"
        names = {ast.LtE: "py_le", ast.Lt: "py_lt", ast.GtE: "py_ge", ast.Gt: "py_gt"}
        if type(op) in names:
            t = self.temp()
            return b1 + b2 + [(t, "%s %s %s" % (names[type(op)], t1, t2))], t, "val"
        self.refuse(e, "comparison operator %s" % type(op).__name__)

    def subscript(self, e, scope):
        # program_info['k']
        if isinstance(e.value, ast.Name) and e.value.id == self.heap:
            k = self.strlit(e.slice, "the key of %s[...]" % self.heap)
            t = self.temp()
            return [(t, "pi_get %s" % lit(k))], t, "val"
        # pcfg.ruleset_info['uuid']
        if isinstance(e.value, ast.Attribute) and isinstance(e.value.value, ast.Name) \
                and scope.get(e.value.value.id) == "grammar":
            if e.value.attr == "ruleset_info" and isinstance(e.slice, ast.Constant) and e.slice.value == "uuid":
                return [], "(g_uuid v_%s)" % e.value.value.id, "val"
            self.refuse(e, "only <grammar>.ruleset_info['uuid'] is in the subset")
        # cfg[sec][key]
        if isinstance(e.value, ast.Subscript) and isinstance(e.value.value, ast.Name) \
                and scope.get(e.value.value.id) == "val" and e.value.value.id != self.heap:
            b1, c = self.val(e.value.value, scope)
            b2, s = self.val(e.value.slice, scope)
            b3, k = self.val(e.slice, scope)
            self.lower_key(e.slice)
            t = self.temp()
            return b1 + b2 + b3 + [(t, "cfg_item2 %s %s %s" % (c, s, k))], t, "val"
        self.refuse(e, "subscript %s is outside the subset" % ast.unparse(e))

    def lower_key(self, node):
        """configparser lower-cases option names (optionxform); not modelled -> literal keys must be lower case"""
        if isinstance(node, ast.Constant) and isinstance(node.value, str) and node.value != node.value.lower():
            self.refuse(node, "option key %r is not lower case (configparser's key folding is not modelled)" % node.value)

    def bind_args(self, e, sig, what):
        """call arguments -> {param: ast or default constant} following Python's binding rules"""
        if any(isinstance(a, ast.Starred) for a in e.args) or any(k.arg is None for k in e.keywords):
            self.refuse(e, "%s: * / ** arguments" % what)
        names = [n for n, _ in sig]
        if len(e.args) > len(names):
            self.refuse(e, "%s: too many positional arguments" % what)
        got = {}
        for n, a in zip(names, e.args):
            got[n] = a
        for k in e.keywords:
            if k.arg not in names:
                self.refuse(e, "%s: no parameter %r" % (what, k.arg))
            if k.arg in got:
                self.refuse(e, "%s: parameter %r given twice" % (what, k.arg))
            got[k.arg] = k.value
        out = {}
        for n, d in sig:
            if n in got:
                out[n] = ("ast", got[n])
            elif d is NODEFAULT:
                self.refuse(e, "%s: parameter %r is missing" % (what, n))
            else:
                out[n] = ("const", d)
        return out

    def bound_vals(self, e, bound, order, scope, kinds=None):
        """evaluate bound arguments in SOURCE order, return their texts in `order`"""
        src = []     # (position key, name)
        for n, (how, x) in bound.items():
            if how == "ast":
                src.append(((x.lineno, x.col_offset), n))
        binds, texts = [], {}
        for _, n in sorted(src):
            b, t, k = self.expr(bound[n][1], scope)
            want = (kinds or {}).get(n, "val")
            if k != want:
                self.refuse(bound[n][1], "argument %r must be a %s, not a %s" % (n, want, k))
            binds += b
            texts[n] = t
        for n, (how, x) in bound.items():
            if how == "const":
                texts[n] = self.const(e, x)
        return binds, [texts[n] for n in order]

    def call(self, e, scope):
        f = e.func
        d = dotted(f)
        nokw = not e.keywords
        # str(x)
        if d == "str" and nokw and len(e.args) == 1 and "str" not in scope:
            b, t = self.val(e.args[0], scope)
            r = self.temp()
            return b + [(r, "py_str %s" % t)], r, "val"
        if d == "configparser.ConfigParser" and nokw and not e.args:
            r = self.temp()
            return [(r, "cfg_new")], r, "val"
        if d == "argparse.ArgumentParser":
            if e.args or any(k.arg != "description" for k in e.keywords):
                self.refuse(e, "argparse.ArgumentParser(...) with anything but description=")
            for k in e.keywords:
                self.text_only(k.value)
            return [], "new_parser", "parser"
        if ast.unparse(e) == "os.path.dirname(os.path.realpath(__file__))" and "os" not in scope:
            return [], "(VStr (e_script_dir E))", "val"
        if d == "os.path.join" and "os" not in scope:
            if not (nokw and e.args):
                self.refuse(e, "os.path.join without components / with keywords")
            binds, parts = [], []
            for a in e.args:
                b, t = self.val(a, scope)
                binds += b
                parts.append(t)
            r = self.temp()
            return binds + [(r, "path_join E [%s]" % "; ".join(parts))], r, "val"
        if d == "getattr" and nokw and len(e.args) == 2 and "getattr" not in scope and isinstance(e.args[0], ast.Name) \
                and scope.get(e.args[0].id) == "ns":
            r = self.temp()
            return [(r, "ns_attr v_%s %s" % (e.args[0].id, lit(self.strlit(e.args[1], "the attribute name of getattr"))))], r, "val"
        if ast.unparse(e) == "datetime.datetime.now().isoformat()":
            r = self.temp()
            return [(r, "now_iso E")], r, "val"
        # collaborators
        if d == "PcfgGrammar":
            sig = self.tr.sig("PcfgGrammar.__init__")
            bound = self.bind_args(e, sig, "PcfgGrammar")
            have = [n for n, _ in sig]
            for n, _fld in GRAMMAR_FIELDS:
                if n not in have:
                    self.refuse(e, "PcfgGrammar.__init__ has no parameter %r any more" % n)
            for n in have:
                if n not in dict(GRAMMAR_FIELDS) and bound[n][0] == "ast":
                    self.refuse(e, "PcfgGrammar(...): argument %r is outside the model" % n)
            binds, texts = self.bound_vals(e, {n: bound[n] for n, _ in GRAMMAR_FIELDS}, [n for n, _ in GRAMMAR_FIELDS], scope)
            rec = "{| " + "; ".join("%s := %s" % (fld, t) for (_, fld), t in zip(GRAMMAR_FIELDS, texts)) + " |}"
            r = self.temp()
            return binds + [(r, "new_grammar E %s" % rec)], r, "grammar"
        if d == "CrackingSession":
            sig = self.tr.sig("CrackingSession.__init__")
            if [n for n, _ in sig] != ["pcfg", "save_config", "save_filename"]:
                self.refuse(e, "CrackingSession.__init__ no longer takes (pcfg, save_config, save_filename)")
            bound = self.bind_args(e, sig, "CrackingSession")
            binds, texts = self.bound_vals(e, bound, ["pcfg", "save_config", "save_filename"], scope, {"pcfg": "grammar"})
            return binds, "{| cs_pcfg := %s; cs_save_config := %s; cs_save_filename := %s |}" % tuple(texts), "crack"
        if d == "HoneywordSession":
            sig = self.tr.sig("HoneywordSession.__init__")
            if [n for n, _ in sig] != ["pcfg", "mode"]:
                self.refuse(e, "HoneywordSession.__init__ no longer takes (pcfg, mode)")
            bound = self.bind_args(e, sig, "HoneywordSession")
            binds, texts = self.bound_vals(e, bound, ["pcfg", "mode"], scope, {"pcfg": "grammar"})
            return binds, "{| hs_pcfg := %s; hs_mode := %s |}" % tuple(texts), "honey"
        # methods on local objects
        if isinstance(f, ast.Attribute) and isinstance(f.value, ast.Name) and f.value.id in scope:
            obj, kind, meth = f.value.id, scope[f.value.id], f.attr
            if kind == "crack" and meth == "run":
                sig = self.tr.sig("CrackingSession.run")
                if [n for n, _ in sig] != ["load_session", "limit"]:
                    self.refuse(e, "CrackingSession.run no longer takes (load_session, limit)")
                binds, texts = self.bound_vals(e, self.bind_args(e, sig, "CrackingSession.run"), ["load_session", "limit"], scope)
                r = self.temp()
                return binds + [(r, "crack_run v_%s %s %s" % (obj, texts[0], texts[1]))], r, "val"
            if kind == "honey" and meth == "run":
                sig = self.tr.sig("HoneywordSession.run")
                if [n for n, _ in sig] != ["limit"]:
                    self.refuse(e, "HoneywordSession.run no longer takes (limit)")
                binds, texts = self.bound_vals(e, self.bind_args(e, sig, "HoneywordSession.run"), ["limit"], scope)
                r = self.temp()
                return binds + [(r, "honey_run v_%s %s" % (obj, texts[0]))], r, "val"
            if kind == "parser" and meth == "parse_args":
                if e.args or e.keywords:
                    self.refuse(e, "parse_args with arguments")
                r = self.temp()
                return [(r, "ap_parse_args E v_%s" % obj)], r, "ns"
            if kind == "val" and meth in ("has_option", "get", "getboolean") and nokw and len(e.args) == 2:
                b1, s = self.val(e.args[0], scope)
                b2, k = self.val(e.args[1], scope)
                self.lower_key(e.args[1])
                r = self.temp()
                op = {"has_option": "cfg_has", "get": "cfg_get", "getboolean": "cfg_getboolean"}[meth]
                return b1 + b2 + [(r, "%s v_%s %s %s" % (op, obj, s, k))], r, "val"
            self.refuse(e, "method call %s on a %s object is outside the subset" % (ast.unparse(f), kind))
        # other translated functions of the module
        if isinstance(f, ast.Name) and f.id in self.tr.funcs and f.id not in scope:
            callee = self.tr.funcs[f.id]
            if e.keywords or any(isinstance(a, ast.Starred) for a in e.args) or len(e.args) != len(callee.args.args):
                self.refuse(e, "call of %s: only positional arguments, one per parameter" % f.id)
            hp = self.tr.heap_param(f.id)
            binds, texts = [], []
            for i, a in enumerate(e.args):
                if isinstance(a, ast.Name) and a.id == self.heap:
                    if hp != i:
                        self.refuse(e, "call of %s: program_info passed at different positions" % f.id)
                    continue
                if hp == i:
                    self.refuse(e, "call of %s: parameter %d must receive the program_info dict itself" % (f.id, i))
                b, t = self.val(a, scope)
                binds += b
                texts.append(t)
            r = self.temp()
            return binds + [(r, "call (py_%s E%s)" % (f.id, "".join(" " + t for t in texts)))], r, "val"
        self.refuse(e, "call %s is outside the subset" % ast.unparse(f))

    def text_only(self, e):
        """an expression whose value is only shown to the user (help=, description=, what is printed): not evaluated.
        It must not hide a call that does something"""
        for n in ast.walk(e):
            if isinstance(n, ast.Call) and dotted(n.func) != "str":
                self.refuse(n, "call %s inside a message text" % ast.unparse(n.func))
            if isinstance(n, (ast.NamedExpr, ast.Await, ast.Yield, ast.YieldFrom, ast.Lambda)):
                self.refuse(n, "%s inside a message text" % type(n).__name__)

    # ---- statements
    def assigned(self, stmts):
        """names (re)bound by the statements, in order of first appearance"""
        out = []

        def add(n):
            if n not in out:
                out.append(n)
        for s in stmts:
            if isinstance(s, ast.Assign):
                for t in s.targets:
                    if isinstance(t, ast.Name):
                        add(t.id)
            elif isinstance(s, ast.Expr) and isinstance(s.value, ast.Call) and isinstance(s.value.func, ast.Attribute) \
                    and isinstance(s.value.func.value, ast.Name) \
                    and s.value.func.attr in ("add_section", "set", "read_file", "add_argument"):
                add(s.value.func.value.id)
            elif isinstance(s, ast.If):
                for n in self.assigned(s.body) + self.assigned(s.orelse):
                    add(n)
            elif isinstance(s, ast.Try):
                for n in self.assigned(s.body):
                    add(n)
                for h in s.handlers:
                    for n in self.assigned(h.body):
                        add(n)
        return out

    def terminates(self, stmts):
        if not stmts:
            return False
        s = stmts[-1]
        if isinstance(s, (ast.Return, ast.Raise)):
            return True
        if isinstance(s, ast.If):
            return self.terminates(s.body) and self.terminates(s.orelse)
        if isinstance(s, ast.Try):
            return self.terminates(s.body) and all(self.terminates(h.body) for h in s.handlers)
        return False

    def seq(self, stmts, scope, tail):
        """stmts under `scope` (name -> kind); `tail(scope)` is the text that follows when they fall through"""
        if not stmts:
            return tail(scope)
        s, rest = stmts[0], stmts[1:]

        def k(sc):
            return self.seq(rest, sc, tail)
        if isinstance(s, ast.Expr) and isinstance(s.value, ast.Constant) and isinstance(s.value.value, str):
            return k(scope)                      # docstring / bare string
        if isinstance(s, ast.Pass):
            return k(scope)
        if isinstance(s, ast.Return):
            if rest:
                self.refuse(rest[0], "statement after return")
            if s.value is None:
                return "return_ VNone"
            b, t = self.val(s.value, scope)
            return self.chain(b, "return_ %s" % t)
        if isinstance(s, ast.Raise):
            if rest:
                self.refuse(rest[0], "statement after raise")
            exc = s.exc.func if isinstance(s.exc, ast.Call) else s.exc
            d = dotted(exc) if exc is not None else None
            if s.cause is not None or d not in RAISE_CLASS:
                self.refuse(s, "raise of %s" % (ast.unparse(s.exc) if s.exc else "nothing"))
            if isinstance(s.exc, ast.Call):
                for a in list(s.exc.args) + [kw.value for kw in s.exc.keywords]:
                    self.text_only(a)
            return "raise %s" % RAISE_CLASS[d]
        if isinstance(s, ast.Assign):
            return self.assign(s, scope, k)
        if isinstance(s, ast.Expr):
            return self.expr_stmt(s, scope, k)
        if isinstance(s, ast.If):
            return self.if_stmt(s, scope, k)
        if isinstance(s, ast.Try):
            return self.try_stmt(s, scope, k)
        self.refuse(s, "statement %s is outside the subset" % type(s).__name__)

    def assign(self, s, scope, k):
        if len(s.targets) != 1:
            self.refuse(s, "multiple assignment targets")
        t = s.targets[0]
        if isinstance(t, ast.Subscript):
            if not (isinstance(t.value, ast.Name) and t.value.id == self.heap):
                self.refuse(s, "store into %s" % ast.unparse(t))
            key = self.strlit(t.slice, "the key of %s[...]" % self.heap)
            b, v = self.val(s.value, scope)
            return self.chain(b + [("_", "pi_set %s %s" % (lit(key), v))], k(scope))
        if not isinstance(t, ast.Name):
            self.refuse(s, "assignment target %s" % ast.unparse(t))
        if isinstance(s.value, ast.Dict):
            # THE dict
            if self.node.name != "main" or self.heap != t.id:
                self.refuse(s, "a dict display is only accepted as the program_info of main")
            binds, items = [], []
            for kk, vv in zip(s.value.keys, s.value.values):
                if kk is None:
                    self.refuse(s, "** in the dict display")
                key = self.strlit(kk, "a key of the dict display")
                b, v = self.val(vv, scope)
                binds += b
                items.append("(%s, %s)" % (lit(key), v))
            if binds:
                self.refuse(s, "the values of the program_info display must be constants / lists of constants")
            self.prelude.append("(* the dict display of main: program_info as main() creates it *)\n"
                                "Definition py_main_program_info : dict :=\n  dict_of [\n%s].\n" % ind(";\n".join(items), 4))
            return self.chain([("_", "pi_new py_main_program_info")], k(scope))
        if t.id == self.heap:
            self.refuse(s, "the program_info name %r is rebound" % t.id)
        if isinstance(s.value, ast.Name):
            self.refuse(s, "`%s = %s`: a second name for an object is outside the subset (aliasing)" % (t.id, s.value.id))
        b, v, kind = self.expr(s.value, scope)
        if t.id in scope and scope[t.id] != kind:
            self.refuse(s, "%r changes from a %s to a %s" % (t.id, scope[t.id], kind))
        sc = dict(scope)
        sc[t.id] = kind
        return self.chain(b, "let v_%s := %s in\n%s" % (t.id, v, k(sc)))

    def expr_stmt(self, s, scope, k):
        e = s.value
        if not isinstance(e, ast.Call):
            self.refuse(s, "expression statement that is not a call")
        d = dotted(e.func)
        if d == "print" and "print" not in scope:
            dest = None
            for kw in e.keywords:
                if kw.arg == "file":
                    dest = ast.unparse(kw.value)
                elif kw.arg in ("end", "sep", "flush"):
                    self.text_only(kw.value)
                else:
                    self.refuse(s, "print(..., %s=)" % kw.arg)
            for a in e.args:
                self.text_only(a)
            if dest is None:
                op = "print_out"
            elif dest == "sys.stderr":
                op = "print_err"
            else:
                self.refuse(s, "print(..., file=%s)" % dest)
            return self.chain([("_", op)], k(scope))
        if d == "print_banner" and not e.args and not e.keywords:
            return self.chain([("_", "ext_banner")], k(scope))
        f = e.func
        if isinstance(f, ast.Attribute) and isinstance(f.value, ast.Name) and f.value.id in scope:
            obj, kind, meth = f.value.id, scope[f.value.id], f.attr
            if kind == "val" and not e.keywords:
                if meth == "add_section" and len(e.args) == 1:
                    b, a = self.val(e.args[0], scope)
                    return self.chain(b + [("v_" + obj, "cfg_m_add_section v_%s %s" % (obj, a))], k(scope))
                if meth == "set" and len(e.args) == 3:
                    b1, a1 = self.val(e.args[0], scope)
                    b2, a2 = self.val(e.args[1], scope)
                    self.lower_key(e.args[1])
                    b3, a3 = self.val(e.args[2], scope)
                    return self.chain(b1 + b2 + b3 + [("v_" + obj, "cfg_m_set v_%s %s %s %s" % (obj, a1, a2, a3))], k(scope))
                if meth == "read_file" and len(e.args) == 1:
                    o = e.args[0]
                    if not (isinstance(o, ast.Call) and dotted(o.func) == "open" and len(o.args) == 1 and not o.keywords):
                        self.refuse(s, "read_file takes open(<name>)")
                    b, n = self.val(o.args[0], scope)
                    return self.chain(b + [("v_" + obj, "cfg_read_file E v_%s %s" % (obj, n))], k(scope))
            if kind == "parser" and meth == "add_argument":
                b, o = self.add_argument(e, scope)
                return self.chain(b + [("v_" + obj, "ap_add_argument v_%s\n%s" % (obj, ind(o, 4)))], k(scope))
        b, t, kind = self.expr(e, scope)
        return self.chain(b, k(scope))

    def add_argument(self, e, scope):
        flags = [self.strlit(a, "an option string of add_argument") for a in e.args]
        if not flags or any(not fl.startswith("-") for fl in flags):
            self.refuse(e, "add_argument: positional arguments (no leading '-') are outside the model")
        kw = {}
        for k in e.keywords:
            if k.arg is None or k.arg in kw:
                self.refuse(e, "add_argument: ** / repeated keyword")
            kw[k.arg] = k.value
        for name in ("help", "metavar"):
            if name in kw:
                self.text_only(kw.pop(name))
        if "required" in kw:
            r = kw.pop("required")
            if not (isinstance(r, ast.Constant) and r.value is False):
                self.refuse(e, "add_argument(required=...) other than False")
        dest = "None"
        if "dest" in kw:
            dest = "(Some %s)" % lit(self.strlit(kw.pop("dest"), "dest="))
        action = "AStore"
        if "action" in kw:
            a = self.strlit(kw.pop("action"), "action=")
            if a not in ("store", "store_const"):
                self.refuse(e, "add_argument(action=%r) is outside the model" % a)
            action = {"store": "AStore", "store_const": "AStoreConst"}[a]
        is_int = "false"
        if "type" in kw:
            t = kw.pop("type")
            if not (isinstance(t, ast.Name) and t.id in ("int", "str") and t.id not in scope):
                self.refuse(e, "add_argument(type=%s) is outside the model" % ast.unparse(t))
            is_int = "true" if t.id == "int" else "false"
        if action == "AStoreConst" and is_int == "true":
            self.refuse(e, "add_argument: type= with store_const")
        binds = []
        texts = {}
        # Python evaluates keyword arguments in source order
        for name in sorted((n for n in ("const", "default", "choices") if n in kw),
                           key=lambda n: (kw[n].lineno, kw[n].col_offset)):
            b, t = self.val(kw.pop(name), scope)
            binds += b
            texts[name] = t
        if kw:
            self.refuse(e, "add_argument(%s=...) is outside the model" % sorted(kw)[0])
        if action == "AStore" and "const" in texts:
            self.refuse(e, "add_argument: const= with action store")
        choices = "(Some %s)" % texts["choices"] if "choices" in texts else "None"
        o = "(mk_opt [%s] %s %s %s %s %s %s)" % ("; ".join(lit(fl) for fl in flags), dest, action, is_int,
                                                 texts.get("default", "VNone"), texts.get("const", "VNone"), choices)
        return binds, o

    def exports(self, branches, scope, later_ok=True):
        """variables a compound statement hands on: [(name, kind)], and the scope afterwards.
        branches: [(stmts, scope_after or None when the branch does not fall through)]"""
        names = []
        for stmts, _ in branches:
            for n in self.assigned(stmts):
                if n not in names:
                    names.append(n)
        live = [(st, sc) for st, sc in branches if sc is not None]
        out, after = [], dict(scope)
        for n in names:
            kinds = set(sc[n] for _, sc in live if n in sc)
            if len(kinds) > 1:
                raise Refuse("%s: %s: %r has different kinds on different paths" % (SRC, self.node.name, n))
            everywhere = all(n in sc for _, sc in live)
            if live and everywhere:
                out.append(n)
                after[n] = kinds.pop()
            else:
                after.pop(n, None)       # maybe unbound afterwards: any later use is refused
        return out, after

    def branch(self, stmts, scope):
        """-> (text builder given the export list, scope after or None)"""
        box = {}

        def tail(sc):
            box["scope"] = sc
            return "@@TAIL@@"
        text = self.seq(stmts, dict(scope), tail)
        return text, box.get("scope")

    def fill(self, text, sc, exports):
        return text.replace("@@TAIL@@", "ret %s" % tup(["v_" + n for n in exports]))

    def if_stmt(self, s, scope, k):
        b, c = self.val(s.test, scope)
        t1, s1 = self.branch(s.body, scope)
        t2, s2 = self.branch(s.orelse, scope)
        exports, after = self.exports([(s.body, s1), (s.orelse, s2)], scope)
        if s1 is None and s2 is None:
            # both branches leave the function: nothing follows
            return self.chain(b, "if py_truthy %s then\n%s\nelse\n%s" % (c, ind(t1), ind(t2)))
        m = "if py_truthy %s then\n%s\nelse\n%s" % (c, ind(self.fill(t1, s1, exports)), ind(self.fill(t2, s2, exports)))
        return self.chain(b + [(pat(["v_" + n for n in exports]), m)], k(after))

    def try_stmt(self, s, scope, k):
        if s.orelse or s.finalbody:
            self.refuse(s, "try ... else / finally")
        tb, sb = self.branch(s.body, scope)
        rebound = set(self.assigned(s.body))
        hs = []
        branches = [(s.body, sb)]
        for h in s.handlers:
            d = "" if h.type is None else dotted(h.type)
            if h.type is None:
                cls = "CAll"
            elif d in EXN_CLASS:
                cls = EXN_CLASS[d]
            else:
                self.refuse(h, "except %s" % ast.unparse(h.type))
            # the handler sees the variables as they were before the try: it must not read what the body rebinds
            for n in ast.walk(ast.Module(body=h.body, type_ignores=[])):
                if isinstance(n, ast.Name) and n.id in rebound:
                    self.refuse(n, "the handler uses %r, which the try body rebinds" % n.id)
                if h.name and isinstance(n, ast.Name) and n.id == h.name:
                    # the exception object: only inside message texts (checked by text_only at the print)
                    pass
            hscope = dict(scope)
            th, sh = self.branch(h.body, hscope)
            if h.name:
                self.only_in_prints(h, h.name)
            hs.append((cls, th, sh))
            branches.append((h.body, sh))
        exports, after = self.exports(branches, scope)
        body = self.fill(tb, sb, exports)
        hl = ";\n".join("(%s,\n%s)" % (cls, ind(self.fill(th, sh, exports))) for cls, th, sh in hs)
        m = "try_catch (\n%s)\n  [%s]" % (ind(body), hl)
        if all(sc is None for _, sc in branches):
            return m
        return self.chain([(pat(["v_" + n for n in exports]), m)], k(after))

    def only_in_prints(self, h, name):
        """`except X as msg`: msg may only occur inside the arguments of print"""
        allowed = set()
        for n in ast.walk(ast.Module(body=h.body, type_ignores=[])):
            if isinstance(n, ast.Call) and dotted(n.func) == "print":
                for a in n.args:
                    for m in ast.walk(a):
                        allowed.add(id(m))
        for n in ast.walk(ast.Module(body=h.body, type_ignores=[])):
            if isinstance(n, ast.Name) and n.id == name and id(n) not in allowed:
                self.refuse(n, "the exception object %r is used outside a message text" % name)

    def render(self):
        a = self.node.args
        if a.vararg or a.kwarg or a.kwonlyargs or a.posonlyargs or a.defaults:
            self.refuse(self.node, "parameter kinds / defaults outside the subset")
        if self.node.decorator_list:
            self.refuse(self.node, "decorators")
        params = [x.arg for x in a.args]
        scope = {p: "val" for p in params if p != self.heap}
        body = self.seq(self.node.body, scope, lambda sc: "ret VNone")
        ps = "".join(" (v_%s : pyval)" % p for p in params if p != self.heap)
        return "".join(p + "\n" for p in self.prelude) + \
            "Definition py_%s (E : env)%s : M pyval pyval :=\n%s.\n" % (self.node.name, ps, ind(body))


# ----------------------------------------------------------------------------- the module

class Translator:
    def __init__(self, repo):
        self.repo = repo
        p = os.path.join(repo, SRC)
        self.tree = ast.parse(open(p, encoding="utf-8").read(), filename=p)
        self.funcs = {n.name: n for n in self.tree.body if isinstance(n, ast.FunctionDef)}
        self._sigs = {}
        self._heap = {}
        self.check_imports()

    def check_imports(self):
        mods, froms = set(), {}
        for n in self.tree.body:
            if isinstance(n, ast.Import):
                for a in n.names:
                    if a.asname is None:
                        mods.add(a.name)
                    else:
                        raise Refuse("%s:%d: import ... as %s" % (SRC, n.lineno, a.asname))
            elif isinstance(n, ast.ImportFrom) and n.module != "__future__":
                for a in n.names:
                    froms[a.asname or a.name] = (n.module, a.name)
        for m in MODULES:
            if m not in mods:
                raise Refuse("%s: module %s is not imported by a plain `import %s`" % (SRC, m, m))
        for name, src in IMPORTS.items():
            if froms.get(name) != src:
                raise Refuse("%s: %s is not imported from %s" % (SRC, name, src[0]))
        # none of the names the translation gives a fixed meaning may be rebound at module level
        fixed = set(MODULES) | set(IMPORTS) | {"print", "str", "open", "int", "getattr"}
        for n in self.tree.body:
            tg = []
            if isinstance(n, ast.Assign):
                tg = [t.id for t in n.targets if isinstance(t, ast.Name)]
            elif isinstance(n, (ast.FunctionDef, ast.ClassDef)):
                tg = [n.name]
            for t in tg:
                if t in fixed:
                    raise Refuse("%s:%d: %s is rebound at module level" % (SRC, n.lineno, t))

    def sig(self, what):
        if what not in self._sigs:
            rel, cls, meth = {
                "PcfgGrammar.__init__": ("lib_guesser/pcfg_grammar.py", "PcfgGrammar", "__init__"),
                "CrackingSession.__init__": ("lib_guesser/cracking_session.py", "CrackingSession", "__init__"),
                "CrackingSession.run": ("lib_guesser/cracking_session.py", "CrackingSession", "run"),
                "HoneywordSession.__init__": ("lib_guesser/honeyword_session.py", "HoneywordSession", "__init__"),
                "HoneywordSession.run": ("lib_guesser/honeyword_session.py", "HoneywordSession", "run"),
            }[what]
            self._sigs[what] = _signature(self.repo, rel, cls, meth)
        return self._sigs[what]

    def heap_param(self, fname):
        """index of the parameter of `fname` that receives THE dict (None: it does not receive it)"""
        return self._heap.get(fname)

    def plan(self):
        """which functions are translated, and which parameter of each is the program_info dict"""
        if "main" not in self.funcs:
            raise Refuse("%s: no function main" % SRC)
        main = self.funcs["main"]
        if main.args.args:
            raise Refuse("%s:%d: main takes parameters" % (SRC, main.lineno))
        dicts = [s for s in ast.walk(main) if isinstance(s, ast.Assign) and isinstance(s.value, ast.Dict)]
        if len(dicts) != 1 or len(dicts[0].targets) != 1 or not isinstance(dicts[0].targets[0], ast.Name) \
                or dicts[0] not in main.body:
            raise Refuse("%s:%d: main: expected exactly one `name = {...}` statement at the top level of main" % (SRC, main.lineno))
        heapname = {"main": dicts[0].targets[0].id}
        order, seen = [], set()

        def visit(fname):
            if fname in seen:
                if fname not in order:
                    raise Refuse("%s: recursion through %s" % (SRC, fname))
                return
            seen.add(fname)
            f = self.funcs[fname]
            h = heapname.get(fname)
            for n in ast.walk(f):
                if isinstance(n, ast.Call) and isinstance(n.func, ast.Name) and n.func.id in self.funcs:
                    callee = n.func.id
                    pos = [i for i, a in enumerate(n.args) if isinstance(a, ast.Name) and h is not None and a.id == h]
                    if len(pos) > 1:
                        raise Refuse("%s:%d: program_info passed twice" % (SRC, n.lineno))
                    p = pos[0] if pos else None
                    if callee in self._heap or callee in seen:
                        if self._heap.get(callee) != p:
                            raise Refuse("%s:%d: %s receives program_info at different positions" % (SRC, n.lineno, callee))
                    else:
                        self._heap[callee] = p
                        cargs = self.funcs[callee].args.args
                        if p is not None:
                            if p >= len(cargs):
                                raise Refuse("%s:%d: too many arguments for %s" % (SRC, n.lineno, callee))
                            heapname[callee] = cargs[p].arg
                    visit(callee)
            order.append(fname)
        self._heap["main"] = None
        visit("main")
        return order, heapname

    def render(self):
        order, heapname = self.plan()
        for need in ("parse_command_line", "create_save_config", "load_save"):
            if need not in order:
                raise Refuse("%s: main no longer reaches %s" % (SRC, need))
        out = ["(* GENERATED on every run by harness/translate_cli.py from %s - do not edit. *)" % SRC,
               "From Coq Require Import List NArith ZArith Bool String.",
               "From Pcfg Require Import Str CliModel CliRt.",
               "Import ListNotations.", ""]
        for fname in order:
            out.append(Fn(self, self.funcs[fname], heapname.get(fname)).render())
        out.append("(* the translated functions, callees first *)")
        out.append("Definition py_functions : list string := [%s]%%string." % "; ".join('"%s"' % f for f in order))
        return "\n".join(out) + "\n"


def render(repo=None):
    return Translator(repo or common.REPO).render()


def failure_text(err):
    return ("(* GENERATED by harness/translate_cli.py.  The translation of the current sources FAILED:\n"
            "   %s\n   The line below does not type-check on purpose. *)\n"
            "Definition cli_translation_failed : False := I.\n" % _comment(" ".join(str(err).split())))


def write(repo=None):
    import extract_consts as X
    path = os.path.join(common.COQ, OUT)
    try:
        text = render(repo)
    except Exception as e:
        X.write(path, failure_text("%s: %s" % (type(e).__name__, e)))
        raise
    return X.write(path, text)


if __name__ == "__main__":
    if "--write" in sys.argv[1:]:
        print("written" if write() else "unchanged", os.path.join(common.COQ, OUT))
    else:
        sys.stdout.write(render())
