"""A NEW interpreter that loads OMEN directories with the real loader of the tree under test and enumerates levels
with the real MarkovCracker (what a later guessing session on the same directory sees).

    /venv/bin/python harness/omen_child.py <spec.json>

spec = {"max_length": n, "jobs": [{"dir": path, "levels": [T, ...], "cap": n}, ...]}
Prints one line  @@RESULT@@<json>  with, per job, {"loaded": bool, "err": str, "levels": [[T, [guess, ...], status], ...]}
(one Optimizer per job, shared by its levels in the order given, as a guessing session shares it)."""
import json
import os
import sys

HERE = os.path.dirname(os.path.abspath(__file__))
sys.path.insert(0, HERE)
import common       # noqa: E402
import omen_gen     # noqa: E402  (puts the tree under test on sys.path)


def main():
    spec = json.load(open(sys.argv[1], encoding="utf-8"))
    from lib_guesser.omen.input_file_io import load_rules
    res = []
    for job in spec["jobs"]:
        g = {}
        try:
            ok, so, se = common.quiet_call(load_rules, job["dir"], g)
            err = "" if ok else (se + so)[-300:]
        except Exception as e:                      # the loader is documented to return False, not to raise
            ok, err = False, "%s: %s" % (type(e).__name__, e)
        r = {"loaded": bool(ok), "err": err, "levels": []}
        if ok:
            opt = omen_gen.new_optimizer(spec["max_length"])
            for T in job["levels"]:
                out, st = omen_gen.run_level(g, T, opt, cap=job["cap"])
                r["levels"].append([T, out, st])
                if st != "done":
                    opt = omen_gen.new_optimizer(spec["max_length"])    # an interrupted search may leave a half-written memo entry
        res.append(r)
    sys.stdout.write("@@RESULT@@" + json.dumps(res) + "\n")


if __name__ == "__main__":
    main()
