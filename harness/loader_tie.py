"""Status of the translator tie of the rule-file loaders (harness/translate_loader.py), as a
correspondence-style obligation of C07 / C14 / C04: gen/Loader_gen.v must have been produced from
the current sources and theories/LoaderGenProofs.v (generated definition = hand-written model)
must have been built by `make` against it.  When it was not, the proofs file is compiled once more
on its own to name the lemma that no longer checks (what a `no-failing-input-found` verdict names)
or the construct the translator refused.  On an unchanged tree this only stats the compiled files."""
import omen_gen_tie

GEN = "gen/Loader_gen.v"
PROOFS = "theories/LoaderGenProofs.v"
NAME = ("translator-tie: translated lib_guesser/grammar_io._load_from_file, _load_base_structures, load_omen_keyspace and "
        "lib_scorer/grammar_io._load_from_file = models TextFile.v / Loader.v (LoaderGenProofs)")

TRUSTED = ("second tie (translator): harness/translate_loader.py (ast -> Gallina, fail closed; accepted subset and what it does "
           "not model in its docstring) and the meaning coq/theories/LoaderRt.v gives to Python subscripts, slices, list / dict "
           "mutation, exceptions and their class hierarchy, for/while/break/else, try/except, files as the list of lines their "
           "iteration yields with a cursor (seek(0)); float(), int(), str.rstrip/isalpha, encode, open / codecs.open and "
           "os.path.join are parameters of the generated functions; writes to stderr are dropped")


def obligation():
    """-> (name, ok, detail) for the `corr` list of C07 / C14 / C04"""
    return omen_gen_tie.status(NAME, GEN, PROOFS)
