"""OMEN (Markov) side of the harness: generated OMEN model directories, drivers
of the real loader / MarkovCracker / Optimizer of /repo's working tree, an
independent brute-force enumerator of the level sets, and the emission of the
models as Gallina literals (OmenSpec.omen).

A model description `om` is the dict rulesets.write_omen takes:
  {"ngram": n, "alphabet": [...], "ip": [(lvl, str)], "ep": [(lvl, str)],
   "cp": [(lvl, str)], "ln": [lvl of length 1, 2, ...]}
Every random choice comes from the caller's random.Random."""
import itertools
import os
import time
from collections import Counter

import common
import rulesets

common.repo_on_path()

SYMBOLS = ["a", "b", "c", "1", "!", "é", "я", "€", "\U0001d11e", "Z"]

LEVEL_MODES = {
    "zero": lambda r: 0,
    "low": lambda r: r.choice([0, 0, 1, 1, 2]),
    "mid": lambda r: r.randint(0, 5),
    "wide": lambda r: r.randint(0, 10),
    "hi": lambda r: r.randint(7, 10),
    "all10": lambda r: 10,
    "two": lambda r: r.choice([0, 3]),
    # mostly cheap entries and some exactly AT the maximum level: strings of level 10, 11, .. then exist ONLY through an
    # entry of the last level of the table (what a trained ruleset looks like: unseen lengths / rare n-grams smoothed to 10)
    "top": lambda r: r.choice([0, 0, 1, 2, 10, 10]),
}


def gen_model(rng, force=None, max_strings=20000):
    """A random OMEN model.  `force` may fix some of: ngram, nalpha, alphabet,
    ip_mode, cp_mode, ln_mode, density, ip_density, kmax."""
    f = dict(force or {})
    ngram = f.get("ngram", rng.choice([2, 2, 3, 3, 4, 5]))
    if "alphabet" in f:
        # a given alphabet (a second model for a directory that already holds one over these symbols)
        alphabet = list(f["alphabet"])
        nalpha = len(alphabet)
    else:
        nalpha = f.get("nalpha", rng.randint(2, 6))
        alphabet = rng.sample(SYMBOLS, nalpha)
        if not any(ord(c) > 127 for c in alphabet) and rng.random() < 0.5:
            alphabet[rng.randrange(nalpha)] = rng.choice([s for s in SYMBOLS if ord(s) > 127 and s not in alphabet])
    ip_mode = f.get("ip_mode", rng.choice(["low", "low", "mid", "wide", "wide", "hi", "zero", "two", "all10"]))
    cp_mode = f.get("cp_mode", rng.choice(["low", "low", "mid", "mid", "wide", "wide", "hi", "zero", "two"]))
    ln_mode = f.get("ln_mode", rng.choice(["low", "low", "mid", "wide", "zero", "two", "hi", "all10"]))
    density = f.get("density", rng.choice([1.0, 1.0, 0.8, 0.6, 0.4, 0.25]))
    ip_density = f.get("ip_density", rng.choice([1.0, 0.7, 0.4]))
    n1 = ngram - 1
    prefixes = ["".join(t) for t in itertools.product(alphabet, repeat=n1)]
    # initial n-grams
    ips = [p for p in prefixes if rng.random() < ip_density]
    if not ips:
        ips = [rng.choice(prefixes)]
    rng.shuffle(ips)
    ip = [(LEVEL_MODES[ip_mode](rng), s) for s in ips]
    # transitions; some prefixes are dead ends (no line at all)
    dead = set(p for p in prefixes if rng.random() < (0.0 if density >= 1.0 else 0.15))
    cp = []
    for p in prefixes:
        if p in dead:
            continue
        for ch in alphabet:
            if rng.random() < density:
                cp.append((LEVEL_MODES[cp_mode](rng), p + ch))
    if not cp:
        cp.append((LEVEL_MODES[cp_mode](rng), prefixes[0] + alphabet[0]))
    rng.shuffle(cp)
    # lengths: lines for 1..maxlen, the guesser keeps those >= ngram
    branching = max(1.0, len(cp) / max(1, len(prefixes)))
    kmax = f.get("kmax")
    if kmax is None:
        kmax = 1
        while kmax < 7 and len(ips) * branching ** (kmax + 1) * 1.5 <= max_strings:
            kmax += 1
        kmax = rng.randint(1, kmax)
    ln = [LEVEL_MODES[ln_mode](rng) for _ in range(n1 + kmax)]
    if ln_mode not in ("all10",) and rng.random() < 0.3:
        # a gap: some length far above the others
        ln[rng.randrange(len(ln))] = 10
    om = {"ngram": ngram, "alphabet": alphabet, "ip": ip, "ep": [(0, s) for _, s in ip], "cp": cp, "ln": ln,
          "modes": {"ip": ip_mode, "cp": cp_mode, "ln": ln_mode, "density": density, "ip_density": ip_density,
                    "kmax": kmax, "dead": len(dead)}}
    return om


TOP_LEVEL = 10        # the last level of the OMEN tables (callers compare it with the constant extracted from the source)


def gen_top_model(rng, max_strings=1500, force=None):
    """A SMALL OMEN model (ngram 2-4, 3-5 symbols, 1-3 generated lengths) whose initial n-grams and/or lengths sit partly
    (or all) exactly AT the maximum level while the rest is cheap, so that the levels 10, 11, .. (and 20, 21, .. when both
    tables are involved) hold strings that can only be reached by selecting an entry of the last level of a table.
    At least one initial n-gram or one generated length is at the maximum level; usually both tables have one."""
    f = dict(force or {})
    while True:
        ip_mode = f.get("ip_mode", rng.choice(["top", "top", "top", "all10", "low", "wide"]))
        ln_mode = f.get("ln_mode", rng.choice(["top", "top", "top", "all10", "low", "wide"]))
        if "ip_mode" in f and "ln_mode" in f:
            break
        if not (ip_mode in ("low", "wide") and ln_mode in ("low", "wide")):
            break
    ngram = f.get("ngram", rng.choice([2, 2, 3, 3, 4]))
    nalpha = f.get("nalpha", rng.randint(3, 5) if ngram < 4 else rng.randint(3, 4))
    kmax = f.get("kmax", rng.randint(1, 3))
    while True:
        om = gen_model(rng, {"ngram": ngram, "nalpha": nalpha, "ip_mode": ip_mode, "ln_mode": ln_mode, "kmax": kmax,
                             "cp_mode": f.get("cp_mode", rng.choice(["zero", "low", "low", "two", "mid", "top"])),
                             "density": f.get("density", rng.choice([1.0, 0.8, 0.6, 0.4])),
                             "ip_density": f.get("ip_density", rng.choice([1.0, 0.7, 0.4]))})
        if count_bound(om) <= max_strings or kmax == 1:
            break
        kmax -= 1
    n1 = ngram - 1
    # plant: an entry AT the maximum level in each "top" table if the draw gave none, and a cheap one beside it
    if ip_mode == "top":
        if len(om["ip"]) < 2:
            have = set(s for _, s in om["ip"])
            rest = ["".join(t) for t in itertools.product(om["alphabet"], repeat=n1) if "".join(t) not in have]
            if rest:
                om["ip"].append((0, rng.choice(rest)))
        if not any(l == TOP_LEVEL for l, _ in om["ip"]):
            k = rng.randrange(len(om["ip"]))
            om["ip"][k] = (TOP_LEVEL, om["ip"][k][1])
        if len(om["ip"]) >= 2 and all(l == TOP_LEVEL for l, _ in om["ip"]):
            k = rng.randrange(len(om["ip"]))
            om["ip"][k] = (rng.choice([0, 1]), om["ip"][k][1])
        om["ep"] = [(0, s) for _, s in om["ip"]]
    if ln_mode == "top":
        gen = list(range(n1, len(om["ln"])))               # positions of the lengths the guesser keeps (>= ngram)
        if not any(om["ln"][k] == TOP_LEVEL for k in gen):
            om["ln"][rng.choice(gen)] = TOP_LEVEL
        if len(gen) >= 2 and all(om["ln"][k] == TOP_LEVEL for k in gen):
            om["ln"][rng.choice(gen)] = rng.choice([0, 1])
    om["modes"]["top_ip"] = sum(1 for l, _ in om["ip"] if l == TOP_LEVEL)
    om["modes"]["top_ln"] = sum(1 for k in range(n1, len(om["ln"])) if om["ln"][k] == TOP_LEVEL)
    return om


def model_key(om):
    return repr((om["ngram"], om["ip"], om["cp"], om["ln"]))


_n = [0]


def load_model(om, scratch):
    """Write the directory and read it with the real loader.  Returns the
    grammar dict of lib_guesser.omen.input_file_io.load_rules."""
    from lib_guesser.omen.input_file_io import load_rules
    _n[0] += 1
    d = os.path.join(scratch, "omen%d" % _n[0])
    rulesets.write_omen(d, om, om.get("encoding", "utf-8"))      # (utf-8 unless the description names another codec)
    g = {}
    ok, so, se = common.quiet_call(load_rules, d, g)
    if not ok:
        raise RuntimeError("load_rules failed: " + so[-300:] + se[-300:])
    return g


def new_optimizer(max_length):
    from lib_guesser.omen.optimizer import Optimizer
    return Optimizer(max_length=max_length)


FILL_CALLS = [0]
_patched = [False]


def count_fill_calls():
    """Count calls of GuessStructure._fill_out_parse_tree (work estimate for the
    Coq side); class attribute wrapped from the harness, no repository change."""
    if _patched[0]:
        return
    from lib_guesser.omen.guess_structure import GuessStructure
    real = GuessStructure._fill_out_parse_tree

    def counted(self, ip, length, target_level):
        FILL_CALLS[0] += 1
        return real(self, ip, length, target_level)
    GuessStructure._fill_out_parse_tree = counted
    _patched[0] = True


def run_level(grammar, T, optimizer, cap=10 ** 9, budget_s=20.0):
    """MarkovCracker(grammar, T, optimizer).next_guess() until None.
    Returns (guesses, status); status: 'done', 'capped', 'timeout', 'raised'."""
    from lib_guesser.omen.markov_cracker import MarkovCracker
    try:
        (mc, _, _) = common.quiet_call(MarkovCracker, grammar, T, optimizer)
    except Exception:
        return [], "raised"
    out = []
    t0 = time.time()
    while True:
        try:
            g = mc.next_guess()
        except Exception as e:                       # the implementation raised inside next_guess
            return out, "error:%s" % type(e).__name__
        if g is None:
            return out, "done"
        out.append(g)
        if len(out) >= cap:
            return out, "capped"
        if (len(out) & 255) == 0 and time.time() - t0 > budget_s:
            return out, "timeout"


def brute_levels(om, max_level_sum=None):
    """Independent enumerator: every string the tables can spell, bucketed by
    length cost + IP cost + sum of transition costs.  Works on the lines as
    written to the files (not on the loaded grammar), by plain extension of
    strings; no parse trees, no level ordering, no memo."""
    n = om["ngram"]
    ipl = {}
    for lvl, s in om["ip"]:
        ipl.setdefault(s, []).append(lvl)
    cpl = {}
    for lvl, s in om["cp"]:
        cpl.setdefault(s[:-1], []).append((s[-1], lvl))
    lens = {}
    for i, lvl in enumerate(om["ln"]):
        length = i + 1
        if length >= n:
            lens.setdefault(length, []).append(lvl)
    maxlen = max(lens) if lens else 0
    buckets = {}
    # all (string, cost without length) pairs by growing strings
    frontier = [(s, l) for s, ls in ipl.items() for l in ls]
    length = n - 1
    while frontier and length < maxlen:
        nxt = []
        for s, cost in frontier:
            for ch, l in cpl.get(s[len(s) - (n - 1):] if n > 1 else "", ()):
                c2 = cost + l
                if max_level_sum is None or c2 <= max_level_sum:
                    nxt.append((s + ch, c2))
        frontier = nxt
        length += 1
        for ll in lens.get(length, ()):
            for s, cost in frontier:
                buckets.setdefault(cost + ll, Counter())[s] += 1
    return buckets


def count_bound(om):
    """Cheap upper bound of the number of spellable strings (all lengths)."""
    n = om["ngram"]
    cpl = Counter(s[:-1] for _, s in om["cp"])
    cur = Counter(s for _, s in om["ip"])
    nexts = {}
    for _, s in om["cp"]:
        nexts.setdefault(s[:-1], []).append((s[:-1] + s[-1])[1:] if n > 1 else "")
    total = 0
    for length in range(n, len(om["ln"]) + 1):
        new = Counter()
        for p, c in cur.items():
            for q in nexts.get(p, ()):
                new[q] += c
        cur = new
        total += sum(cur.values())
    return total


# ------------------------------------------------------------ Gallina literals

def cstr(s):
    return common.cstr(s)


def clines(lines):
    if not lines:
        return "(@nil (nat * list N))"
    return "[" + "; ".join("(%d, %s)" % (l, cstr(s)) for l, s in lines) + "]"


def coq_model(om):
    ln = ("[" + "; ".join("%d" % l for l in om["ln"]) + "]") if om["ln"] else "(@nil nat)"
    return "(mk_omen %d omen_max_level %s %s %s)" % (om["ngram"], clines(om["ip"]), clines(om["cp"]), ln)


def cstrs(l):
    return "(@nil (list N))" if not l else "[" + "; ".join(cstr(s) for s in l) + "]"


def ctree(t):
    """parse tree [[prefix, level, index], ...] -> list (ostr * nat * nat)"""
    if not t:
        return "(@nil (list N * nat * nat))"
    return "[" + "; ".join("(%s, %d, %d)" % (cstr(r[0]), r[1], r[2]) for r in t) + "]"


def optimizer_entries(opt):
    out = []
    for length, d in enumerate(opt.tmto_lookup):
        for p, lv in d.items():
            for lvl, tree in lv.items():
                out.append((length, p, lvl, tree))
    return out


def centries(entries):
    if not entries:
        return "(@nil (nat * list N * Z * option (list (list N * nat * nat))))"
    return "[" + ";\n ".join("(%d, %s, (%d)%%Z, %s)" % (k, cstr(p), lvl, "None" if t is None else "(Some %s)" % ctree(t))
                             for k, p, lvl, t in entries) + "]"


def loaded_tables(grammar):
    """The loaded grammar as literals: ip per level, ln per level, cp entries."""
    ml = grammar["max_level"]
    ip = "[" + "; ".join(cstrs(grammar["ip"][l]) for l in range(ml + 1)) + "]"
    ln = "[" + "; ".join(("[" + "; ".join("%d" % k for k in grammar["ln"][l]) + "]") if grammar["ln"][l] else "(@nil nat)"
                         for l in range(ml + 1)) + "]"
    cps = []
    for p, lv in grammar["cp"].items():
        for l, chars in lv.items():
            cps.append("(%s, %d, %s)" % (cstr(p), l, cstr("".join(chars))))
    cp = "[" + "; ".join(cps) + "]" if cps else "(@nil (list N * nat * list N))"
    return ip, ln, cp
