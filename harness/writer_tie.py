"""Status of the translator tie of the ruleset writers (harness/translate_writer.py), as
correspondence-style obligations of C06 / C07: each generated file must have been generated
from the current source and must compile, and the file with its equality proofs (generated
definition = hand-written model of Counters.v / TextFile.v; the theorems of C06 / C07 over
the generated definition) must have been built by `make` from the current generated text.
When one was not, it is compiled once more on its own to name the lemma that no longer
checks (the broken theorem a `no-failing-input-found` verdict names), or the construct the
translator refused."""
import omen_gen_tie

GROUPS = {
    "struct": ("gen/WriterStruct_gen.v", "theories/WriterGenProofsStruct.v",
               "translator-tie:translated base_structure_creation / prince_evaluation / tail of parse / Markov block of "
               "run_trainer = models Counters.supported, structure, count_one, with_markov "
               "(gen/WriterStruct_gen.v, WriterGenProofsStruct.v)"),
    "save": ("gen/Writer_gen.v", "theories/WriterGenProofs.v",
             "translator-tie:translated calculate_and_save_counter / save_indexed_counters / save_pcfg_data = models "
             "TextFile.write_file, Counters.save_indexed, save_pcfg_data over the file system of WriterRt.v "
             "(gen/Writer_gen.v, WriterGenProofs.v)"),
    "config": ("gen/WriterConfig_gen.v", "theories/WriterGenProofsConfig.v",
               "translator-tie:translated create_filename_list / add_* / create_config_file = models "
               "Counters.filename_list, config_lists, config_dirs (gen/WriterConfig_gen.v, WriterGenProofsConfig.v)"),
}


def obligations(groups):
    """-> [(name, ok, detail)] for the `corr` list of C06 / C07"""
    return [omen_gen_tie.status(GROUPS[g][2], GROUPS[g][0], GROUPS[g][1]) for g in groups]
