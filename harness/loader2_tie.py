"""Status of the translator tie of the remaining readers of a ruleset (harness/translate_loader2.py), as
correspondence-style obligations of C07 / C10 / C11 / C04: each generated file must have been produced
from the current sources and the file with its equality proofs (generated definition = hand-written
model of Loader2Model.v / TextFile.v) must have been built by `make` against it; when it was not, the
proofs file is compiled once more on its own to name the lemma that no longer checks (what a
`no-failing-input-found` verdict names) or the construct the translator refused.

  omen     gen/Loader2_gen.v         lib_guesser/omen/input_file_io.py (load_rules + 4 helpers),
                                     lib_scorer/omen_scorer.py (OmenScorer.__init__, _load_omen)
                                     Loader2GenProofs.v, transported theorems Loader2OmenFacts.v     C07 C10 C11
  grammar  gen/Loader2Grammar_gen.v  lib_guesser/grammar_io.py (load_grammar, _load_terminals, _load_config,
                                     _load_from_multiple_files), lib_scorer/grammar_io.py (load_grammar,
                                     _load_from_multiple_files)
                                     Loader2GrammarGenProofs.v                                       C07 C04
On an unchanged tree this only stats the compiled files."""
import os

import common
import omen_gen_tie

GROUPS = {
    "omen": ("gen/Loader2_gen.v", "theories/Loader2GenProofs.v", ["theories/Loader2OmenFacts.v"]),
    "grammar": ("gen/Loader2Grammar_gen.v", "theories/Loader2GrammarGenProofs.v", ["theories/Loader2GrammarFacts.v"]),
}
# the transported theorems one property needs beyond those of its groups
EXTRA_FACTS = {"C07": {"omen": ["theories/Loader2RoundTrip.v"]}}
BY_PROP = {"C07": ("omen", "grammar"), "C10": ("omen",), "C11": ("omen",), "C04": ("grammar",)}

TRUSTED = ("second tie (translator): harness/translate_loader2.py (ast -> Gallina, fail closed; accepted subset and what it does "
           "not model in its docstring) and the meaning coq/theories/Loader2Rt.v gives to dynamically typed Python values "
           "(dicts as association lists in insertion order with str / int keys, lists, instances as attribute lists), to "
           "subscripts / attributes / updates along a path, == < + - *, truthiness, exceptions (TypeError, KeyError, IndexError, "
           "AttributeError, ValueError, IOError, configparser.Error, `raise Exception`) and their class hierarchy, over the "
           "control flow of LoaderRt.v; int(), float(), str.strip, os.path.join, open / codecs.open (the lines the iteration "
           "yields), configparser and json are oracles (Loader2Rt.world); everything printed is dropped; what a callee did to "
           "its arguments before raising is dropped")


def _facts_status(g, facts, proofs):
    vo = os.path.join(common.COQ, facts[:-2] + ".vo")
    src = os.path.join(common.COQ, facts)
    pvo = os.path.join(common.COQ, proofs[:-2] + ".vo")
    name = "loader2:translator-tie:%s:facts (%s)" % (g, facts)
    if os.path.exists(vo) and os.path.getmtime(vo) >= os.path.getmtime(src) and os.path.getmtime(vo) >= os.path.getmtime(pvo):
        return (name, True, "")
    fd = common._lock()
    try:
        e = omen_gen_tie._first_error(facts)
    finally:
        os.close(fd)
    if e is None:
        return (name, True, "")
    where = e[1]
    lemma = omen_gen_tie._enclosing(where[0], where[1]) if where else "?"
    return (name, False, "the theorems over the translated readers no longer check: %s (%s): %s"
            % (lemma, facts, " ".join(e[0].split())[:500]))


def obligations(prop):
    """-> [(name, ok, detail)] for the `corr` list of C07 / C10 / C11 / C04"""
    out = []
    for g in BY_PROP[prop]:
        gen, proofs, facts = GROUPS[g]
        st = omen_gen_tie.status("loader2:translator-tie:%s (translated readers = models, %s)" % (g, proofs), gen, proofs)
        out.append(st)
        if not st[1]:
            continue
        # the transported theorems: only looked at when the equalities hold
        for f in list(facts) + EXTRA_FACTS.get(prop, {}).get(g, []):
            out.append(_facts_status(g, f, proofs))
    return out
