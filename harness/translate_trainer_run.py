#!/venv/bin/python
"""Fail-closed translator of the trainer's pass orchestration from Python to Gallina.

    /venv/bin/python harness/translate_trainer_run.py            print the generated text
    /venv/bin/python harness/translate_trainer_run.py --write    write coq/gen/TrainerRun_gen.v

Sources -> definitions of coq/gen/TrainerRun_gen.v (C19, C06, C05, C03):

  lib_trainer/run_trainer.py           run_trainer, the whole function       py_run_trainer
  lib_trainer/print_statistics.py      print_statistics: what it does to the
                                       parser object (values are not modelled) py_print_statistics
  lib_trainer/pcfg_password_parser.py  PCFGPasswordParser.__init__: the count_*
                                       attributes and how they start           py_PCFGPasswordParser_init,
                                                                               py_PCFGPasswordParser_other_attrs
  trainer.py                           parse_command_line: the options          py_cli_options
                                       and the statements after parse_args()    py_parse_command_line
                                       main                                     py_main_defaults, py_main

The source is only parsed (`ast`), never imported or executed.  The output targets the runtime
coq/theories/TrainerRunRt.v (and WriterRt.v); coq/theories/TrainerRunGenProofs.v proves each generated
definition equal to the hand-written model of TrainerRunModel.v, for every instantiation of the
collaborators.  Comments, docstrings, blank lines, formatting and the text of what is printed do not reach
the output (except the source line numbers in the comments of the generated text); local variable names are
carried over and the proofs do not depend on them.

The Markov pseudo-count block of run_trainer (the top-level statements that mention count_base_structures /
program_info['coverage']) is NOT translated again: the same slice translate_writer.py translates
(translate_writer.markov_slice) is replaced by a call of its py_run_trainer_markov_block.

Collaborators.  Everything the functions do not own - the classes run_trainer instantiates, their methods,
the functions it imports - is a field of the record `collab` / `main_collab` of the runtime, applied to the
values of the arguments in the order of the callee's `def` (the translator reads that `def`: parameter names
must be the tabulated ones, omitted arguments are filled in with the constant defaults of the `def`).  A
method that updates its object returns the new object, bound to the same variable.  The table COLLAB says,
per collaborator, whether it only reads the world (constructor of TrainerFileInput, the reader), changes it
(save_*, create_rule_folders, run_trainer) or does not touch it, which argument objects it may update
(print_statistics: the parser) and which it keeps a reference to (PCFGPasswordParser: the detector; an
object that was captured is never updated afterwards, or the translation is refused).  That a collaborator
does nothing else to its arguments is TRUSTED for the collaborators translated elsewhere (find_omen_level,
calc_omen_keyspace: translate_omen_level.py; AlphabetGenerator, AlphabetLookup, save_omen_rules_to_disk:
translate_omen_trainer.py; TrainerFileInput: translate_reader.py; parse: translate_detect.py; save_pcfg_data,
save_config_file: translate_writer.py) and PROVED for print_statistics (py_print_statistics p = Ok p).

Accepted subset (anything else raises TranslateError with file:line):

  statements  docstrings; pass; print(..) / traceback.print_exc(..) / print_banner() of pure arguments (not
              modelled: dropped, and with them `if` / `for` statements that contain nothing else and the
              local variables that feed only such statements, e.g. the progress counter); x = e;
              program_info['key'] = e; x += e on ints; c[k] += n on the Counter of levels; s.add(x) on a
              local set of strings; pcfg_parser.count_X.clear() / = Counter() / = {}; calls of
              collaborators as statements; if / elif / else (`if x is None`, truth tests of bools, of
              None-or-strings, of what run_trainer returns); `if c: ..; continue` directly in a loop body;
              a call of a helper whose whole body prints (`def _print_status(n): if ..: print(..)`) is dropped like
              a print; `for i, x in enumerate(obj.read_password()[, start=k])` where i feeds prints only is the
              loop over obj.read_password();
              a helper `def h(..): return <expression>` (at module level of run_trainer.py or directly in the
              body of run_trainer; constant defaults, pure arguments) is inlined where it is called;
              for x in obj.read_password(): body (body: no world access, no use of obj); try: .. except
              Exception [as e]: handler (bare except too; the handler must end in return; no else /
              finally); return [True | False | None].
              parse_command_line: parser = argparse.ArgumentParser(..); parser.add_argument(flags..,
              help=, metavar=, required=, default=, type=int|float, choices=range(a, b),
              action='store_true'); args = parser.parse_args(); then the subset above.
              main: program_info = {..} with exactly the known keys and constant values.
              print_statistics: x = <read of the parser> (most_common, items, keys, values, get, len, sum,
              sorted, list, str, subscripts, arithmetic); x = pcfg_parser.count_X (an alias: later
              x.update(..) / x.clear() / x[k] = v / x[k] += v are updates of that attribute);
              pcfg_parser.count_X = e; the same updates on the attribute itself; for .. in <read>: prints.
  expressions names; True / False / None; ints; decimal literals; string constants; program_info['key'];
              args.dest; obj.num_passwords; not / and / or; == != < <= > >= (numbers, ints), `in` on a
              local set; os.path.join(os.path.dirname(os.path.realpath(__file__)), 'Rules', name);
              l[0] on the list detect_file_encoding fills; calls of collaborators (evaluated before the
              statement they occur in, left to right).

What the translation does NOT model: printing and the evaluation of print arguments; the interleaving of a
generator with the loop body (the reader yields its whole sequence first: sound because the bodies touch
neither the reader nor the world, which the translator checks); object identity beyond the capture rule;
exceptions raised by anything but collaborators (int arithmetic, attribute access); argparse itself (py_cli_options
is the table of add_argument calls, `args` is what parse_args returns for it: dest = first long flag);
a negative num_passwords (ints that count passwords are N); that run_trainer's update of
program_info['alphabet'] is visible to main (main does not use program_info afterwards: checked).
"""
import ast
import hashlib
import os
import sys

HERE = os.path.dirname(os.path.abspath(__file__))
if HERE not in sys.path:
    sys.path.insert(0, HERE)
import common  # noqa: E402
from translate_kernel import TranslateError, _paren, _comment  # noqa: E402
import translate_writer as TW  # noqa: E402

OUT = os.path.join("gen", "TrainerRun_gen.v")

# ------------------------------------------------------------------ types (tags)
# objects: FI AG MW OT PP KS; LC = Counter of levels; values: N Z num bool str ostr path pinfo args
# setstr liststr exn unit obool (what run_trainer returns) argparser
COQ_TYPE = {"N": "N", "Z": "Z", "num": "num O", "bool": "bool", "str": "TextFile.str", "ostr": "option TextFile.str",
            "path": "WriterRt.path", "unit": "unit"}

PI_KEYS = {"name": "str", "version": "str", "author": "str", "contact": "str", "rule_name": "str",
           "training_file": "ostr", "encoding": "ostr", "comments": "str", "save_sensitive": "bool",
           "prefixcount": "bool", "ngram": "Z", "alphabet_size": "Z", "alphabet": "str", "smoothing": "num",
           "coverage": "num", "max_len": "Z", "multiword": "ostr"}
PI_ORDER = ["name", "version", "author", "contact", "rule_name", "training_file", "encoding", "comments",
            "save_sensitive", "prefixcount", "ngram", "alphabet_size", "alphabet", "smoothing", "coverage",
            "max_len", "multiword"]
ARG_FIELDS = {"rule": "str", "training": "ostr", "encoding": "ostr", "comments": "str", "save_sensitive": "bool",
              "prefixcount": "bool", "ngram": "Z", "alphabet": "Z", "coverage": "num", "multiword": "ostr"}
PO_FLAT = ["emails", "email_providers", "website_urls", "website_hosts", "website_prefixes", "years",
           "context_sensitive", "base_structures", "raw_base_structures", "prince"]
PO_INDEXED = ["keyboard", "alpha", "alpha_masks", "digits", "other"]
PO_ORDER = ["keyboard", "emails", "email_providers", "website_urls", "website_hosts", "website_prefixes", "years",
            "context_sensitive", "alpha", "alpha_masks", "digits", "other", "base_structures",
            "raw_base_structures", "prince"]

# ------------------------------------------------------------------ collaborators
# kind: ctor / func / method; src = (file, class or None, def name); params = [(name, type)] in the order of
# the def (without self); world: None / "read" / "write"; ret = type of the result (None: no result used);
# mut = index of the parameter (or "self") that the call may update: the result of the operation is the new
# object; capture = indices of the parameters the result keeps a reference to
COLLAB = {
    "TrainerFileInput": dict(kind="ctor", src=("lib_trainer/trainer_file_input.py", "TrainerFileInput", "__init__"),
                             op="c_TrainerFileInput", params=[("filename", "ostr"), ("encoding", "ostr"), ("prefixcount", "bool")],
                             ret="FI", world="read", module="lib_trainer.trainer_file_input"),
    "AlphabetGenerator": dict(kind="ctor", src=("lib_trainer/omen/alphabet_generator.py", "AlphabetGenerator", "__init__"),
                              op="c_AlphabetGenerator", params=[("alphabet_size", "Z"), ("ngram", "Z")], ret="AG",
                              module="lib_trainer.omen.alphabet_generator"),
    "MultiWordDetector": dict(kind="ctor", src=("lib_trainer/detection_rules/multiword_detector.py", "MultiWordDetector", "__init__"),
                              op="c_MultiWordDetector", params=[("threshold", "Z"), ("min_len", "Z"), ("max_len", "Z")], ret="MW",
                              module="lib_trainer.detection_rules.multiword_detector"),
    "AlphabetLookup": dict(kind="ctor", src=("lib_trainer/omen/alphabet_lookup.py", "AlphabetLookup", "__init__"),
                           op="c_AlphabetLookup", params=[("alphabet", "str"), ("ngram", "Z"), ("min_length", "Z"), ("max_length", "Z")],
                           ret="OT", module="lib_trainer.omen.alphabet_lookup"),
    "PCFGPasswordParser": dict(kind="ctor", src=("lib_trainer/pcfg_password_parser.py", "PCFGPasswordParser", "__init__"),
                               op="c_PCFGPasswordParser", params=[("multiword_detector", "MW")], ret="PP", capture=[0],
                               module="lib_trainer.pcfg_password_parser"),
    "calc_omen_keyspace": dict(kind="func", src=("lib_trainer/omen/evaluate_password.py", None, "calc_omen_keyspace"),
                               op="c_calc_omen_keyspace", params=[("omen_trainer", "OT"), ("max_level", "Z"), ("max_keyspace", "Z")],
                               ret="KS", module="lib_trainer.omen.evaluate_password"),
    "find_omen_level": dict(kind="func", src=("lib_trainer/omen/evaluate_password.py", None, "find_omen_level"),
                            op="c_find_omen_level", params=[("omen_trainer", "OT"), ("password", "str")], ret="Z",
                            module="lib_trainer.omen.evaluate_password"),
    "print_statistics": dict(kind="func", src=("lib_trainer/print_statistics.py", None, "print_statistics"),
                             op="c_print_statistics", params=[("pcfg_parser", "PP")], ret=None, mut=0,
                             module="lib_trainer.print_statistics"),
    "save_config_file": dict(kind="func", src=("lib_trainer/config_file.py", None, "save_config_file"),
                             op="c_save_config_file", params=[("directory_name", "path"), ("program_info", "pinfo"),
                                                              ("file_input", "FI"), ("pcfg_parser", "PP")],
                             ret="bool", world="write", module="lib_trainer.config_file"),
    "save_omen_rules_to_disk": dict(kind="func", src=("lib_trainer/omen/omen_file_output.py", None, "save_omen_rules_to_disk"),
                                    op="c_save_omen_rules_to_disk",
                                    params=[("omen_trainer", "OT"), ("omen_keyspace", "KS"), ("omen_levels_count", "LC"),
                                            ("num_valid_passwords", "N"), ("base_directory", "path"), ("program_info", "pinfo")],
                                    ret="bool", world="write", module="lib_trainer.omen.omen_file_output"),
    "save_pcfg_data": dict(kind="func", src=("lib_trainer/save_pcfg_data.py", None, "save_pcfg_data"),
                           op="c_save_pcfg_data", params=[("base_directory", "path"), ("pcfg_parser", "PP"),
                                                          ("encoding", "ostr"), ("save_sensitive", "bool")],
                           ret="bool", world="write", module="lib_trainer.save_pcfg_data"),
}
METHODS = {
    ("AG", "process_password"): dict(src=("lib_trainer/omen/alphabet_generator.py", "AlphabetGenerator", "process_password"),
                                     op="c_process_password", params=[("password", "str")], ret=None, mut="self"),
    ("AG", "get_alphabet"): dict(src=("lib_trainer/omen/alphabet_generator.py", "AlphabetGenerator", "get_alphabet"),
                                 op="c_get_alphabet", params=[], ret="str"),
    ("MW", "train"): dict(src=("lib_trainer/detection_rules/multiword_detector.py", "MultiWordDetector", "train"),
                          op="c_mw_train", params=[("input_password", "str"), ("set_threshold", "bool")], ret=None, mut="self"),
    ("OT", "parse"): dict(src=("lib_trainer/omen/alphabet_lookup.py", "AlphabetLookup", "parse"),
                          op="c_ot_parse", params=[("password", "str")], ret=None, mut="self"),
    ("PP", "parse"): dict(src=("lib_trainer/pcfg_password_parser.py", "PCFGPasswordParser", "parse"),
                          op="c_pp_parse", params=[("password", "str")], ret=None, mut="self"),
    ("OT", "apply_smoothing"): dict(src=("lib_trainer/omen/alphabet_lookup.py", "AlphabetLookup", "apply_smoothing"),
                                    op="c_apply_smoothing", params=[], ret=None, mut="self"),
}
GENERATORS = {("FI", "read_password"): dict(src=("lib_trainer/trainer_file_input.py", "TrainerFileInput", "read_password"),
                                            op="c_read_password", elem="str")}
ATTRS = {("FI", "num_passwords"): ("c_num_passwords", "N")}
# attributes that may be read in what is printed only
PRINT_ATTRS = {("FI", "num_encoding_errors"), ("FI", "duplicates_found"), ("FI", "num_to_look_for_duplicates"),
               ("FI", "num_passwords")}

MAIN_COLLAB = {
    "detect_file_encoding": dict(kind="func", src=("lib_trainer/trainer_file_input.py", None, "detect_file_encoding"),
                                 op="mc_detect_file_encoding",
                                 params=[("training_file", "ostr"), ("file_encoding", "liststr"), ("max_passwords", "Z")],
                                 ret="bool", world="read", mut=1, module="lib_trainer.trainer_file_input"),
    "create_rule_folders": dict(kind="func", src=("lib_trainer/trainer_file_output.py", None, "create_rule_folders"),
                                op="mc_create_rule_folders", params=[("base_directory", "path")], ret="bool", world="write",
                                module="lib_trainer.trainer_file_output"),
    "run_trainer": dict(kind="func", src=("lib_trainer/run_trainer.py", None, "run_trainer"),
                        op="mc_run_trainer", params=[("program_info", "pinfo"), ("base_directory", "path")], ret="obool",
                        world="write", module="lib_trainer.run_trainer"),
}

DROPPED_CALLS = {("print",), ("traceback", "print_exc"), ("print_banner",)}
PURE_FUNCS = {"str", "int", "len", "repr", "float"}


def str_lit(v):
    if v == "":
        return "(@nil N)"
    if all(32 <= ord(c) <= 126 and c not in '"\\' for c in v):
        return '(s_ "%s"%%string)' % v
    return "[%s]%%N" % "; ".join(str(ord(c)) for c in v)


def dotted(e):
    parts = []
    while isinstance(e, ast.Attribute):
        parts.append(e.attr)
        e = e.value
    if isinstance(e, ast.Name):
        parts.append(e.id)
        return tuple(reversed(parts))
    return None


def read_signature(repo, src, params):
    """the `def` of a collaborator: its parameter names must be the tabulated ones; -> {index: default constant}"""
    rel, cls, name = src
    path, tree = TW.parse(repo, rel)
    fn = TW.class_method(path, tree, cls, name) if cls else TW.defs_of(path, tree.body).get(name)
    if fn is None:
        raise TranslateError("%s: %s not found" % (path, name))
    a = fn.args
    if a.vararg or a.kwarg or a.kwonlyargs or a.posonlyargs:
        raise TranslateError("%s:%d: %s has * / ** / keyword-only parameters" % (path, fn.lineno, name))
    names = [x.arg for x in a.args]
    if cls:
        if not names or names[0] != "self":
            raise TranslateError("%s:%d: %s is not a plain method" % (path, fn.lineno, name))
        names = names[1:]
    if names != [p for p, _ in params]:
        raise TranslateError("%s:%d: the parameters of %s are %s, expected %s" % (path, fn.lineno, name, names, [p for p, _ in params]))
    defaults = {}
    nd = len(a.defaults)
    for i, d in enumerate(a.defaults):
        if not isinstance(d, ast.Constant):
            raise TranslateError("%s:%d: a default of %s is not a constant" % (path, fn.lineno, name))
        defaults[len(names) - nd + i] = d
    return defaults


# ------------------------------------------------------------------ what is not modelled: prints and what feeds them only
class Dead:
    """statements that only print, and the local variables that only feed them"""

    def __init__(self, fn, helpers=None, depth=0):
        self.fn = fn
        self.helpers = helpers or {}     # module-level / nested defs that may turn out to print only
        self.depth = depth
        self._print_only = {}
        assigned = {}
        for n in ast.walk(fn):
            # for i, x in enumerate(..): the index is a candidate (it is dropped when only prints read it)
            if isinstance(n, ast.For) and isinstance(n.iter, ast.Call) and isinstance(n.iter.func, ast.Name) \
                    and n.iter.func.id == "enumerate" and isinstance(n.target, ast.Tuple) and len(n.target.elts) == 2 \
                    and isinstance(n.target.elts[0], ast.Name):
                assigned.setdefault(n.target.elts[0].id, [])
        for n in ast.walk(fn):
            if isinstance(n, ast.Assign) and len(n.targets) == 1 and isinstance(n.targets[0], ast.Name):
                assigned.setdefault(n.targets[0].id, []).append(n.value)
            elif isinstance(n, ast.AugAssign) and isinstance(n.target, ast.Name):
                assigned.setdefault(n.target.id, []).append(n.value)
        params = {a.arg for a in fn.args.args}
        self.vars = {v for v, vals in assigned.items() if v not in params and all(self.arith(x) for x in vals)}
        while True:
            live = set()
            self.live_loads(fn.body, live)
            drop = {v for v in self.vars if v in live}
            if not drop:
                break
            self.vars -= drop

    @staticmethod
    def arith(e):
        """int constants and arithmetic on names only"""
        for n in ast.walk(e):
            if not isinstance(n, (ast.Constant, ast.Name, ast.BinOp, ast.operator, ast.Load, ast.UnaryOp, ast.unaryop)):
                return False
            if isinstance(n, ast.Constant) and (isinstance(n.value, bool) or not isinstance(n.value, int)):
                return False
        return True

    def pure(self, e):
        """an expression whose evaluation has no effect (attribute / item reads, arithmetic, str())"""
        if isinstance(e, (ast.Constant, ast.Name)):
            return True
        if isinstance(e, ast.JoinedStr):
            return all(self.pure(v) for v in e.values)
        if isinstance(e, ast.FormattedValue):
            return self.pure(e.value) and (e.format_spec is None or self.pure(e.format_spec))
        if isinstance(e, ast.BinOp):
            return self.pure(e.left) and self.pure(e.right)
        if isinstance(e, ast.UnaryOp):
            return self.pure(e.operand)
        if isinstance(e, ast.BoolOp):
            return all(self.pure(v) for v in e.values)
        if isinstance(e, ast.Compare):
            return self.pure(e.left) and all(self.pure(c) for c in e.comparators)
        if isinstance(e, ast.Attribute):
            return self.pure(e.value)
        if isinstance(e, ast.Subscript):
            return self.pure(e.value) and self.pure(e.slice)
        if isinstance(e, ast.Call):
            return isinstance(e.func, ast.Name) and e.func.id in PURE_FUNCS and not e.keywords and all(self.pure(a) for a in e.args)
        return False

    def prints_only(self, name):
        """a helper def whose whole body is prints (of its parameters and constants): a call of it with pure arguments
        is dropped like a print"""
        if name not in self.helpers or self.depth > 3:
            return False
        if name not in self._print_only:
            self._print_only[name] = False        # a recursive helper does not qualify
            h = self.helpers[name]
            a = h.args
            ok = not (a.vararg or a.kwarg or a.kwonlyargs or a.posonlyargs or h.decorator_list) and \
                all(isinstance(d, ast.Constant) for d in a.defaults)
            if ok:
                d = Dead(h, {k: v for k, v in self.helpers.items() if k != name}, self.depth + 1)
                body = [x for x in h.body]
                ok = all(d.droppable(x) or (isinstance(x, ast.Return) and (x.value is None or
                         (isinstance(x.value, ast.Constant) and x.value.value is None)) and x is h.body[-1]) for x in body)
                # nothing but the parameters, the locals it only prints and builtins may be read
                names = {x.arg for x in a.args} | d.vars | {"print", "str", "int", "len", "repr", "float"}
                for n in ast.walk(h):
                    if isinstance(n, ast.Name) and n.id not in names:
                        ok = False
                    if isinstance(n, (ast.Global, ast.Nonlocal, ast.Attribute, ast.Subscript)):
                        ok = False
            self._print_only[name] = ok
        return self._print_only[name]

    def droppable(self, s):
        if isinstance(s, ast.Pass):
            return True
        if isinstance(s, ast.Expr):
            if isinstance(s.value, ast.Constant):
                return True
            c = s.value
            if isinstance(c, ast.Call) and dotted(c.func) in DROPPED_CALLS:
                return all(self.pure(a) for a in c.args) and all(self.pure(k.value) or dotted(k.value) == ("sys", "stdout") for k in c.keywords)
            if isinstance(c, ast.Call) and isinstance(c.func, ast.Name) and self.prints_only(c.func.id):
                return all(self.pure(a) for a in c.args) and all(k.arg is not None and self.pure(k.value) for k in c.keywords)
            return False
        if isinstance(s, ast.If):
            return self.pure(s.test) and all(self.droppable(x) for x in s.body + s.orelse)
        if isinstance(s, ast.For):
            return isinstance(s.target, ast.Name) and self.pure(s.iter) and not s.orelse and all(self.droppable(x) for x in s.body)
        if isinstance(s, ast.Assign):
            return len(s.targets) == 1 and isinstance(s.targets[0], ast.Name) and s.targets[0].id in self.vars and self.pure(s.value)
        if isinstance(s, ast.AugAssign):
            return isinstance(s.target, ast.Name) and s.target.id in self.vars and self.pure(s.value)
        return False

    def live_loads(self, stmts, live):
        for s in stmts:
            if self.droppable(s):
                continue
            for field, value in ast.iter_fields(s):
                if field in ("body", "orelse", "finalbody") and isinstance(value, list):
                    self.live_loads(value, live)
                elif field == "handlers":
                    for h in value:
                        self.live_loads(h.body, live)
                else:
                    for v in (value if isinstance(value, list) else [value]):
                        if isinstance(v, ast.AST):
                            for n in ast.walk(v):
                                if isinstance(n, ast.Name) and isinstance(n.ctx, ast.Load):
                                    live.add(n.id)


# ------------------------------------------------------------------ statements and expressions
class Env:
    def __init__(self):
        self.types = {}       # python name -> type tag
        self.order = []       # python names in the order of first binding
        self.captured = set() # objects another object keeps a reference to

    def copy(self):
        e = Env()
        e.types, e.order, e.captured = dict(self.types), list(self.order), set(self.captured)
        return e


RESERVED = set("""O C num nzero none nadd nsub ndiv nltb neqb nofN numops str s_ tt true false fst snd length nth map filter
negb andb orb app rev list nat bool unit N Z fun let in if then else match with end forall exists Type Prop Set as at
return fix struct Definition Some None option out Norm Retn Exc bind try_except for_each res Ok Raise run_fn call exn
WM NormW RetnW ExcW bindW try_exceptW run_fnW callW readW liftW for_gen ostr_truthy zcnt_add list_item cnt_update
num_lit nleb pinfo collab main_collab cli_args cli_opt ob_truthy path path_join s_in parser_obj counter most_common
markov ret_some script_dir args""".split())


class FnTr:
    """one function -> one Gallina definition"""

    def __init__(self, repo, path, rel, fn, table, world, ret, cvar):
        self.repo, self.path, self.rel, self.fn = repo, path, rel, fn
        self.table = table          # name -> collaborator
        self.world = world          # the function threads a world (WM) / is pure (out)
        self.ret = ret              # "obool" (run_trainer), "bool+pinfo" (parse_command_line), "unit" (main)
        self.cvar = cvar            # Coq name of the collaborator record
        self.dead = Dead(fn)        # replaced by the driver when the module has helper defs
        self.uid = 0
        self.pending = []
        self.pure_depth = 0         # > 0 inside a loop body (no world)
        self.sigs = {}
        self.markov = None          # (lo, hi) of the top-level slice translated by translate_writer
        self.loop_object = []       # readers being iterated
        self.helpers = {}           # name -> def of a helper function whose body is `return <expression>` (inlined)
        self.inline_depth = 0

    # -------------------------------------------------------------- helpers
    def fail(self, node, msg):
        raise TranslateError("%s:%d: %s: %s  [%s]" % (
            self.path, getattr(node, "lineno", self.fn.lineno), self.fn.name, msg,
            _comment(ast.unparse(node)).split("\n")[0][:100]))

    def W(self, name):
        return name if self.pure_depth or not self.world else name + "W"

    def gensym(self):
        self.uid += 1
        return "t%d_" % self.uid

    def coq_name(self, node, name):
        if not name.isidentifier() or not name.isascii():
            self.fail(node, "unsupported variable name %r" % name)
        if name in RESERVED or name.startswith(("py_", "pi_", "po_", "c_", "mc_", "a_", "set_", "co_")) or \
                (len(name) > 2 and name[0] == "t" and name[-1] == "_" and name[1:-1].isdigit()):
            return name + "_v"
        return name

    def bind_var(self, node, name, ty, env):
        if name == "_":
            return "_"
        if name in env.types and env.types[name] != ty:
            self.fail(node, "the variable %s changes its type from %s to %s" % (name, env.types[name], ty))
        if name not in env.types:
            env.order.append(name)
        env.types[name] = ty
        return self.coq_name(node, name)

    def note(self, s):
        return "(* %d: %s *)" % (s.lineno, _comment(ast.unparse(s).split("\n")[0])[:110])

    def line(self, ind, text, s=None):
        pad = "  " * ind
        if s is None:
            return pad + text + "\n"
        first = pad + text
        return first + " " * max(2, 78 - len(first)) + self.note(s) + "\n"

    def tuple_text(self, names):
        if not names:
            return "tt", "_"
        cn = [self.coq_name(self.fn, n) for n in names]
        if len(cn) == 1:
            return cn[0], cn[0]
        t = "(" + ", ".join(cn) + ")"
        return t, "'" + t

    def state(self, names, env):
        """canonical layout of the variables a compound statement carries: by type, then first binding"""
        return sorted(set(names), key=lambda n: (env.types[n], env.order.index(n)))

    def sig(self, c):
        key = c["src"]
        if key not in self.sigs:
            self.sigs[key] = read_signature(self.repo, c["src"], c["params"])
        return self.sigs[key]

    # -------------------------------------------------------------- pending collaborator calls of an expression
    def push(self, text, kind, binder=None):
        """kind: None (pure collaborator) / "read" / "write" (collaborators on the world) / "out" (a value of out)"""
        v = binder or self.gensym()
        self.pending.append((v, text, kind))
        return v

    def lift(self, text, kind):
        """a collaborator call as a computation of the current mode"""
        pure = self.pure_depth or not self.world
        if kind == "out":
            return text if pure else "liftW %s" % _paren(text)
        if pure:
            if kind is not None:
                raise TranslateError("internal: world access in a pure context")
            return "call %s" % _paren(text)
        if kind == "read":
            return "readW %s" % _paren(text)
        if kind == "write":
            return "callW %s" % _paren(text)
        return "liftW (call %s)" % _paren(text)

    def flush(self, ind):
        out, n = "", 0
        for v, text, kind in self.pending:
            out += self.line(ind, "%s (%s) (fun %s =>" % (self.W("bind"), self.lift(text, kind), v))
            n += 1
        self.pending = []
        return out, n

    # -------------------------------------------------------------- expressions
    def const(self, node, v, want):
        if v is None or (v is False and want == "ostr"):
            if want == "ostr":
                return "None"
            if want == "obool":
                return "None"
            self.fail(node, "None where a %s is expected" % want)
        if isinstance(v, bool):
            if want in ("bool", None):
                return "true" if v else "false"
            if want == "obool":
                return "(Some %s)" % ("true" if v else "false")
            self.fail(node, "a bool where a %s is expected" % want)
        if isinstance(v, int):
            if v < 0:
                self.fail(node, "negative constant")
            if want == "N":
                return "%d%%N" % v
            if want in ("Z", None):
                return "%d%%Z" % v
            if want == "num":
                return "(nzero O)" if v == 0 else "(none O)" if v == 1 else "(nofN O %d%%N)" % v
            self.fail(node, "an int where a %s is expected" % want)
        if isinstance(v, float):
            if want not in ("num", None):
                self.fail(node, "a float where a %s is expected" % want)
            r = repr(v)
            if "e" in r or "inf" in r or "nan" in r or v < 0:
                self.fail(node, "unsupported float literal")
            whole, _, frac = r.partition(".")
            frac = frac.rstrip("0")
            m, p10 = int(whole + frac), 10 ** len(frac)
            if m >= 2 ** 53 or p10 >= 2 ** 53:
                self.fail(node, "float literal with too many digits")
            if p10 == 1:
                return self.const(node, m, "num")
            return "(num_lit %d%%N %d%%N)" % (m, p10)
        if isinstance(v, str):
            if want in ("str", None):
                return str_lit(v)
            if want == "ostr":
                return "(Some %s)" % str_lit(v)
            self.fail(node, "a string where a %s is expected" % want)
        self.fail(node, "unsupported constant")

    def coerce(self, node, text, ty, want):
        if want is None or ty == want:
            return text
        if ty == "str" and want == "ostr":
            return "(Some %s)" % _paren(text)
        if ty == "N" and want == "num":
            return "(nofN O %s)" % _paren(text)
        self.fail(node, "a %s where a %s is expected" % (ty, want))

    def expr(self, e, env, want=None):
        """-> (text, type); collaborator calls are pushed to self.pending"""
        if isinstance(e, ast.Constant):
            t = self.const(e, e.value, want)
            ty = want or ("bool" if isinstance(e.value, bool) else "Z" if isinstance(e.value, int) else
                          "num" if isinstance(e.value, float) else "str" if isinstance(e.value, str) else None)
            if ty is None:
                self.fail(e, "None in a position of unknown type")
            return t, ty
        if isinstance(e, ast.Name):
            if e.id in self.dead.vars:
                self.fail(e, "the variable %s is used outside print statements" % e.id)
            if e.id not in env.types:
                self.fail(e, "unknown name %s" % e.id)
            ty = env.types[e.id]
            return self.coerce(e, self.coq_name(e, e.id), ty, want), want or ty
        if isinstance(e, ast.Subscript) and isinstance(e.value, ast.Name) and isinstance(e.slice, ast.Constant):
            v = e.value.id
            if env.types.get(v) == "pinfo" and isinstance(e.slice.value, str):
                k = e.slice.value
                if k not in PI_KEYS:
                    self.fail(e, "unknown key %r of program_info" % k)
                return self.coerce(e, "(pi_%s %s)" % (k, self.coq_name(e, v)), PI_KEYS[k], want), want or PI_KEYS[k]
            if env.types.get(v) == "liststr" and isinstance(e.slice.value, int) and e.slice.value >= 0:
                t = self.push("list_item %s %d%%N" % (self.coq_name(e, v), e.slice.value), "out")
                return self.coerce(e, t, "str", want), want or "str"
        if isinstance(e, ast.Attribute) and isinstance(e.value, ast.Name):
            v = e.value.id
            ty = env.types.get(v)
            if ty == "args":
                if e.attr not in ARG_FIELDS:
                    self.fail(e, "unknown command line option %r" % e.attr)
                return self.coerce(e, "(a_%s %s)" % (e.attr, self.coq_name(e, v)), ARG_FIELDS[e.attr], want), want or ARG_FIELDS[e.attr]
            if (ty, e.attr) in ATTRS:
                op, rt = ATTRS[(ty, e.attr)]
                return self.coerce(e, "(%s %s %s)" % (op, self.cvar, self.coq_name(e, v)), rt, want), want or rt
        if isinstance(e, ast.UnaryOp) and isinstance(e.op, ast.Not):
            return "(negb %s)" % self.truth(e.operand, env), "bool"
        if isinstance(e, ast.BoolOp):
            op = "andb" if isinstance(e.op, ast.And) else "orb"
            parts = []
            for i, v in enumerate(e.values):
                n = len(self.pending)
                parts.append(self.truth(v, env))
                if i > 0 and len(self.pending) > n:
                    self.fail(v, "a call in the right operand of and / or")
            t = parts[-1]
            for p in reversed(parts[:-1]):
                t = "(%s %s %s)" % (op, p, t)
            return t, "bool"
        if isinstance(e, ast.Compare) and len(e.ops) == 1:
            return self.compare(e, env), "bool"
        if isinstance(e, ast.Call):
            return self.call(e, env, want)
        self.fail(e, "unsupported expression")

    def truth(self, e, env):
        """the truth value of e as a bool"""
        if isinstance(e, (ast.UnaryOp, ast.BoolOp, ast.Compare)):
            t, ty = self.expr(e, env)
        else:
            t, ty = self.expr(e, env)
        if ty == "bool":
            return t
        if ty == "ostr":
            return "(ostr_truthy %s)" % _paren(t)
        if ty == "obool":
            return "(ob_truthy %s)" % _paren(t)
        self.fail(e, "truth value of a %s" % ty)

    def compare(self, e, env):
        op, l, r = e.ops[0], e.left, e.comparators[0]
        if isinstance(op, (ast.Is, ast.IsNot)) and isinstance(r, ast.Constant) and r.value is None:
            t, ty = self.expr(l, env)
            if ty not in ("ostr", "obool"):
                self.fail(e, "`is None` on a %s" % ty)
            s = "match %s with None => true | Some _ => false end" % t
            return "(%s)" % s if isinstance(op, ast.Is) else "(negb (%s))" % s
        if isinstance(op, (ast.In, ast.NotIn)):
            lt, lty = self.expr(l, env)
            rt, rty = self.expr(r, env)
            if lty != "str" or rty != "setstr":
                self.fail(e, "`in` on a %s and a %s" % (lty, rty))
            s = "(s_in %s %s)" % (lt, rt)
            return s if isinstance(op, ast.In) else "(negb %s)" % s
        # `c == x` is `x == c`
        if isinstance(l, ast.Constant) and not isinstance(r, ast.Constant) and isinstance(op, (ast.Eq, ast.NotEq)):
            l, r = r, l
        # type the constant side by the other side
        if isinstance(l, ast.Constant) and not isinstance(r, ast.Constant):
            rt, ty = self.expr(r, env)
            lt, _ = self.expr(l, env, ty)
        else:
            lt, ty = self.expr(l, env)
            rt, rty = self.expr(r, env, ty if isinstance(r, ast.Constant) else None)
            if not isinstance(r, ast.Constant) and rty != ty:
                self.fail(e, "comparison of a %s with a %s" % (ty, rty))
        table = {"num": dict(eq="neqb O %s %s", lt="nltb O %s %s", le="nleb O %s %s"),
                 "N": dict(eq="N.eqb %s %s", lt="N.ltb %s %s", le="N.leb %s %s"),
                 "Z": dict(eq="Z.eqb %s %s", lt="Z.ltb %s %s", le="Z.leb %s %s"),
                 "bool": dict(eq="Bool.eqb %s %s"), "str": dict(eq="str_eqb %s %s")}
        if ty not in table:
            self.fail(e, "comparison of values of type %s" % ty)
        kind, swap, neg = {ast.Eq: ("eq", False, False), ast.NotEq: ("eq", False, True), ast.Lt: ("lt", False, False),
                           ast.LtE: ("le", False, False), ast.Gt: ("lt", True, False), ast.GtE: ("le", True, False)}.get(type(op), (None, 0, 0))
        if kind is None or kind not in table[ty]:
            self.fail(e, "unsupported comparison")
        a, b = (rt, lt) if swap else (lt, rt)
        s = "(" + table[ty][kind] % (_paren(a), _paren(b)) + ")"
        return "(negb %s)" % s if neg else s

    def norm_args(self, node, c, args, keywords, env):
        """the values of all the parameters of a collaborator, in the order of its def"""
        params = c["params"]
        defaults = self.sig(c)
        given = {}
        if len(args) > len(params):
            self.fail(node, "too many arguments")
        for i, a in enumerate(args):
            if isinstance(a, ast.Starred):
                self.fail(node, "starred argument")
            given[i] = a
        names = [p for p, _ in params]
        for kw in keywords:
            if kw.arg is None or kw.arg not in names:
                self.fail(node, "unknown keyword argument %r" % kw.arg)
            i = names.index(kw.arg)
            if i in given:
                self.fail(node, "argument %s given twice" % kw.arg)
            given[i] = kw.value
        out = []
        # evaluation order: positional arguments, then keywords as written (they are pure here except calls, refused below)
        for i, (pname, pty) in enumerate(params):
            if i in given:
                n = len(self.pending)
                t, _ = self.expr(given[i], env, pty)
                if len(self.pending) > n and i != min(given):
                    self.fail(given[i], "a call inside a later argument")
                out.append(_paren(t))
            elif i in defaults:
                out.append(_paren(self.const(defaults[i], defaults[i].value, pty)))
            else:
                self.fail(node, "argument %s is missing" % pname)
        return out, given

    def check_usable(self, node, name, env):
        if name in self.loop_object:
            self.fail(node, "the reader %s is used inside its own loop" % name)

    def inline(self, e, helper):
        """a call of a helper whose body is `return <expr>`: the expression with the arguments put in"""
        import copy
        a = helper.args
        names = [x.arg for x in a.args]
        if a.vararg or a.kwarg or a.kwonlyargs or a.posonlyargs or helper.decorator_list:
            self.fail(e, "unsupported parameters of the helper %s" % helper.name)
        given = {}
        if len(e.args) > len(names):
            self.fail(e, "too many arguments")
        for i, x in enumerate(e.args):
            given[names[i]] = x
        for kw in e.keywords:
            if kw.arg not in names or kw.arg in given:
                self.fail(e, "unexpected keyword argument %r" % kw.arg)
            given[kw.arg] = kw.value
        nd = len(a.defaults)
        for i, d in enumerate(a.defaults):
            given.setdefault(names[len(names) - nd + i], d)
        for n in names:
            if n not in given:
                self.fail(e, "argument %s is missing" % n)
            if not self.dead.pure(given[n]):
                self.fail(e, "an argument of the helper %s is not a pure expression" % helper.name)
        body = [s for s in helper.body if not (isinstance(s, ast.Expr) and isinstance(s.value, ast.Constant))]
        if len(body) != 1 or not isinstance(body[0], ast.Return) or body[0].value is None:
            self.fail(e, "the helper %s is something else than `return <expression>`" % helper.name)

        class Sub(ast.NodeTransformer):
            def visit_Name(self, node):
                if node.id in given and isinstance(node.ctx, ast.Load):
                    return copy.deepcopy(given[node.id])
                return node
        expr = Sub().visit(copy.deepcopy(body[0].value))
        for n in ast.walk(expr):
            if isinstance(n, (ast.Lambda, ast.ListComp, ast.DictComp, ast.SetComp, ast.GeneratorExp, ast.NamedExpr)):
                self.fail(e, "unsupported expression in the helper %s" % helper.name)
        return ast.copy_location(expr, e) if not hasattr(expr, "lineno") else expr

    def call(self, e, env, want):
        f = e.func
        if isinstance(f, ast.Name) and f.id in self.helpers and f.id not in env.types:
            if self.inline_depth > 4:
                self.fail(e, "helpers nested too deeply")
            self.inline_depth += 1
            try:
                sub = self.inline(e, self.helpers[f.id])
                ast.fix_missing_locations(sub)
                return self.expr(sub, env, want)
            finally:
                self.inline_depth -= 1
        if isinstance(f, ast.Name) and f.id in self.table:
            c = self.table[f.id]
            if c.get("world") and (self.pure_depth or not self.world):
                self.fail(e, "%s touches the world inside a loop body" % f.id)
            args, given = self.norm_args(e, c, e.args, e.keywords, env)
            for i in c.get("capture", []):
                if i in given and isinstance(given[i], ast.Name):
                    env.captured.add(given[i].id)
                else:
                    self.fail(e, "the captured argument is not a variable")
            text = "%s %s %s" % (c["op"], self.cvar, " ".join(args))
            if c.get("mut") is not None:
                i = c["mut"]
                if i not in given or not isinstance(given[i], ast.Name):
                    self.fail(e, "the updated argument is not a variable")
                v = given[i].id
                if v in env.captured:
                    self.fail(e, "%s is updated after another object captured it" % v)
                cv = self.coq_name(e, v)
                if c["ret"] is None:
                    self.push(text, c.get("world"), cv)
                    return "tt", "unit"
                r = self.gensym()
                self.push(text, c.get("world"), "'(%s, %s)" % (r, cv))
                return self.coerce(e, r, c["ret"], want), want or c["ret"]
            t = self.push(text, c.get("world"))
            return self.coerce(e, t, c["ret"], want), want or c["ret"]
        if isinstance(f, ast.Attribute) and isinstance(f.value, ast.Name):
            v = f.value.id
            ty = env.types.get(v)
            if (ty, f.attr) in METHODS:
                self.check_usable(e, v, env)
                c = METHODS[(ty, f.attr)]
                args, _ = self.norm_args(e, c, e.args, e.keywords, env)
                text = "%s %s %s %s" % (c["op"], self.cvar, self.coq_name(e, v), " ".join(args))
                if c.get("mut") == "self":
                    if v in env.captured:
                        self.fail(e, "%s is updated after another object captured it" % v)
                    self.push(text.rstrip(), None, self.coq_name(e, v))
                    return "tt", "unit"
                t = self.push(text.rstrip(), None)
                return self.coerce(e, t, c["ret"], want), want or c["ret"]
        d = dotted(f)
        if d == ("Counter",) and not e.args and not e.keywords:
            return "(@nil (Z * N))", "LC"
        if d == ("set",) and not e.args and not e.keywords:
            return "(@nil TextFile.str)", "setstr"
        if d == ("os", "path", "join") and not e.keywords and len(e.args) >= 2 and \
                ast.dump(e.args[0]) == ast.dump(ast.parse("os.path.dirname(os.path.realpath(__file__))", mode="eval").body):
            t = "script_dir"
            for a in e.args[1:]:
                at, _ = self.expr(a, env, "str")
                t = "(path_join %s %s)" % (t, _paren(at))
            return t, "path"
        self.fail(e, "unsupported call")

    # -------------------------------------------------------------- statements
    def assigned(self, stmts, env):
        """the variables of env a statement list may rebind (assignments, updates of objects)"""
        out = []

        def add(n):
            if n in env.types and n not in out and n not in self.dead.vars:
                out.append(n)

        def visit_expr(x):
            for n in ast.walk(x):
                if isinstance(n, ast.Call):
                    f = n.func
                    if isinstance(f, ast.Name) and f.id in self.table and self.table[f.id].get("mut") is not None:
                        c = self.table[f.id]
                        i = c["mut"]
                        names = [p for p, _ in c["params"]]
                        if i < len(n.args) and isinstance(n.args[i], ast.Name):
                            add(n.args[i].id)
                        for kw in n.keywords:
                            if kw.arg == names[i] and isinstance(kw.value, ast.Name):
                                add(kw.value.id)
                    if isinstance(f, ast.Attribute) and isinstance(f.value, ast.Name):
                        ty = env.types.get(f.value.id)
                        if (ty, f.attr) in METHODS and METHODS[(ty, f.attr)].get("mut") == "self":
                            add(f.value.id)
                        if (ty, f.attr) in GENERATORS:
                            add(f.value.id)
                        if ty == "setstr" and f.attr == "add":
                            add(f.value.id)
                    if isinstance(f, ast.Attribute) and isinstance(f.value, ast.Attribute) and isinstance(f.value.value, ast.Name) \
                            and env.types.get(f.value.value.id) == "PP":
                        add(f.value.value.id)

        def visit(stmts):
            for s in stmts:
                if self.dead.droppable(s):
                    continue
                if isinstance(s, (ast.Assign, ast.AugAssign)):
                    tg = s.targets[0] if isinstance(s, ast.Assign) else s.target
                    while isinstance(tg, (ast.Subscript, ast.Attribute)):
                        tg = tg.value
                    if isinstance(tg, ast.Name):
                        add(tg.id)
                for field, value in ast.iter_fields(s):
                    if field in ("body", "orelse"):
                        visit(value)
                    elif field == "handlers":
                        for h in value:
                            visit(h.body)
                    else:
                        for v in (value if isinstance(value, list) else [value]):
                            if isinstance(v, ast.AST):
                                visit_expr(v)
        visit(stmts)
        return out

    def ends_in_return(self, stmts):
        live = [s for s in stmts if not self.dead.droppable(s)]
        if not live:
            return False
        s = live[-1]
        if isinstance(s, (ast.Return, ast.Raise)):
            return True
        if isinstance(s, ast.If):
            return self.ends_in_return(s.body) and self.ends_in_return(s.orelse)
        return False

    def ret_text(self, s, env):
        v = s.value
        if self.ret == "obool":
            if v is None or (isinstance(v, ast.Constant) and v.value is None):
                return "None"
            if isinstance(v, ast.Constant) and isinstance(v.value, bool):
                return "(Some %s)" % ("true" if v.value else "false")
            self.fail(s, "run_trainer returns something else than True / False / None")
        if self.ret == "bool+pinfo":
            if isinstance(v, ast.Constant) and isinstance(v.value, bool):
                return "(%s, %s)" % ("true" if v.value else "false", self.coq_name(s, self.inout))
            self.fail(s, "parse_command_line returns something else than True / False")
        if self.ret == "unit":
            if v is None or (isinstance(v, ast.Constant) and v.value is None):
                return "tt"
            self.fail(s, "main returns a value")
        raise TranslateError("internal: return type")

    def block(self, stmts, env, ind, finish, loop_finish=None):
        """-> text of the statement list; `finish(env, ind)` is the text of falling off its end"""
        stmts = [s for s in stmts if not self.dead.droppable(s)]
        if not stmts:
            return finish(env, ind)
        s, rest = stmts[0], stmts[1:]

        def go_on(env2, ind2):
            return self.block(rest, env2, ind2, finish, loop_finish)

        if isinstance(s, ast.FunctionDef):
            if ind != 1 or s.name in env.types or s.name in self.table or s.name in self.helpers:
                self.fail(s, "a nested def somewhere else than at the top level of the function, or one that shadows a name")
            self.helpers[s.name] = s
            return go_on(env, ind)
        if isinstance(s, ast.Return):
            if self.pure_depth:
                self.fail(s, "return inside a loop body")
            return self.line(ind, "%s %s" % (self.W("Retn"), self.ret_text(s, env)), s)
        if isinstance(s, ast.Expr):
            sp = self.expr_stmt_special(s, env, ind, go_on)
            if sp is not None:
                return sp
            self.expr(s.value, env)
            if not self.pending:
                self.fail(s, "an expression statement without effect on the model")
            pre, n = self.flush(ind)
            lines = pre.rstrip("\n").split("\n")
            lines[-1] = lines[-1] + " " * max(2, 78 - len(lines[-1])) + self.note(s)
            return "\n".join(lines) + "\n" + self.close(go_on(env, ind), n)
        if isinstance(s, ast.Assign):
            return self.assign(s, env, ind, go_on)
        if isinstance(s, ast.AugAssign):
            return self.augassign(s, env, ind, go_on)
        if isinstance(s, ast.If):
            return self.if_(s, rest, env, ind, finish, loop_finish, go_on)
        if isinstance(s, ast.For):
            return self.for_(s, env, ind, go_on)
        if isinstance(s, ast.Try):
            return self.try_(s, env, ind, go_on)
        self.fail(s, "unsupported statement")

    def close(self, text, n):
        return text.rstrip("\n") + ")" * n + "\n" if n else text

    def assign(self, s, env, ind, go_on):
        if len(s.targets) != 1:
            self.fail(s, "chained assignment")
        tg = s.targets[0]
        if isinstance(tg, ast.Name):
            if tg.id in self.loop_object:
                self.fail(s, "the reader is rebound inside its loop")
            want = env.types.get(tg.id)
            t, ty = self.expr(s.value, env, want if isinstance(s.value, ast.Constant) else None)
            if ty in ("unit",):
                self.fail(s, "the call has no result")
            pre, n = self.flush(ind)
            if tg.id in env.captured:
                env.captured.discard(tg.id)
            c = self.bind_var(s, tg.id, ty, env)
            body = self.line(ind, "let %s := %s in" % (c, t), s) + go_on(env, ind)
            return pre + self.close(body, n)
        if isinstance(tg, ast.Subscript) and isinstance(tg.value, ast.Name) and env.types.get(tg.value.id) == "pinfo" \
                and isinstance(tg.slice, ast.Constant) and tg.slice.value in PI_KEYS:
            k = tg.slice.value
            t, _ = self.expr(s.value, env, PI_KEYS[k])
            pre, n = self.flush(ind)
            c = self.coq_name(s, tg.value.id)
            body = self.line(ind, "let %s := set_pi_%s %s %s in" % (c, k, c, _paren(t)), s) + go_on(env, ind)
            return pre + self.close(body, n)
        pc = self.parser_counter(tg, env)
        if pc is not None:
            v, name = pc
            val = s.value
            if isinstance(val, ast.Call) and dotted(val.func) == ("Counter",) and not val.args and not val.keywords and name in PO_FLAT:
                pass
            elif isinstance(val, ast.Dict) and not val.keys and name in PO_INDEXED:
                pass
            else:
                self.fail(s, "a counter of the parser is assigned something else than an empty Counter() / {}")
            return self.set_counter(s, v, name, "[]", env, ind, go_on)
        self.fail(s, "unsupported assignment target")

    def parser_counter(self, e, env):
        """pcfg_parser.count_X -> (variable, X)"""
        if isinstance(e, ast.Attribute) and isinstance(e.value, ast.Name) and env.types.get(e.value.id) == "PP" \
                and e.attr.startswith("count_") and e.attr[6:] in PO_ORDER:
            return e.value.id, e.attr[6:]
        return None

    def set_counter(self, s, v, name, value, env, ind, go_on):
        if v in env.captured:
            self.fail(s, "%s is updated after another object captured it" % v)
        c = self.coq_name(s, v)
        body = self.line(ind, "let %s := c_pp_update %s %s (set_po_count_%s (c_pp_view %s %s) %s) in"
                         % (c, self.cvar, c, name, self.cvar, c, value), s) + go_on(env, ind)
        return body

    def augassign(self, s, env, ind, go_on):
        tg = s.target
        if isinstance(tg, ast.Subscript) and isinstance(tg.value, ast.Name) and env.types.get(tg.value.id) == "LC" \
                and isinstance(s.op, ast.Add):
            k, _ = self.expr(tg.slice, env, "Z")
            n, _ = self.expr(s.value, env, "N")
            if self.pending:
                self.fail(s, "a call inside an update of the level counter")
            c = self.coq_name(s, tg.value.id)
            return self.line(ind, "let %s := zcnt_add %s %s %s in" % (c, _paren(k), _paren(n), c), s) + go_on(env, ind)
        if isinstance(tg, ast.Name) and env.types.get(tg.id) in ("N", "Z") and isinstance(s.op, ast.Add):
            ty = env.types[tg.id]
            t, _ = self.expr(s.value, env, ty)
            if self.pending:
                self.fail(s, "a call inside +=")
            c = self.coq_name(s, tg.id)
            return self.line(ind, "let %s := (%s + %s)%%%s in" % (c, c, t, ty), s) + go_on(env, ind)
        self.fail(s, "unsupported augmented assignment")

    def expr_stmt_special(self, s, env, ind, go_on):
        """s.add(x) on a local set; pcfg_parser.count_X.clear()"""
        c = s.value
        if isinstance(c, ast.Call) and isinstance(c.func, ast.Attribute):
            f = c.func
            if isinstance(f.value, ast.Name) and env.types.get(f.value.id) == "setstr" and f.attr == "add" \
                    and len(c.args) == 1 and not c.keywords:
                t, _ = self.expr(c.args[0], env, "str")
                if self.pending:
                    self.fail(s, "a call inside set.add")
                v = self.coq_name(s, f.value.id)
                return self.line(ind, "let %s := %s :: %s in" % (v, t, v), s) + go_on(env, ind)
            pc = self.parser_counter(f.value, env)
            if pc is not None and f.attr == "clear" and not c.args and not c.keywords:
                return self.set_counter(s, pc[0], pc[1], "[]", env, ind, go_on)
            if pc is not None:
                self.fail(s, "unsupported update of a counter of the parser")
        return None

    def if_(self, s, rest, env, ind, finish, loop_finish, go_on):
        # `if c: ..; continue` directly in a loop body: the rest of the body is the else branch
        live = [x for x in s.body if not self.dead.droppable(x)]
        if live and isinstance(live[-1], ast.Continue):
            if loop_finish is None or s.orelse:
                self.fail(s, "continue outside the top level of a loop body")
            test = self.truth(s.test, env)
            pre, n = self.flush(ind)
            a = self.block(live[:-1], env.copy(), ind + 1, loop_finish, None)
            b = self.block(rest, env.copy(), ind + 1, finish, loop_finish)
            body = self.line(ind, "if %s then" % test, s) + a + self.line(ind, "else") + b
            return pre + self.close(body, n)
        for x in ast.walk(s):
            if isinstance(x, (ast.Continue, ast.Break)):
                self.fail(x, "break / continue")
        test = self.truth(s.test, env)
        pre, n = self.flush(ind)
        carried = self.state(self.assigned(s.body + s.orelse, env), env)
        val, binder = self.tuple_text(carried)

        def fin(env2, ind2):
            return self.line(ind2, "%s %s" % (self.W("Norm"), val))
        ea, eb = env.copy(), env.copy()
        a = self.block(s.body, ea, ind + 2, fin, None)
        b = self.block(s.orelse, eb, ind + 2, fin, None)
        env.captured |= ea.captured | eb.captured
        body = self.line(ind, "%s (if %s then" % (self.W("bind"), test), s) + a + self.line(ind + 1, "else") + \
            self.close(b, 0).rstrip("\n") + ") (fun %s =>\n" % binder + go_on(env, ind)
        return pre + self.close(body, n + 1)

    def for_(self, s, env, ind, go_on):
        if s.orelse:
            self.fail(s, "for ... else")
        it, target = s.iter, s.target
        # for i, x in enumerate(obj.read_password()[, start]): i may only feed prints
        if isinstance(it, ast.Call) and isinstance(it.func, ast.Name) and it.func.id == "enumerate" and "enumerate" not in env.types \
                and isinstance(target, ast.Tuple) and len(target.elts) == 2 and all(isinstance(x, ast.Name) for x in target.elts):
            rest = list(it.args[1:]) + [k.value for k in it.keywords]
            if len(it.args) < 1 or len(rest) > 1 or any(k.arg != "start" for k in it.keywords) or \
                    not all(isinstance(x, ast.Constant) and isinstance(x.value, int) and not isinstance(x.value, bool) for x in rest):
                self.fail(s, "unsupported arguments of enumerate")
            if target.elts[0].id not in self.dead.vars or target.elts[0].id in env.types:
                self.fail(s, "the index of enumerate is used outside print statements")
            it, target = it.args[0], target.elts[1]
        if not (isinstance(it, ast.Call) and isinstance(it.func, ast.Attribute) and isinstance(it.func.value, ast.Name)
                and (env.types.get(it.func.value.id), it.func.attr) in GENERATORS and not it.args and not it.keywords):
            self.fail(s, "a loop over something else than obj.read_password()")
        if self.pure_depth or not self.world:
            self.fail(s, "a nested reader loop")
        if not isinstance(target, ast.Name):
            self.fail(s, "loop target")
        obj = it.func.value.id
        if obj in env.captured:
            self.fail(s, "%s is read after another object captured it" % obj)
        g = GENERATORS[(env.types[obj], it.func.attr)]
        carried = [v for v in self.assigned(s.body, env) if v != obj]
        carried = self.state(carried, env)
        val, binder = self.tuple_text(carried)
        inner = env.copy()
        x = self.bind_var(s, target.id, g["elem"], inner)

        def fin(env2, ind2):
            return self.line(ind2, "Norm %s" % val)
        self.pure_depth += 1
        self.loop_object.append(obj)
        body = self.block(s.body, inner, ind + 2, fin, fin)
        self.loop_object.pop()
        self.pure_depth -= 1
        for n in ast.walk(ast.Module(body=s.body, type_ignores=[])):
            if isinstance(n, ast.Name) and n.id == obj:
                self.fail(n, "the reader %s is used inside its own loop" % obj)
        o = self.coq_name(s, obj)
        head = self.line(ind, "bindW (for_gen (%s %s %s) (fun %s %s =>" % (g["op"], self.cvar, o, x, binder), s)
        after = "'(%s, %s)" % (o, val if carried else "_")
        text = head + body.rstrip("\n") + ") %s) (fun %s =>\n" % (val, after) + go_on(env, ind)
        return self.close(text, 1)

    def try_(self, s, env, ind, go_on):
        if s.orelse or s.finalbody or len(s.handlers) != 1:
            self.fail(s, "try with else / finally / several handlers")
        h = s.handlers[0]
        if h.type is not None and not (isinstance(h.type, ast.Name) and h.type.id == "Exception"):
            self.fail(h, "a handler for something else than Exception")
        if not self.ends_in_return(h.body):
            self.fail(h, "a handler that does not end in return")
        if self.pure_depth or not self.world:
            self.fail(s, "try inside a loop body")
        carried = self.state(self.assigned(s.body, env), env)
        val, binder = self.tuple_text(carried)

        def fin(env2, ind2):
            return self.line(ind2, "NormW %s" % val)
        eb = env.copy()
        body = self.block(s.body, eb, ind + 2, fin, None)
        env.captured |= eb.captured
        eh = env.copy()
        hname = "_"
        if h.name:
            hname = self.bind_var(h, h.name, "exn", eh)

        def nofin(env2, ind2):
            raise TranslateError("internal: handler falls through")
        hb = self.block(h.body, eh, ind + 2, nofin, None)
        text = self.line(ind, "bindW (try_exceptW (", s) + body.rstrip("\n") + ")\n" + \
            self.line(ind + 1, "(fun %s =>" % hname, h) + hb.rstrip("\n") + ")) (fun %s =>\n" % binder + go_on(env, ind)
        return self.close(text, 1)

    def markov_call(self, first, stmts, rest, env, ind, finish):
        """the slice translate_writer.py translates: a call of its py_run_trainer_markov_block"""
        need = {"num_valid_passwords": "N", "omen_keyspace": "KS", "pcfg_parser": "PP", "program_info": "pinfo"}
        for v, ty in need.items():
            if env.types.get(v) != ty:
                self.fail(first, "the Markov block needs the variable %s : %s" % (v, ty))
        if "pcfg_parser" in env.captured:
            self.fail(first, "pcfg_parser is updated after another object captured it")
        stored = {n.id for st in stmts for n in ast.walk(st) if isinstance(n, ast.Name) and isinstance(n.ctx, ast.Store)}
        later = {n.id for st in rest for n in ast.walk(st) if isinstance(n, ast.Name) and isinstance(n.ctx, ast.Load)}
        if stored & later:
            self.fail(first, "a variable assigned in the Markov block is used after it: %s" % sorted(stored & later))
        C = self.cvar
        t = self.gensym()
        last = stmts[-1]
        text = self.line(ind, "bindW (liftW (ret_some (py_run_trainer_markov_block (pi_coverage program_info) num_valid_passwords "
                         "(c_ks_counter %s omen_keyspace) (po_count_base_structures (c_pp_view %s pcfg_parser))))) (fun %s =>" % (C, C, t))
        text += self.line(ind, "(* lines %d-%d: the Markov block, gen/WriterStruct_gen.v *)" % (first.lineno, getattr(last, "end_lineno", last.lineno)))
        text += self.line(ind, "let pcfg_parser := c_pp_update %s pcfg_parser (set_po_count_base_structures (c_pp_view %s pcfg_parser) %s) in" % (C, C, t))
        text += self.block(rest, env, ind, finish, None)
        return self.close(text, 1)


# ------------------------------------------------------------------ the generated file
HEAD = """(* GENERATED by harness/translate_trainer_run.py from the Python source of the current
   working tree (%s) on every run of a check.  Do not edit.
   Each definition is the line-by-line image of one Python function in the subset documented in the
   translator (printing is not modelled); the numbers in the comments are source lines.
   theories/TrainerRunGenProofs.v proves them equal to the hand-written models of TrainerRunModel.v. *)
From Coq Require Import String Ascii.
From Coq Require Import List NArith ZArith Bool.
From Pcfg Require Import TextFile Counters WriterRt TrainerRunRt.
From PcfgGen Require Import WriterStruct_gen.
Import ListNotations.
Local Notation s_ := str_of_string.

"""


def sha(nodes):
    return hashlib.sha256("\n".join(ast.dump(n) for n in nodes).encode()).hexdigest()


def check_imports(path, tree, table):
    """every collaborator name is bound by `from <module> import <name>` at the top level, exactly once, and
    not rebound"""
    for name, c in table.items():
        hits = []
        for n in ast.walk(tree):
            if isinstance(n, ast.ImportFrom):
                for a in n.names:
                    if (a.asname or a.name) == name:
                        hits.append((n, a))
            elif isinstance(n, ast.Import):
                for a in n.names:
                    if (a.asname or a.name.split(".")[0]) == name:
                        raise TranslateError("%s:%d: %s is bound by an import" % (path, n.lineno, name))
            elif isinstance(n, ast.Name) and n.id == name and isinstance(n.ctx, (ast.Store, ast.Del)):
                raise TranslateError("%s:%d: %s is rebound" % (path, n.lineno, name))
            elif isinstance(n, ast.arg) and n.arg == name:
                raise TranslateError("%s:%d: %s is a parameter name" % (path, n.lineno, name))
            elif isinstance(n, (ast.FunctionDef, ast.ClassDef)) and n.name == name:
                raise TranslateError("%s:%d: %s is redefined" % (path, n.lineno, name))
        if len(hits) != 1:
            raise TranslateError("%s: %s is not imported exactly once" % (path, name))
        n, a = hits[0]
        if n not in tree.body or a.asname is not None or a.name != name or n.level != 0 or n.module != c["module"]:
            raise TranslateError("%s:%d: %s is not imported from %s" % (path, n.lineno, name, c["module"]))
    for n in ast.walk(tree):
        if isinstance(n, ast.Name) and n.id in ("setattr", "delattr", "globals", "exec", "eval", "locals", "vars", "__import__"):
            raise TranslateError("%s:%d: %s is used in the module" % (path, n.lineno, n.id))
        if isinstance(n, (ast.FunctionDef, ast.ClassDef, ast.arg)) and getattr(n, "name", getattr(n, "arg", None)) in \
                ("print", "str", "set", "Exception", "Counter", "len", "int"):
            raise TranslateError("%s:%d: a builtin is redefined" % (path, n.lineno))
        if isinstance(n, ast.Name) and isinstance(n.ctx, (ast.Store, ast.Del)) and n.id in ("print", "str", "set", "Exception", "Counter"):
            raise TranslateError("%s:%d: %s is rebound" % (path, n.lineno, n.id))
        if isinstance(n, (ast.Global, ast.Nonlocal, ast.Lambda, ast.Yield, ast.YieldFrom, ast.Await, ast.NamedExpr)):
            raise TranslateError("%s:%d: unsupported construct %s" % (path, n.lineno, type(n).__name__))


def check_counter_import(path, tree):
    ok = False
    for n in tree.body:
        if isinstance(n, ast.ImportFrom) and n.module == "collections" and n.level == 0:
            for a in n.names:
                if a.name == "Counter" and a.asname is None:
                    ok = True
    if not ok:
        raise TranslateError("%s: no `from collections import Counter`" % path)


def render_run_trainer(repo):
    rel = "lib_trainer/run_trainer.py"
    path, tree = TW.parse(repo, rel)
    check_imports(path, tree, COLLAB)
    check_counter_import(path, tree)
    defs = TW.defs_of(path, tree.body)
    if "run_trainer" not in defs:
        raise TranslateError("%s: run_trainer not found" % path)
    fn = defs["run_trainer"]
    if [a.arg for a in fn.args.args] != ["program_info", "base_directory"] or fn.args.vararg or fn.args.kwarg \
            or fn.args.kwonlyargs or fn.args.defaults or fn.decorator_list:
        raise TranslateError("%s:%d: the parameters of run_trainer changed" % (path, fn.lineno))
    for n in ast.walk(fn):
        if isinstance(n, ast.ClassDef) or (isinstance(n, ast.FunctionDef) and n is not fn and n not in fn.body):
            raise TranslateError("%s:%d: nested definition" % (path, n.lineno))
    tr = FnTr(repo, path, rel, fn, COLLAB, True, "obool", "C")
    tr.helpers = {n: d for n, d in defs.items() if n != "run_trainer"}
    tr.dead = Dead(fn, tr.helpers)
    for n in ast.walk(tree):
        if isinstance(n, ast.Name) and isinstance(n.ctx, (ast.Store, ast.Del)) and n.id in defs:
            raise TranslateError("%s:%d: %s is rebound" % (path, n.lineno, n.id))
    env = Env()
    tr.bind_var(fn, "program_info", "pinfo", env)
    tr.bind_var(fn, "base_directory", "path", env)
    lo, hi = TW.markov_slice(path, fn)
    pre, mid, post = fn.body[:lo], fn.body[lo:hi], fn.body[hi:]

    def fin(env2, ind2):
        return tr.line(ind2, "RetnW None")

    def fin_pre(env2, ind2):
        return tr.markov_call(mid[0], mid, post, env2, ind2, fin)
    body = tr.block(pre, env, 1, fin_pre)
    dead = ", ".join(sorted(tr.dead.vars)) or "none"
    text = ("(* %s  def run_trainer  lines %d-%d\n   sha256 of the ast.dump of the function: %s\n"
            "   local variables that only feed prints (not modelled): %s *)\n"
            "Definition py_run_trainer {O : numops} (C : collab O) (program_info : pinfo O) (base_directory : WriterRt.path)\n"
            "  : c_W C -> res (option bool) * c_W C :=\n  run_fnW (\n%s).\n"
            % (rel, fn.lineno, fn.end_lineno, sha([fn]), dead, body.rstrip("\n")))
    return rel, text


# ------------------------------------------------------------------ print_statistics: what it does to the parser object
READ_METHODS = {"most_common", "items", "keys", "values", "get", "copy", "total", "elements"}
READ_FUNCS = {"len", "sum", "sorted", "list", "str", "int", "max", "min", "dict", "tuple", "reversed", "enumerate", "repr", "float", "round"}
UPDATE_METHODS = {"update", "clear"}


class StatsTr:
    """print_statistics(pcfg_parser): every statement is either a print, a read of the parser (the values are
    not modelled: only comments reach the output) or an update of one of its count_* attributes, possibly through a
    local alias of the attribute.  Anything that could reach the parser object in another way is refused."""

    def __init__(self, path, fn):
        self.path, self.fn = path, fn
        self.p = fn.args.args[0].arg
        self.alias = {}       # local name -> count_X it aliases
        self.fresh = set()    # local names bound to values that share nothing with the parser

    def fail(self, node, msg):
        raise TranslateError("%s:%d: print_statistics: %s  [%s]" % (
            self.path, getattr(node, "lineno", self.fn.lineno), msg, _comment(ast.unparse(node)).split("\n")[0][:100]))

    def counter_of(self, e):
        """count_X when e denotes that attribute object itself (directly or through an alias)"""
        if isinstance(e, ast.Attribute) and isinstance(e.value, ast.Name) and e.value.id == self.p:
            if not (e.attr.startswith("count_") and e.attr[6:] in PO_ORDER):
                self.fail(e, "unknown attribute of the parser")
            return e.attr[6:]
        if isinstance(e, ast.Name) and e.id in self.alias:
            return self.alias[e.id]
        return None

    def is_read(self, e):
        """an expression that only reads: its value is fresh (immutable or newly built from immutable parts) when
        it is built from flat counters; values derived from the length-indexed dicts may share their inner Counters and
        are accepted only where they are consumed by a read-only function or printed"""
        if isinstance(e, ast.Constant):
            return True
        if isinstance(e, ast.Name):
            if e.id == self.p:
                return False
            return e.id in self.fresh or e.id in self.alias
        if isinstance(e, ast.Attribute):
            return self.counter_of(e) is not None
        if isinstance(e, (ast.BinOp,)):
            return self.is_read(e.left) and self.is_read(e.right)
        if isinstance(e, ast.UnaryOp):
            return self.is_read(e.operand)
        if isinstance(e, ast.BoolOp):
            return all(self.is_read(v) for v in e.values)
        if isinstance(e, ast.Compare):
            return self.is_read(e.left) and all(self.is_read(c) for c in e.comparators)
        if isinstance(e, ast.Subscript):
            return self.is_read(e.value) and self.is_read(e.slice)
        if isinstance(e, ast.JoinedStr):
            return all(self.is_read(v) for v in e.values)
        if isinstance(e, ast.FormattedValue):
            return self.is_read(e.value)
        if isinstance(e, (ast.Tuple, ast.List)):
            return all(self.is_read(v) for v in e.elts)
        if isinstance(e, ast.Call):
            if e.keywords and not all(k.arg in ("key", "reverse", "default") and self.is_read(k.value) for k in e.keywords):
                return False
            if isinstance(e.func, ast.Name) and e.func.id in READ_FUNCS:
                return all(self.is_read(a) for a in e.args)
            if isinstance(e.func, ast.Attribute) and e.func.attr in READ_METHODS:
                return self.is_read(e.func.value) and all(self.is_read(a) for a in e.args)
        return False

    def shares(self, e):
        """may the value of the read expression e contain a mutable part of the parser?  (flat Counters hold
        strings and ints only; the indexed dicts hold Counters)"""
        if isinstance(e, ast.Call) and isinstance(e.func, ast.Name) and e.func.id in ("len", "str", "int", "float", "repr", "round"):
            return False       # a number / a string, whatever it was computed from
        if isinstance(e, (ast.Compare, ast.BoolOp, ast.JoinedStr, ast.Constant)):
            return isinstance(e, ast.BoolOp) and any(self.shares(v) for v in e.values)
        for n in ast.walk(e):
            c = self.counter_of(n) if isinstance(n, (ast.Attribute, ast.Name)) else None
            if c in PO_INDEXED:
                return True
        # the flat counter object itself (not a copy)
        return self.counter_of(e) is not None

    def run(self):
        fn, p = self.fn, self.p
        lines = []
        dead = Dead(fn)

        def comment(s, what):
            lines.append("  (* %d: %s: %s *)" % (s.lineno, _comment(ast.unparse(s).split("\n")[0])[:90], what))

        def upd(s, name, value):
            lines.append("  let %s := set_po_count_%s %s %s in" % (p, name, p, value) +
                         "    (* %d: %s *)" % (s.lineno, _comment(ast.unparse(s).split("\n")[0])[:90]))

        def value_of(e, name):
            """a counter value assigned to / merged into count_<name>"""
            flat = name in PO_FLAT
            if isinstance(e, ast.Call) and dotted(e.func) == ("Counter",) and not e.args and not e.keywords and flat:
                return "[]"
            if isinstance(e, ast.Dict) and not e.keys and not flat:
                return "[]"
            c = self.counter_of(e)
            if c is not None and (c in PO_FLAT) == flat:
                return "(po_count_%s %s)" % (c, p)
            return None

        def stmt(s, top):
            if isinstance(s, ast.Expr) and isinstance(s.value, ast.Constant):
                return
            if isinstance(s, ast.Pass):
                return
            if isinstance(s, ast.Expr) and isinstance(s.value, ast.Call):
                c = s.value
                if dotted(c.func) == ("print",):
                    if not all(self.is_read(a) for a in c.args) or not all(self.is_read(k.value) for k in c.keywords):
                        self.fail(s, "print of something that is not a read")
                    return
                if isinstance(c.func, ast.Attribute) and c.func.attr in UPDATE_METHODS:
                    name = self.counter_of(c.func.value)
                    if name is None:
                        self.fail(s, "an update of something that is not a count_* attribute of the parser")
                    if not top:
                        self.fail(s, "an update of the parser inside a compound statement")
                    if c.func.attr == "clear" and not c.args and not c.keywords:
                        return upd(s, name, "[]")
                    if c.func.attr == "update" and len(c.args) == 1 and not c.keywords and name in PO_FLAT:
                        v = value_of(c.args[0], name)
                        if v is not None:
                            return upd(s, name, "(cnt_update (po_count_%s %s) %s)" % (name, p, v))
                    self.fail(s, "unsupported update of the parser")
                self.fail(s, "unsupported call")
            if isinstance(s, ast.Assign) and len(s.targets) == 1:
                tg, v = s.targets[0], s.value
                if isinstance(tg, ast.Name):
                    if tg.id == p:
                        self.fail(s, "the parameter is rebound")
                    name = self.counter_of(v)
                    self.alias.pop(tg.id, None)
                    self.fresh.discard(tg.id)
                    if name is not None:
                        if not top:
                            self.fail(s, "an alias bound inside a compound statement")
                        self.alias[tg.id] = name
                        return comment(s, "an alias of count_%s" % name)
                    if self.is_read(v) and not self.shares(v):
                        self.fresh.add(tg.id)
                        return comment(s, "reads only")
                    self.fail(s, "the value may share a mutable part of the parser")
                if isinstance(tg, ast.Attribute) and isinstance(tg.value, ast.Name) and tg.value.id == p:
                    name = self.counter_of(tg)
                    val = value_of(v, name)
                    if val is None or not top:
                        self.fail(s, "unsupported assignment to an attribute of the parser")
                    return upd(s, name, val)
                if isinstance(tg, ast.Subscript):
                    name = self.counter_of(tg.value)
                    if name is not None:
                        self.fail(s, "an item of count_%s is assigned (the translation of item updates is not implemented: refused)" % name)
                self.fail(s, "unsupported assignment")
            if isinstance(s, ast.AugAssign):
                tg = s.target
                if isinstance(tg, ast.Name) and tg.id in self.fresh and self.is_read(s.value):
                    return
                self.fail(s, "unsupported augmented assignment")
            if isinstance(s, ast.For):
                if s.orelse or not self.is_read(s.iter):
                    self.fail(s, "unsupported loop")
                names = [n.id for n in ast.walk(s.target) if isinstance(n, ast.Name)]
                if self.shares(s.iter):
                    # the items may be inner Counters: usable in reads only, never fresh
                    for n in names:
                        self.alias.pop(n, None)
                        self.fresh.discard(n)
                    inner_ok = lambda x: isinstance(x, ast.Expr) and isinstance(x.value, ast.Call) and dotted(x.value.func) == ("print",)  # noqa: E731
                    for x in s.body:
                        if not inner_ok(x):
                            self.fail(x, "a loop over parts of the parser holds something else than prints")
                        for n in ast.walk(x):
                            if isinstance(n, ast.Name) and n.id in names:
                                self.fail(x, "an item of a length-indexed counter is used")
                    return
                for n in names:
                    self.fresh.add(n)
                for x in s.body:
                    stmt(x, False)
                return
            if isinstance(s, ast.If):
                if not self.is_read(s.test):
                    self.fail(s, "unsupported test")
                for x in s.body + s.orelse:
                    stmt(x, False)
                return
            if isinstance(s, ast.Return) and (s.value is None or (isinstance(s.value, ast.Constant) and s.value.value is None)):
                if not top or s is not fn.body[-1]:
                    self.fail(s, "return before the end")
                return
            self.fail(s, "unsupported statement")

        for s in fn.body:
            stmt(s, True)
        return lines


def render_print_statistics(repo):
    rel = "lib_trainer/print_statistics.py"
    path, tree = TW.parse(repo, rel)
    check_imports(path, tree, {})
    defs = TW.defs_of(path, tree.body)
    if "print_statistics" not in defs:
        raise TranslateError("%s: print_statistics not found" % path)
    fn = defs["print_statistics"]
    a = fn.args
    if len(a.args) != 1 or a.vararg or a.kwarg or a.kwonlyargs or a.defaults or fn.decorator_list:
        raise TranslateError("%s:%d: the parameters of print_statistics changed" % (path, fn.lineno))
    for n in ast.walk(fn):
        if isinstance(n, (ast.FunctionDef, ast.ClassDef, ast.Lambda, ast.ListComp, ast.DictComp, ast.SetComp, ast.GeneratorExp,
                          ast.While, ast.Try, ast.With, ast.Delete, ast.Starred)) and n is not fn:
            raise TranslateError("%s:%d: print_statistics: unsupported construct %s" % (path, n.lineno, type(n).__name__))
    tr = StatsTr(path, fn)
    p = tr.p
    if p in RESERVED or not p.isidentifier():
        raise TranslateError("%s:%d: unsupported parameter name" % (path, fn.lineno))
    lines = tr.run()
    text = ("(* %s  def print_statistics  lines %d-%d\n   sha256 of the ast.dump of the function: %s\n"
            "   what the function does to the parser object it is given; the values it prints are not modelled *)\n"
            "Definition py_print_statistics {O : numops} (%s : parser_obj O) : res (parser_obj O) :=\n  run_fn (\n%s  Norm %s).\n"
            % (rel, fn.lineno, fn.end_lineno, sha([fn]), p, "".join(l + "\n" for l in lines), p))
    return rel, text


# ------------------------------------------------------------------ PCFGPasswordParser.__init__
def render_parser_init(repo):
    rel = "lib_trainer/pcfg_password_parser.py"
    path, tree = TW.parse(repo, rel)
    fn = TW.class_method(path, tree, "PCFGPasswordParser", "__init__")
    check_counter_import(path, tree)
    if [a.arg for a in fn.args.args] != ["self", "multiword_detector"]:
        raise TranslateError("%s:%d: the parameters of PCFGPasswordParser.__init__ changed" % (path, fn.lineno))
    counters, others = {}, []
    for s in fn.body:
        if isinstance(s, ast.Expr) and isinstance(s.value, ast.Constant):
            continue
        if not (isinstance(s, ast.Assign) and len(s.targets) == 1 and isinstance(s.targets[0], ast.Attribute)
                and isinstance(s.targets[0].value, ast.Name) and s.targets[0].value.id == "self"):
            raise TranslateError("%s:%d: __init__: something else than self.x = e  [%s]" % (path, s.lineno, ast.unparse(s)[:80]))
        name, v = s.targets[0].attr, s.value
        if name in counters or name in others:
            raise TranslateError("%s:%d: __init__: self.%s is assigned twice" % (path, s.lineno, name))
        for n in ast.walk(v):
            if isinstance(n, ast.Attribute) and isinstance(n.value, ast.Name) and n.value.id == "self" and n.attr.startswith("count_"):
                raise TranslateError("%s:%d: __init__: a counter is used to initialise another attribute" % (path, s.lineno))
        if name.startswith("count_"):
            x = name[6:]
            if x not in PO_ORDER:
                raise TranslateError("%s:%d: __init__: unknown counter %s" % (path, s.lineno, name))
            if x in PO_FLAT and isinstance(v, ast.Call) and dotted(v.func) == ("Counter",) and not v.args and not v.keywords:
                counters[name] = s
            elif x in PO_INDEXED and isinstance(v, ast.Dict) and not v.keys:
                counters[name] = s
            else:
                raise TranslateError("%s:%d: __init__: %s does not start as an empty %s" %
                                     (path, s.lineno, name, "Counter()" if x in PO_FLAT else "{}"))
        else:
            others.append(name)
    missing = [x for x in PO_ORDER if "count_" + x not in counters]
    if missing:
        raise TranslateError("%s:%d: __init__: the counters %s are not initialised" % (path, fn.lineno, missing))
    fields = ";\n     ".join("po_count_%s := []" % x + "    (* %d *)" % counters["count_" + x].lineno for x in PO_ORDER)
    text = ("(* %s  class PCFGPasswordParser  def __init__  lines %d-%d\n   sha256 of the ast.dump of the function: %s\n"
            "   the count_* attributes (Counter() / {}) as the writers see them, and the names of the other attributes *)\n"
            "Definition py_PCFGPasswordParser_init {O : numops} : parser_obj O :=\n  {| %s |}.\n"
            "Definition py_PCFGPasswordParser_other_attrs : list string :=\n  [%s]%%string.\n"
            % (rel, fn.lineno, fn.end_lineno, sha([fn]), fields, "; ".join('"%s"' % o for o in others)))
    return rel, text


# ------------------------------------------------------------------ trainer.py: parse_command_line, main
def coq_string(s):
    if '"' in s or not all(32 <= ord(c) <= 126 for c in s):
        raise TranslateError("unsupported string %r" % s)
    return '"%s"' % s


def cli_options(path, fn, dead):
    """the parser.add_argument calls -> (text of the option table, index of the first statement after parse_args,
    name of the args variable)"""
    body = [s for s in fn.body if not (isinstance(s, ast.Expr) and isinstance(s.value, ast.Constant))]
    pinfo = fn.args.args[0].arg
    if not body or not (isinstance(body[0], ast.Assign) and len(body[0].targets) == 1 and isinstance(body[0].targets[0], ast.Name)
                        and isinstance(body[0].value, ast.Call) and dotted(body[0].value.func) == ("argparse", "ArgumentParser")):
        raise TranslateError("%s:%d: parse_command_line does not start with parser = argparse.ArgumentParser(..)" % (path, fn.lineno))
    pv = body[0].targets[0].id
    c0 = body[0].value
    if c0.args or any(k.arg != "description" or not dead.pure(k.value) for k in c0.keywords):
        raise TranslateError("%s:%d: unsupported arguments of ArgumentParser" % (path, body[0].lineno))
    opts = []
    i = 1
    while i < len(body):
        s = body[i]
        if isinstance(s, ast.Expr) and isinstance(s.value, ast.Call) and isinstance(s.value.func, ast.Attribute) \
                and isinstance(s.value.func.value, ast.Name) and s.value.func.value.id == pv:
            c = s.value
            if c.func.attr != "add_argument":
                raise TranslateError("%s:%d: unsupported method of the argument parser" % (path, s.lineno))
            flags = []
            for a in c.args:
                if not (isinstance(a, ast.Constant) and isinstance(a.value, str) and a.value.startswith("-")):
                    raise TranslateError("%s:%d: positional command line arguments are not supported" % (path, s.lineno))
                flags.append(a.value)
            longs = [f for f in flags if f.startswith("--")]
            if not longs:
                raise TranslateError("%s:%d: an option without long flag" % (path, s.lineno))
            o = dict(flags=flags, dest=longs[0][2:].replace("-", "_"), type="TyStr", action="ActStore", required="false",
                     default=None, choices="None", line=s.lineno)
            for k in c.keywords:
                v = k.value
                if k.arg in ("help", "metavar"):
                    if not dead.pure(v):
                        raise TranslateError("%s:%d: %s is not a pure expression" % (path, s.lineno, k.arg))
                elif k.arg == "required" and isinstance(v, ast.Constant) and isinstance(v.value, bool):
                    o["required"] = "true" if v.value else "false"
                elif k.arg == "type" and isinstance(v, ast.Name) and v.id in ("int", "float", "str"):
                    o["type"] = {"int": "TyInt", "float": "TyFloat", "str": "TyStr"}[v.id]
                elif k.arg == "action" and isinstance(v, ast.Constant) and v.value in ("store_true", "store"):
                    o["action"] = "ActStoreTrue" if v.value == "store_true" else "ActStore"
                elif k.arg == "choices" and isinstance(v, ast.Call) and dotted(v.func) == ("range",) and len(v.args) == 2 \
                        and all(isinstance(a, ast.Constant) and isinstance(a.value, int) and not isinstance(a.value, bool) and
                                0 <= a.value < 1000 for a in v.args) and not v.keywords:
                    o["choices"] = "(Some [%s]%%Z)" % "; ".join(str(x) for x in range(v.args[0].value, v.args[1].value))
                elif k.arg == "default":
                    if isinstance(v, ast.Subscript) and isinstance(v.value, ast.Name) and v.value.id == pinfo \
                            and isinstance(v.slice, ast.Constant) and v.slice.value in PI_KEYS:
                        o["default"] = "(DInfo %s)" % coq_string(v.slice.value)
                    elif isinstance(v, ast.Constant) and isinstance(v.value, bool):
                        o["default"] = "(DBool %s)" % ("true" if v.value else "false")
                    elif isinstance(v, ast.Constant) and v.value is None:
                        o["default"] = "DNone"
                    else:
                        raise TranslateError("%s:%d: unsupported default" % (path, s.lineno))
                else:
                    raise TranslateError("%s:%d: unsupported keyword %s of add_argument" % (path, s.lineno, k.arg))
            if o["default"] is None:
                o["default"] = "(DBool false)" if o["action"] == "ActStoreTrue" else "DNone"
            if any(p["dest"] == o["dest"] for p in opts):
                raise TranslateError("%s:%d: the option %s is defined twice" % (path, s.lineno, o["dest"]))
            opts.append(o)
            i += 1
            continue
        break
    if i >= len(body):
        raise TranslateError("%s:%d: parse_command_line never calls parse_args" % (path, fn.lineno))
    s = body[i]
    if not (isinstance(s, ast.Assign) and len(s.targets) == 1 and isinstance(s.targets[0], ast.Name) and isinstance(s.value, ast.Call)
            and isinstance(s.value.func, ast.Attribute) and isinstance(s.value.func.value, ast.Name) and s.value.func.value.id == pv
            and s.value.func.attr == "parse_args" and not s.value.args and not s.value.keywords):
        raise TranslateError("%s:%d: expected args = parser.parse_args()  [%s]" % (path, s.lineno, ast.unparse(s)[:80]))
    av = s.targets[0].id
    rest = body[i + 1:]
    for st in rest:
        for n in ast.walk(st):
            if isinstance(n, ast.Name) and n.id == pv:
                raise TranslateError("%s:%d: the argument parser is used after parse_args" % (path, n.lineno))
            if isinstance(n, ast.Name) and n.id == av and isinstance(n.ctx, ast.Store):
                raise TranslateError("%s:%d: args is rebound" % (path, n.lineno))
    if sorted(o["dest"] for o in opts) != sorted(ARG_FIELDS):
        raise TranslateError("%s:%d: the command line options are %s, expected %s" % (path, fn.lineno, sorted(o["dest"] for o in opts), sorted(ARG_FIELDS)))
    rows = []
    for o in opts:
        rows.append("  {| co_flags := [%s]; co_dest := %s; co_type := %s; co_action := %s; co_required := %s;\n"
                    "     co_default := %s; co_choices := %s |}    (* %d *)"
                    % ("; ".join(coq_string(f) for f in o["flags"]), coq_string(o["dest"]), o["type"], o["action"], o["required"],
                       o["default"], o["choices"], o["line"]))
    text = "Definition py_cli_options : list cli_opt :=\n  [\n%s\n  ]%%string.\n" % ";\n".join(rows)
    return text, rest, av


def render_trainer_py(repo):
    rel = "trainer.py"
    path, tree = TW.parse(repo, rel)
    check_imports(path, tree, MAIN_COLLAB)
    ok_arg = ok_os = False
    for n in tree.body:
        if isinstance(n, ast.Import):
            for a in n.names:
                if a.name == "argparse" and a.asname is None:
                    ok_arg = True
                if a.name == "os" and a.asname is None:
                    ok_os = True
    if not (ok_arg and ok_os):
        raise TranslateError("%s: argparse / os are not imported plainly" % path)
    for n in ast.walk(tree):
        if isinstance(n, ast.Name) and isinstance(n.ctx, (ast.Store, ast.Del)) and n.id in ("argparse", "os", "parse_command_line", "main"):
            raise TranslateError("%s:%d: %s is rebound" % (path, n.lineno, n.id))
    defs = TW.defs_of(path, tree.body)
    for f in ("parse_command_line", "main"):
        if f not in defs:
            raise TranslateError("%s: %s not found" % (path, f))
    # parse_command_line
    fn = defs["parse_command_line"]
    a = fn.args
    if len(a.args) != 1 or a.vararg or a.kwarg or a.kwonlyargs or a.defaults or fn.decorator_list:
        raise TranslateError("%s:%d: the parameters of parse_command_line changed" % (path, fn.lineno))
    pinfo = a.args[0].arg
    tr = FnTr(repo, path, rel, fn, {}, False, "bool+pinfo", "C")
    table, rest, av = cli_options(path, fn, tr.dead)
    env = Env()
    tr.inout = pinfo
    tr.bind_var(fn, pinfo, "pinfo", env)
    tr.bind_var(fn, av, "args", env)
    if tr.coq_name(fn, av) != "args_v" and tr.coq_name(fn, av) != av:
        raise TranslateError("internal: name of the args variable")

    def fin(env2, ind2):
        raise TranslateError("%s:%d: parse_command_line can fall off its end" % (path, fn.lineno))
    if not tr.ends_in_return(rest):
        fin(None, 0)
    body = tr.block(rest, env, 1, fin)
    t1 = ("(* %s  def parse_command_line  lines %d-%d\n   sha256 of the ast.dump of the function: %s\n"
          "   the options (help and metavar are not modelled; dest = the first long flag) ... *)\n%s\n"
          "(* ... and the statements after args = parser.parse_args(): the returned bool with program_info as it is then *)\n"
          "Definition py_parse_command_line {O : numops} (%s : cli_args O) (%s : pinfo O) : res (bool * pinfo O) :=\n  run_fn (\n%s).\n"
          % (rel, fn.lineno, fn.end_lineno, sha([fn]), table, tr.coq_name(fn, av), tr.coq_name(fn, pinfo), body.rstrip("\n")))
    # main
    fn = defs["main"]
    a = fn.args
    if a.args or a.vararg or a.kwarg or a.kwonlyargs or fn.decorator_list:
        raise TranslateError("%s:%d: main takes parameters" % (path, fn.lineno))
    body = [s for s in fn.body if not (isinstance(s, ast.Expr) and isinstance(s.value, ast.Constant))]
    s0 = body[0] if body else None
    if not (isinstance(s0, ast.Assign) and len(s0.targets) == 1 and isinstance(s0.targets[0], ast.Name) and isinstance(s0.value, ast.Dict)):
        raise TranslateError("%s:%d: main does not start with program_info = {..}" % (path, fn.lineno))
    pv = s0.targets[0].id
    tr = MainTr(repo, path, rel, fn, MAIN_COLLAB, True, "unit", "C")
    tr.pcl_pinfo = pv
    vals = {}
    for k, v in zip(s0.value.keys, s0.value.values):
        if not (isinstance(k, ast.Constant) and isinstance(k.value, str)) or k.value not in PI_KEYS or k.value in vals:
            raise TranslateError("%s:%d: unexpected key of program_info" % (path, s0.lineno))
        if not isinstance(v, ast.Constant):
            raise TranslateError("%s:%d: the default of %s is not a constant" % (path, v.lineno, k.value))
        vals[k.value] = tr.const(v, v.value, PI_KEYS[k.value])
    if sorted(vals) != sorted(PI_KEYS):
        raise TranslateError("%s:%d: the keys of program_info are not the expected ones: missing %s" % (path, s0.lineno, sorted(set(PI_KEYS) - set(vals))))
    t2 = ("(* %s  def main  line %d: program_info = {..} *)\nDefinition py_main_defaults {O : numops} : pinfo O :=\n  {| %s |}.\n"
          % (rel, s0.lineno, ";\n     ".join("pi_%s := %s" % (k, vals[k]) for k in PI_ORDER)))
    env = Env()
    tr.bind_var(fn, pv, "pinfo", env)

    def fin_main(env2, ind2):
        return tr.line(ind2, "NormW tt")
    # main must not use program_info after run_trainer (its update of 'alphabet' is not returned)
    seen_rt = False
    for s in body[1:]:
        for n in ast.walk(s):
            if isinstance(n, ast.Call) and isinstance(n.func, ast.Name) and n.func.id == "run_trainer":
                seen_rt = True
        if seen_rt and s is not body[-1]:
            raise TranslateError("%s:%d: statements after the call of run_trainer" % (path, s.lineno))
    mb = tr.block(body[1:], env, 1, fin_main)
    t3 = ("(* %s  def main  lines %d-%d\n   sha256 of the ast.dump of the function: %s\n"
          "   script_dir = os.path.dirname(os.path.realpath(__file__)) *)\n"
          "Definition py_main {O : numops} (C : main_collab O) (script_dir : WriterRt.path) : mc_W C -> res unit * mc_W C :=\n"
          "  let %s := py_main_defaults in                                             (* %d *)\n  run_fnW (\n%s).\n"
          % (rel, fn.lineno, fn.end_lineno, sha([fn]), tr.coq_name(fn, pv), s0.lineno, mb.rstrip("\n")))
    return rel, t1 + "\n" + t2 + "\n" + t3


class MainTr(FnTr):
    """main(): parse_command_line(program_info) is the call of the translated function on what argparse returns
    for py_cli_options"""

    def call(self, e, env, want):
        f = e.func
        if isinstance(f, ast.Name) and f.id == "parse_command_line":
            if len(e.args) != 1 or e.keywords or not isinstance(e.args[0], ast.Name) or env.types.get(e.args[0].id) != "pinfo":
                self.fail(e, "unsupported call of parse_command_line")
            v = self.coq_name(e, e.args[0].id)
            a = self.push("mc_parse_args C py_cli_options", "read")
            r = self.gensym()
            self.push("py_parse_command_line %s %s" % (a, v), None, "'(%s, %s)" % (r, v))
            return self.coerce(e, r, "bool", want), want or "bool"
        return FnTr.call(self, e, env, want)

    def assign(self, s, env, ind, go_on):
        tg = s.targets[0] if len(s.targets) == 1 else None
        if isinstance(tg, ast.Name) and isinstance(s.value, ast.List) and not s.value.elts:
            c = self.bind_var(s, tg.id, "liststr", env)
            return self.line(ind, "let %s := (@nil TextFile.str) in" % c, s) + go_on(env, ind)
        return FnTr.assign(self, s, env, ind, go_on)


UNITS = [("run_trainer", render_run_trainer), ("print_statistics", render_print_statistics),
         ("parser_init", render_parser_init), ("trainer_py", render_trainer_py)]


def render(repo=None):
    parts, rels = [], []
    for _, f in UNITS:
        rel, text = f(repo)
        rels.append(rel)
        parts.append(text)
    return HEAD % ", ".join(rels) + "\n".join(parts)


def failure_text(err):
    return ("(* GENERATED by harness/translate_trainer_run.py.  The translation of the current sources FAILED:\n"
            "   %s\n   The line below does not type-check on purpose. *)\n"
            "Definition trainer_run_translation_failed : False := I.\n" % _comment(str(err)))


def write(repo=None):
    import extract_consts as X
    path = os.path.join(common.COQ, OUT)
    try:
        text = render(repo)
    except Exception as e:
        X.write(path, failure_text("%s: %s" % (type(e).__name__, e)))
        raise
    return X.write(path, text)


if __name__ == "__main__":
    if "--write" in sys.argv[1:]:
        write()
        print("written")
    else:
        sys.stdout.write(render())
