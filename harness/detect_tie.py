"""State of the translator ties of the trainer detectors (C05), as obligations for the
evidence: do harness/translate_detect.py (simple detectors, PCFGPasswordParser.parse) and
harness/translate_detect2.py (multi-word detector, e-mail / website / keyboard-walk
detectors) accept the current sources, and do the equality / instance theories check
against the regenerated coq/gen/Detect*_gen.v.  When one does not, the failing file is
compiled once more (into a scratch directory) to name the theorem that no longer checks."""
import os
import re
import shutil
import subprocess
import tempfile

import common
import translate_detect
import translate_detect2

FILES = ["theories/DetectGenProofs.v", "theories/DetectGenInst.v"]
# second translator: per group the generated file and the theories that depend on it (in build order);
# DetectGenInst2.v depends on all groups
GROUPS2 = [
    ("mw", "gen/DetectMw_gen.v", ["theories/DetectGenProofsMw.v"]),
    ("email", "gen/DetectEmail_gen.v", ["theories/DetectGenProofsEmail.v"]),
    ("web", "gen/DetectWeb_gen.v", ["theories/DetectGenProofsWeb.v"]),
    ("kbd", "gen/DetectKbd_gen.v", ["theories/DetectGenProofsKbd.v"]),
]
LAST2 = ["theories/DetectGenInst2.v"]


def _enclosing(path, line):
    name = None
    with open(path, encoding="utf-8") as f:
        for n, text in enumerate(f, 1):
            if n > line:
                break
            m = re.match(r"\s*(?:Theorem|Lemma|Corollary|Example)\s+([A-Za-z0-9_']+)", text)
            if m:
                name = m.group(1)
    return name


def status():
    """-> list of (name, ok, detail) correspondence-style obligations"""
    out = _status(translate_detect.render, "harness/translate_detect.py", "gen/Detect_gen.v", FILES, "")
    ok_all = all(ok for _, ok, _ in out)
    for key, gen, files in GROUPS2:
        st = _status(translate_detect2.GROUPS[key][1], "harness/translate_detect2.py (%s)" % key, gen, files, ":" + key)
        ok_all = ok_all and all(ok for _, ok, _ in st)
        out.extend(st)
    if ok_all:
        out.extend(_files(LAST2, "gen/Detect*_gen.v"))
    return out


def _status(render, who, gen, files, tag):
    out = []
    try:
        render()
        out.append(("source-tie%s:translation-accepts-current-source" % tag, True, ""))
    except Exception as e:
        out.append(("source-tie%s:translation-accepts-current-source" % tag, False,
                    "%s refuses the current source (outside its subset): %s" % (who, e)))
        return out
    gen_vo = os.path.join(common.COQ, gen[:-2] + ".vo")
    if not os.path.exists(gen_vo):
        rc, so, se = common.coqc_file(gen, timeout=300, extra_q=())
        out.append(("source-tie:%s-compiles" % gen, False, "the translated definitions do not type-check: %s"
                    % (so + se).strip()[-600:]))
        for ext in (".vo", ".vos", ".vok", ".glob"):
            try:
                os.remove(os.path.join(common.COQ, gen[:-2] + ext))
            except OSError:
                pass
        return out
    return out + _files(files, gen)


def _files(files, gen):
    out = []
    scratch = None
    try:
        for rel in files:
            vo = os.path.join(common.COQ, rel[:-2] + ".vo")
            if os.path.exists(vo):
                out.append(("source-tie:%s" % rel, True, ""))
                continue
            if scratch is None:
                scratch = tempfile.mkdtemp(prefix="detect_tie_")
            cmd = ["timeout", "300", "coqc", "-Q", "theories", "Pcfg", "-Q", "gen", "PcfgGen",
                   "-o", os.path.join(scratch, os.path.basename(rel)[:-2] + ".vo"), rel]
            r = subprocess.run(cmd, cwd=common.COQ, capture_output=True, text=True)
            log = (r.stdout + r.stderr).strip()
            m = re.search(r'File "\./([^"]+)", line (\d+), characters [\d-]+:\s*\n(Error:.*)', log, re.S)
            if r.returncode == 0:
                detail = "not built by make (a file it depends on failed?)"
            elif m and m.group(1) == rel:
                thm = _enclosing(os.path.join(common.COQ, rel), int(m.group(2)))
                err = " ".join(m.group(3).split())
                detail = ("theorem %s (%s line %s) no longer checks against the regenerated %s: %s"
                          % (thm, rel, m.group(2), gen, err if len(err) < 420 else err[:120] + " ... " + err[-280:]))
            else:
                detail = " ".join(log.split())[-400:]
            out.append(("source-tie:%s" % rel, False, detail))
            break       # the later files depend on this one
    finally:
        if scratch:
            shutil.rmtree(scratch, ignore_errors=True)
    return out
