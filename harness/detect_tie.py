"""State of the translator tie of the simple trainer detectors (C05), as obligations
for the evidence: does harness/translate_detect.py accept the current sources, and do
coq/theories/DetectGenProofs.v / DetectGenInst.v check against the regenerated
coq/gen/Detect_gen.v.  When one does not, the failing file is compiled once more (into
a scratch directory) to name the theorem that no longer checks."""
import os
import re
import shutil
import subprocess
import tempfile

import common
import translate_detect

FILES = ["theories/DetectGenProofs.v", "theories/DetectGenInst.v"]


def _enclosing(path, line):
    name = None
    with open(path, encoding="utf-8") as f:
        for n, text in enumerate(f, 1):
            if n > line:
                break
            m = re.match(r"\s*(?:Theorem|Lemma|Corollary|Example)\s+([A-Za-z0-9_']+)", text)
            if m:
                name = m.group(1)
    return name


def status():
    """-> list of (name, ok, detail) correspondence-style obligations"""
    out = []
    try:
        translate_detect.render()
        out.append(("source-tie:translation-accepts-current-source", True, ""))
    except Exception as e:
        out.append(("source-tie:translation-accepts-current-source", False,
                    "harness/translate_detect.py refuses the current source (outside its subset): %s" % e))
        return out
    gen_vo = os.path.join(common.COQ, "gen", "Detect_gen.vo")
    if not os.path.exists(gen_vo):
        rc, so, se = common.coqc_file("gen/Detect_gen.v", timeout=300, extra_q=())
        out.append(("source-tie:gen/Detect_gen.v-compiles", False, "the translated definitions do not type-check: %s"
                    % (so + se).strip()[-600:]))
        for ext in (".vo", ".vos", ".vok", ".glob"):
            try:
                os.remove(os.path.join(common.COQ, "gen", "Detect_gen" + ext))
            except OSError:
                pass
        return out
    scratch = None
    try:
        for rel in FILES:
            vo = os.path.join(common.COQ, rel[:-2] + ".vo")
            if os.path.exists(vo):
                out.append(("source-tie:%s" % rel, True, ""))
                continue
            if scratch is None:
                scratch = tempfile.mkdtemp(prefix="detect_tie_")
            cmd = ["timeout", "300", "coqc", "-Q", "theories", "Pcfg", "-Q", "gen", "PcfgGen",
                   "-o", os.path.join(scratch, os.path.basename(rel)[:-2] + ".vo"), rel]
            r = subprocess.run(cmd, cwd=common.COQ, capture_output=True, text=True)
            log = (r.stdout + r.stderr).strip()
            m = re.search(r'File "\./([^"]+)", line (\d+), characters [\d-]+:\s*\n(Error:.*)', log, re.S)
            if r.returncode == 0:
                detail = "not built by make (a file it depends on failed?)"
            elif m and m.group(1) == rel:
                thm = _enclosing(os.path.join(common.COQ, rel), int(m.group(2)))
                err = " ".join(m.group(3).split())
                detail = ("theorem %s (%s line %s) no longer checks against the regenerated gen/Detect_gen.v: %s"
                          % (thm, rel, m.group(2), err if len(err) < 420 else err[:120] + " ... " + err[-280:]))
            else:
                detail = " ".join(log.split())[-400:]
            out.append(("source-tie:%s" % rel, False, detail))
            break       # the later files depend on this one
    finally:
        if scratch:
            shutil.rmtree(scratch, ignore_errors=True)
    return out
