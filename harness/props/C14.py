"""C14: skip_brute and all_lower are pure restrictions of the default run.
Implementation = load_grammar of /repo under the four flag combinations and
the CLI save/--load path; model = Loader.v."""
import json
import os
import subprocess

import common
import impl_next
import rulesets

ID = "C14"
TRUSTED = ["float()/repr round trip of the probabilities in grammar.txt", "configparser for the .sav file"]
ASSUMES = ["grammar.txt lines are structure<TAB>probability; a Markov structure is the line 'M'",
           "stream-level statement (same order up to ties, probabilities rescaled) is exact over Q; in binary64 the "
           "rescaled products may differ from p/(1-pM) in the last bits, so the stream oracle compares with relative tolerance 1e-12"]


import loader_tie as _loader_tie
TRUSTED = TRUSTED + [_loader_tie.TRUSTED]
import cli_tie as _cli_tie
TRUSTED = TRUSTED + [_cli_tie.TRUSTED]


def load_bases_direct(g):
    return [(b["prob"], list(b["replacements"])) for b in g.base]


def place_markov(rs, rng, where):
    structs = [(s, p) for s, p in rs["grammar"] if s != "M"]
    ps = sorted([p for _, p in rs["grammar"]] + ([] if any(s == "M" for s, _ in rs["grammar"]) or where == "absent" else [rulesets.pool_value(rng)]),
                reverse=True)
    names = [s for s, _ in structs]
    if where == "absent":
        ps = ps[:len(names)]
    elif where == "alone":
        names = ["M"]
        ps = ps[:1]
    else:
        pos = {"first": 0, "last": len(names), "middle": len(names) // 2}[where]
        names.insert(pos, "M")
        ps = ps[:len(names)]
        while len(ps) < len(names):
            ps.append(ps[-1])
    # P(M) = 1.0 together with other structures makes 1/(1-P(M)) undefined: not a ruleset the trainer writes
    fixed = []
    for n, p in zip(names, ps):
        if n == "M" and p >= 1.0 and len(names) > 1:
            p = 0.5
        fixed.append((n, p))
    rs["grammar"] = fixed
    return rs


def oracle_bases(rs, bases, replay):
    vio = []
    plain, brute = bases[(False, False)], bases[(True, False)]
    pm = [p for s, p in rs["grammar"] if s == "M"]
    if plain is None:
        return vio
    if brute is None and pm and pm[0] == 1.0:
        return vio      # P(M)=1: nothing but Markov guesses exists; refusing to load emits the (empty) restricted stream
    if brute is None:
        vio.append({"sig": "C14:skip-brute-load-failed", "what": "loading with skip_brute failed although the default load works", "replay": replay})
        return vio
    if pm:
        tot = 1.0 - pm[0]
        want = [(p / tot, r) for p, r in plain if "M" not in r]
        # plain p is float(text)/1.0 = the file's value
    else:
        want = list(plain)
    if brute != want:
        kind = "C14:skip-brute-no-markov" if not pm else "C14:skip-brute-bases"
        vio.append({"sig": kind, "what": "skip_brute base structures %r, expected %r (P(M)=%r)" % (brute[:3], want[:3], pm[:1]),
                    "replay": replay})
    for fl in ((False, True), (True, True)):
        if bases[fl] is not None and bases[(fl[0], False)] is not None and bases[fl] != bases[(fl[0], False)]:
            vio.append({"sig": "C14:all-lower-bases", "what": "all_lower changed the base structures", "replay": replay})
    return vio


def oracle_tables(gs, replay):
    vio = []
    a, b = gs.get((False, False)), gs.get((False, True))
    if a is None or b is None:
        return vio
    for name in a.grammar:
        if name[0] == "C":
            n = int(name[1:])
            if b.grammar.get(name) != [{"values": ["L" * n], "prob": 1.0}]:
                vio.append({"sig": "C14:all-lower-masks", "what": "%s under all_lower is %r" % (name, b.grammar.get(name)), "replay": replay})
        elif a.grammar[name] != b.grammar.get(name):
            vio.append({"sig": "C14:all-lower-other", "what": "all_lower changed %s" % name, "replay": replay})
    return vio


def oracle_stream(gs, replay, cap):
    """skip_brute stream = default stream without Markov items, same order up to near-ties, rescaled."""
    vio = []
    a, b = gs.get((False, False)), gs.get((True, False))
    if a is None or b is None or not b.base:
        return vio, 0
    A, _, ca, _ = impl_next.full_stream(a, cap=cap, check_heap=False)
    B, _, cb, _ = impl_next.full_stream(b, cap=cap, check_heap=False)
    if ca or cb:
        return vio, 0
    nm = [i for i in A if not any(t[0] == "M" for t, _ in i["pt"])]
    pa = {}
    for i in nm:
        pa.setdefault(tuple(i["pt"]), []).append(i["prob"])
    if sorted(tuple(i["pt"]) for i in nm) != sorted(tuple(i["pt"]) for i in B):
        vio.append({"sig": "C14:stream-set", "what": "skip_brute stream is not the default stream minus the Markov pre-terminals", "replay": replay})
        return vio, len(B)
    pm = [x["prob"] for x in a.base if "M" in x["replacements"]]
    scale = 1.0 / (1.0 - pm[0]) if pm else 1.0
    prev = None
    for i in B:
        cands = pa[tuple(i["pt"])]
        d = min(cands, key=lambda c: abs(i["prob"] - c * scale))
        cands.remove(d)
        if abs(i["prob"] - d * scale) > 1e-12 * max(d * scale, 5e-324) + 1e-320:
            vio.append({"sig": "C14:stream-rescale", "what": "%r: %r is not %r/(1-P(M))" % (i["pt"], i["prob"], d), "replay": replay})
            break
        if prev is not None and d > prev * (1 + 1e-12) + 1e-320:
            vio.append({"sig": "C14:stream-order", "what": "order differs from the default run beyond rounding at %r" % (i["pt"],), "replay": replay})
            break
        prev = d
    return vio, len(B)


def cli_flags_from_save(ctx, code, rs, name):
    """--load without flags must run with the flags stored in the .sav."""
    rd = os.path.join(code, "Rules", name)
    rulesets.write_ruleset(rs, rd)
    env = common.subenv()
    env["PYTHONPATH"] = code

    def run(args):
        rc, out, err = common.run_cli([common.PY, "pcfg_guesser.py"] + args, code, env)
        return [l for l in out.decode("utf-8", "replace").split("\n") if l != ""]
    # whole runs, compared as multisets: a restored queue may order ties differently
    ref = sorted(run(["-r", name, "-s", "ref_" + name, "--skip_brute", "--all_lower"]))
    run(["-r", name, "-s", "s_" + name, "--skip_brute", "--all_lower", "-n", "1"])
    got = sorted(run(["-r", name, "-s", "s_" + name, "--load"]))
    if got != ref:
        return [{"sig": "C14:flags-not-from-save", "what": "--load without flags does not run with the saved skip_brute/all_lower: first lines %r vs %r"
                 % (got[:4], ref[:4]), "replay": {"ruleset": rs, "cli": "flags"}}], True
    # the other direction: a session saved WITHOUT the flags, resumed with them on the command line, still runs as saved
    ref2 = sorted(run(["-r", name, "-s", "ref2_" + name]))
    run(["-r", name, "-s", "t_" + name, "-n", "1"])
    got2 = sorted(run(["-r", name, "-s", "t_" + name, "--load", "--skip_brute", "--all_lower"]))
    if got2 != ref2:
        return [{"sig": "C14:flags-not-from-save", "what": "--load with --skip_brute --all_lower on a session saved without them does not run as saved: "
                 "%d lines vs %d" % (len(got2), len(ref2)), "replay": {"ruleset": rs, "cli": "flags"}}], True
    return [], True


def saved_flags(code, sess):
    import configparser
    cfg = configparser.ConfigParser()
    if not cfg.read(os.path.join(code, sess + ".sav")):
        return None
    try:
        return cfg.get("rule_info", "skip_brute"), cfg.get("rule_info", "skip_case")
    except Exception as e:      # a save file without the flags cannot say how to rebuild the grammar
        return "unreadable: %s" % e


def cli_flag_history(ctx, code, rs, name, flags):
    """A session with exactly ONE of the two flags, quit and resumed three times through the real pcfg_guesser.main()
    (harness/main_driver.py delivers the quit at a chosen pre-terminal): the save file must keep saying what the session
    was started with, and the sessions together must emit exactly the guesses of an uninterrupted run."""
    rd = os.path.join(code, "Rules", name)
    if not os.path.isdir(rd):
        rulesets.write_ruleset(rs, rd)
    tag = "".join(f.strip("-")[0] for f in flags)
    sess = "h%s_%s" % (tag, name)
    want = (str("--skip_brute" in flags), str("--all_lower" in flags))
    rep = {"ruleset": rs, "cli": "history", "flags": flags}
    ref = common.run_main_driver(code, ["-r", name, "-s", "href%s_%s" % (tag, name)] + flags)
    if ref.get("error"):
        return [{"sig": "C14:guesser-raised", "what": "pcfg_guesser.main %s: %s" % (flags, ref["error"]), "replay": rep}], 0
    npops = len(ref["pops"])
    vio, outs, cut = [], [], 0
    k1 = ctx.rng.randint(1, max(1, npops // 3)) if ctx is not None else 1
    steps = [(["-r", name, "-s", sess] + flags, k1), (["-r", name, "-s", sess, "--load"], 1 + (k1 % 3)),
             (["-r", name, "-s", sess, "--load"], 2), (["-r", name, "-s", sess, "--load"], None)]
    for k, (args, qp) in enumerate(steps):
        r = common.run_main_driver(code, args, quit_after_pops=qp)
        if r.get("error"):
            vio.append({"sig": "C14:guesser-raised", "what": "session %d of the history (%s) failed: %s" % (k + 1, " ".join(args), r["error"]), "replay": rep})
            break
        outs.append(r["out"])
        cut += qp is not None and len(r["out"]) < len(ref["out"])
        got = saved_flags(code, sess)
        if got is not None and got != want:
            vio.append({"sig": "C14:flags-not-from-save", "what": "after session %d of a quit/--load history the save file says skip_brute/skip_case = %r, "
                        "the session was started with %r" % (k + 1, got, want), "replay": rep})
            break
    allout = set(x for o in outs for x in o)
    if not vio and allout != set(ref["out"]):
        miss = sorted(set(ref["out"]) - allout)[:3]
        extra = sorted(allout - set(ref["out"]))[:3]
        vio.append({"sig": "C14:flags-not-from-save", "what": "a session started with %s, quit and resumed three times, emits other guesses than an "
                    "uninterrupted run: missing %r, foreign %r" % (" ".join(flags), miss, extra), "replay": rep})
    return vio, cut


def _fix_markov(rs):
    """P(M) = 1.0 beside other structures makes 1/(1-P(M)) undefined: not a ruleset the trainer writes (same rule as place_markov)"""
    if len(rs["grammar"]) > 1:
        rs["grammar"] = [[s, 0.5 if (s == "M" and float(p) >= 1.0) else p] for s, p in rs["grammar"]]
    return rs


def history_cases(ctx, sc, dist, steps=None):
    """Histories on ONE ruleset directory (impl_next.History): the four flag combinations loaded one after the other from the
    SAME directory in a random order, with in-place edits in between that keep the uuid (the Markov line appears / disappears /
    moves, a base structure dropped, grammar.txt or a terminal file re-weighted, values added / removed, the real edit_rules)
    and re-trainings.  After EVERY load: the base list is exactly what the lines of grammar.txt AS THEY ARE NOW say under the
    flag (bit-exact: p, or p / (1 - P(M)) without the Markov line), every table is the file's groups (under all_lower: C<n> the one
    all-lower mask with probability 1.0, everything else unchanged), and the pairwise restriction oracles on the loads of the
    same file version.  steps: the recorded steps of a replay (one history)."""
    import time
    vio, t0 = [], time.time()
    flagsets = [(sb, scs, "Grammar") for sb in (False, True) for scs in (False, True)]
    kinds = ["flags"] * 6 + ["move-markov"] * 2 + ["drop-base", "reweight-base", "reweight-terminal", "add-value", "remove-value",
                                                    "edit_rules", "retrain", "same"]
    for hno in range(1 if steps is not None else ctx.scale(30, 600)):
        if steps is None:
            rs = rulesets.gen_ruleset(ctx.rng, with_markov=False, max_bases=4, max_len=4)
            rs = place_markov(rs, ctx.rng, ctx.rng.choice(["first", "middle", "last", "absent", "alone"]))
            hg = impl_next.HistoryGen(ctx.rng, rs, ctx.rng.choice(flagsets), kinds=kinds, flag_choices=flagsets, fix=_fix_markov,
                                      gen=lambda name: place_markov(rulesets.gen_ruleset(ctx.rng, with_markov=False, max_bases=4, max_len=4, name=name),
                                                                    ctx.rng, ctx.rng.choice(["first", "middle", "last", "absent", "alone"])))
        h = impl_next.History(sc)
        n = len(steps) if steps is not None else ctx.rng.choice([3, 4, 4, 5])
        done, gs, bases, bad = [], {}, {}, False
        dist["histories"] = dist.get("histories", 0) + 1
        for k in range(n):
            st = steps[k] if steps is not None else (hg.first() if k == 0 else hg.next(h.current))
            done.append(st)
            now = h.write(st)
            if k > 0 and (st.get("ruleset") is not None or st.get("edit_rules")):
                gs, bases = {}, {}      # another version of the files: the pairwise oracles start again
            sb, scs = bool(st.get("skip_brute")), bool(st.get("skip_case"))
            replay = {"ruleset": now, "history": list(done), "step": k}
            where = "step %d (%s, skip_brute=%s all_lower=%s) of a history on one ruleset directory: " % (k, st.get("edit"), sb, scs)
            dist["history_loads"] = dist.get("history_loads", 0) + 1
            dist.setdefault("history_edits", {})
            dist["history_edits"][st.get("edit", "?")] = dist["history_edits"].get(st.get("edit", "?"), 0) + 1
            try:
                g = h.load(st)
            except Exception:
                g = None
            gs[(sb, scs)] = g
            bases[(sb, scs)] = None if g is None else load_bases_direct(g)
            fb = impl_next.file_bases(now, sb, "Grammar")
            if g is None:
                try:
                    g0 = impl_next.load_grammar(now, sc, sb, scs, "Grammar")
                except Exception:
                    g0 = None
                if g0 is not None:
                    vio.append({"sig": "C14:history-load-failed", "what": where + "the load fails although the same files load from a fresh directory",
                                "replay": replay})
                    bad = True
                    break
                continue
            if fb is not None and bases[(sb, scs)] != [(p, r) for p, r in fb]:
                vio.append({"sig": "C14:skip-brute-bases:file" if sb else "C14:default-bases:file",
                            "what": where + "base structures %r, but grammar.txt as it is now says %r" % (bases[(sb, scs)][:3], fb[:3]), "replay": replay})
                bad = True
            for name in sorted(now["files"]):
                want = [{"values": list(vs), "prob": p} for p, vs in impl_next.file_groups(now, name, scs)]
                if g.grammar.get(name) != want:
                    sig = ("C14:all-lower-masks" if name[0] == "C" else "C14:all-lower-other") if scs else "C14:default-tables:file"
                    vio.append({"sig": sig, "what": where + "%s is loaded as %r, the file as it is now%s says %r"
                                % (name, g.grammar.get(name), " under all_lower" if scs else "", want), "replay": replay})
                    bad = True
                    break
            if (False, False) in bases and (True, False) in bases:
                v = oracle_bases(now, {f[:2]: bases.get(f[:2]) for f in flagsets}, replay)
                v += oracle_tables(gs, replay)
                if k == n - 1 and hno % 3 == 0:
                    v2, nb = oracle_stream(gs, replay, ctx.scale(300, 1500))
                    v += v2
                for x in v:
                    x["what"] = where + x["what"]
                vio += v
                bad = bad or bool(v)
            if bad:
                break
    dist["history_seconds"] = round(time.time() - t0, 1)
    return vio


def run(ctx):
    n = ctx.scale(80, 800)
    sc = common.scratch()
    vio, samples, cases = [], [], []
    dist = {"rulesets": 0, "markov_first": 0, "markov_middle": 0, "markov_last": 0, "markov_absent": 0, "markov_alone": 0,
            "streams_compared": 0, "cli_runs": 0}
    seen, nontrivial = set(), 0
    for r in range(n):
        rs = rulesets.gen_ruleset(ctx.rng, with_markov=False, max_bases=4, max_len=4)
        where = ["first", "middle", "last", "absent", "alone"][r % 5]
        rs = place_markov(rs, ctx.rng, where)
        dist["markov_" + where] += 1
        dist["rulesets"] += 1
        gs, bases = {}, {}
        for sb in (False, True):
            for scs in (False, True):
                try:
                    g = impl_next.load_grammar(rs, sc, sb, scs, "Grammar")
                    gs[(sb, scs)] = g
                    bases[(sb, scs)] = load_bases_direct(g)
                except Exception:
                    gs[(sb, scs)] = None
                    bases[(sb, scs)] = None
        replay = {"ruleset": rs}
        vio += oracle_bases(rs, bases, replay)
        vio += oracle_tables(gs, replay)
        if r % 3 == 0:
            v, nb = oracle_stream(gs, replay, ctx.scale(300, 1500))
            vio += v
            dist["streams_compared"] += 1 if nb else 0
        key = json.dumps(rs["grammar"])
        if key not in seen:
            seen.add(key)
            nontrivial += 1 if where != "middle" or len(rs["grammar"]) > 2 else 0
        lines = common.clist(["(%s, %s)" % (common.cstr(s), common.cfloat(p)) for s, p in rs["grammar"]])
        for sb in (False, True):
            b = bases[(sb, False)]
            impl = "None" if b is None else "(Some %s)" % (common.clist(
                ["(%s, %s)" % (common.cfloat(p), common.clist([common.cstr(t) for t in toks])) for p, toks in b]) if b else "(@nil (float * list str))")
            cases.append(("(%s, %s, %s)" % (common.cbool(sb), lines, impl), replay))
        if len(samples) < 3:
            samples.append({"grammar.txt": rs["grammar"], "markov": where, "base(skip_brute)": bases[(True, False)][:3] if bases[(True, False)] else bases[(True, False)]})
    vio += history_cases(ctx, sc, dist)
    code = common.copy_code_tree(common.scratch())
    for i in range(ctx.scale(3, 10)):
        rs = rulesets.gen_ruleset(ctx.rng, with_markov=True, max_bases=3, max_len=3)
        rs = place_markov(rs, ctx.rng, "first")
        rs["omen_prob"] = [("0", 0.3), ("1", 0.2)]
        rs["name"] = "F%d" % i
        v, ran = cli_flags_from_save(ctx, code, rs, "F%d" % i)
        vio += v
        dist["cli_runs"] += ran
        # exactly one flag, two quit/resume cycles through the real 'q' key
        fl = [["--skip_brute"], ["--all_lower"]][i % 2]
        v, cut = cli_flag_history(ctx, code, rs, "F%d" % i, fl)
        vio += v
        dist["cli_histories"] = dist.get("cli_histories", 0) + 1
        dist["cli_history_sessions_cut_by_q"] = dist.get("cli_history_sessions_cut_by_q", 0) + cut
    shards = []
    per = 80
    for s in range(0, len(cases), per):
        src = ["From Coq Require Import List NArith Floats.", "From Pcfg Require Import Expand ExpandCorr Loader LoaderCorr.",
               "From PcfgGen Require Import Consts_gen.", "Import ListNotations.", "Open Scope float_scope.",
               "Definition cases : list (bool * list (str * float) * option (list (float * list str))) := [",
               ";\n".join(c for c, _ in cases[s:s + per]), "].",
               "Eval vm_compute in (failing (fun x => andb (check_bases skip_brute_rewinds_without_M x) (div_one_exact (snd (fst x)))) cases)."]
        shards.append(("s%03d" % (s // per), "\n".join(src)))
    corr = []
    for (name, idx, log), s in zip(common.run_case_shards("C14", shards), range(0, len(cases), per)):
        if idx is None:
            corr.append(("load-bases:" + name, False, log[-800:]))
        elif idx:
            corr.append(("load-bases:" + name, False, "model and loader differ on cases %s; first: %s" % (idx, json.dumps(cases[s + idx[0]][1])[:500])))
        else:
            corr.append(("load-bases:" + name, True, ""))
    # second tie to the source (translator): _load_base_structures re-translated from the Python text equals load_bases
    import loader_tie
    corr.append(loader_tie.obligation())
    # translator tie of the command line / save-file glue (pcfg_guesser.py: which flags reach PcfgGrammar, --load reads the
    # save file first, the store_const toggles, the save -> load round trip) + its correspondence against the real functions
    import cli_tie
    corr += cli_tie.obligations("C14")
    c2, v2, st = cli_tie.run(ctx, "C14", n_parse=ctx.scale(120, 800), n_saveload=ctx.scale(40, 300), n_main=ctx.scale(60, 400))
    corr += c2
    vio += v2
    dist.update(st)
    rule = ("generated rulesets with the Markov structure first / in the middle / last / absent / alone (cyclically), loaded by the "
            "real loader under the four flag combinations; base lists compared bit-exactly with the model and with the direct "
            "restriction oracle, capitalisation tables under all_lower, pre-terminal streams for every third ruleset, and the CLI "
            "save/--load path with the flags omitted on resume, and histories of a one-flag session quit at a chosen pre-terminal (real pcfg_guesser.main in-process, harness/main_driver.py) and resumed "
            "three times (save file flags after every session, union of the outputs = the uninterrupted run); plus histories of 3-5 loads of ONE "
            "directory (impl_next.History: the flag combinations in random order, in-place edits keeping the uuid - Markov line moved / added / "
            "removed, base structure dropped, files re-weighted, values added / removed, real edit_rules - and re-trainings), base lists and tables "
            "compared after every load with the files as they are then; generated command lines / save files run through the real parse_command_line, create_save_config, load_save and main (recording stand-ins for PcfgGrammar and the sessions) against the model of harness/cli_tie.py; distinct by grammar.txt; non-trivial = Markov not simply in the middle of a 2-line file")
    return {"evaluations": dist["rulesets"] * 4, "distinct_nontrivial": nontrivial, "rule": rule, "samples": samples,
            "corr": corr, "violations": vio, "dist": dist}


def replay(ctx, data):
    inp = data.get("input") or {}
    if inp.get("cli") in ("parse", "main", "saveload"):
        import cli_tie
        return cli_tie.replay(ctx, "C14", inp)
    if "ruleset" not in inp:
        return []
    rs = inp["ruleset"]
    if inp.get("history") and inp.get("cli") is None:
        return history_cases(ctx, common.scratch(), {}, steps=inp["history"])
    if inp.get("cli") == "history":
        code = common.copy_code_tree(common.scratch())
        v, _ = cli_flag_history(ctx, code, rs, rs.get("name", "F0"), inp.get("flags") or ["--skip_brute"])
        return v
    if inp.get("cli") == "flags":
        code = common.copy_code_tree(common.scratch())
        v, _ = cli_flags_from_save(ctx, code, rs, rs.get("name", "F0"))
        return v
    sc = common.scratch()
    gs, bases = {}, {}
    for sb in (False, True):
        for scs in (False, True):
            try:
                g = impl_next.load_grammar(rs, sc, sb, scs, "Grammar")
                gs[(sb, scs)] = g
                bases[(sb, scs)] = load_bases_direct(g)
            except Exception:
                gs[(sb, scs)] = None
                bases[(sb, scs)] = None
    v = oracle_bases(rs, bases, inp) + oracle_tables(gs, inp)
    v2, _ = oracle_stream(gs, inp, 5000)
    return v + v2
