"""C09: stdout is exactly the guess stream; --limit is exact.
Implementation = pcfg_guesser.py as a subprocess (stdin kept open), model =
Session.limited (+ C04_limit for the inside of a pre-terminal)."""
import ast
import os
from concurrent.futures import ThreadPoolExecutor

import common
import impl_next
import rulesets
import sched
from props.C04 import collect

ID = "C09"
TRUSTED = ["the in-process reference stream (real PcfgQueue + create_guesses with a collector) is what the CLI prints when nothing else is written",
           "argparse; the OS pipe",
           "second tie (translator): harness/translate_expand.py (ast -> Gallina, fail closed; accepted subset and what it does not model in its docstring) and the meaning coq/theories/ExpandRt.v gives to Python subscripts, slices, `if limit:` and str methods; print_guess, MarkovCracker, int() and str.upper() of one character are parameters of the generated functions",
           "translator tie of the session loop: harness/translate_session.py (ast -> Gallina, fail closed; accepted subset and what it does not model in its docstring) and the meaning coq/theories/SessionRt.v gives to `while`, break, try/except OSError, `if limit:` and `x is None`; every collaborator of CrackingSession.run / _save_session (queue, grammar object with quit flag and OMEN counters, save configuration and file, keyboard thread) is an operation on an abstract world: the translated text equals SessionModel.m_run for every world (C12_source_run_is_model), and the property theorems instantiate the world with the collaborators of Session.v (SessionModel.sworld) or constrain it by a contract (quiet_world)"]
ASSUMES = ["N >= 1 (the CLI rejects N < 0; N = 0 means no limit)", "--limit together with --load of an interrupted Markov level is not claimed "
           "(restore_omen does not take the limit); it is outside the runs below"]
import cli_tie as _cli_tie
TRUSTED = TRUSTED + [_cli_tie.TRUSTED]


def stdout_print_sites():
    """static: every print()/print_exc() in the guesser that can reach stdout, except print_guess"""
    sites = []
    files = ["pcfg_guesser.py"] + sorted(
        os.path.join(d, f)[len(common.REPO) + 1:] for d, _, fs in os.walk(os.path.join(common.REPO, "lib_guesser")) for f in fs if f.endswith(".py"))
    for rel in files:
        import warnings
        with warnings.catch_warnings():
            warnings.simplefilter("ignore")       # the banner's ASCII art has invalid escape sequences
            tree = ast.parse(open(os.path.join(common.REPO, rel), encoding="utf-8").read())
        for fn in ast.walk(tree):
            if not isinstance(fn, (ast.FunctionDef, ast.Module)):
                continue
        parents = {}
        for node in ast.walk(tree):
            for ch in ast.iter_child_nodes(node):
                parents[ch] = node
        for node in ast.walk(tree):
            if isinstance(node, ast.Call):
                name = node.func.id if isinstance(node.func, ast.Name) else (node.func.attr if isinstance(node.func, ast.Attribute) else None)
                if name not in ("print", "print_exc"):
                    continue
                kw = {k.arg: ast.unparse(k.value) for k in node.keywords}
                if name == "print" and kw.get("file") == "sys.stderr":
                    continue
                if name == "print_exc" and kw.get("file") == "sys.stderr":
                    continue
                # enclosing function
                p, fname = node, None
                while p in parents:
                    p = parents[p]
                    if isinstance(p, ast.FunctionDef):
                        fname = p.name
                        break
                if fname == "print_guess" and name == "print" and "file" not in kw:
                    continue
                sites.append("%s:%d:%s" % (rel, node.lineno, fname))
    return sites


def cli(code, env, args):
    rc, out, err = common.run_cli([common.PY, "pcfg_guesser.py"] + args, code, env, 120)
    return out


def load_limit_history(ctx, code, rs, name, flags, ref_len, fixed=None):
    """--limit on a RESUMED session: quit after some pre-terminals (real pcfg_guesser.main, harness/main_driver.py), then
    `--load` without a limit is the reference and `--load --limit N` must write exactly its first min(N, total) lines
    (whatever the earlier session already wrote)."""
    import shutil
    vio = []
    sess = "ll_" + name
    k = ctx.rng.randint(1, 4)
    # the interrupted session itself was started with a limit in two of three histories (one it never reached): the limit of
    # the RESUMED run is the one typed with --load, whatever the earlier invocation was given
    first_limit = ctx.rng.choice([None, ref_len + 5, 10 ** 6])
    if fixed:
        k, first_limit = fixed.get("k", k), fixed.get("first_limit")
    r1 = common.run_main_driver(code, ["-r", name, "-s", sess] + flags + (["-n", str(first_limit)] if first_limit else []), quit_after_pops=k)
    sav = os.path.join(code, sess + ".sav")
    if r1.get("error") or not os.path.exists(sav) or len(r1["out"]) >= ref_len:
        return vio, 0                     # the run ended before the quit (nothing to resume)
    snap = {}
    for ext in (".sav", ".omn"):
        fn = os.path.join(code, sess + ext)
        if os.path.exists(fn):
            snap[fn] = open(fn, "rb").read()

    def restore():
        for fn, data in snap.items():
            with open(fn, "wb") as f:
                f.write(data)
    ref = common.run_main_driver(code, ["-r", name, "-s", sess, "--load"])
    if ref.get("error"):
        return [{"sig": "C09:resume-raised", "what": "--load failed: %s" % ref["error"], "replay": {"ruleset": rs, "flags": flags, "history": "load-limit", "k": k}}], 0
    R = ref["out"]
    runs = 0
    for n in sorted({1, 2, len(r1["out"]), len(r1["out"]) + 1, max(1, len(R) // 2), len(R), len(R) + 3}):
        if n < 1:
            continue
        restore()
        got = common.run_main_driver(code, ["-r", name, "-s", sess, "--load", "-n", str(n)])
        runs += 1
        if got.get("error") or got["out"] != R[:n] or got.get("stray_stdout"):
            vio.append({"sig": "C09:limit-count:resumed" if len(got["out"]) != min(n, len(R)) else "C09:limit-content:resumed",
                        "what": "session%s quit after %d guesses, resumed with --load --limit %d: wrote %d lines, expected exactly the first %d of "
                                "the %d an unlimited resume writes%s" % (" (started with --limit %d)" % first_limit if first_limit else "", len(r1["out"]), n, len(got["out"]), min(n, len(R)), len(R),
                                                                          "; error: %s" % got["error"] if got.get("error") else ""),
                        "replay": {"ruleset": rs, "flags": flags, "history": "load-limit", "k": k, "n": n, "first_limit": first_limit}})
            break
    return vio, runs


def run(ctx):
    nrs = ctx.scale(6, 40)
    sc = common.scratch()
    code = common.copy_code_tree(common.scratch())
    env = common.subenv()
    env["PYTHONPATH"] = code
    vio, samples, jobs = [], [], []
    dist = {"rulesets": 0, "cli_runs": 0, "limits_inside_group": 0, "limits_inside_markov": 0, "modes": {}}
    nontrivial, seen = 0, set()
    sites = stdout_print_sites()
    dist["stdout_print_sites"] = sites
    refs = {}
    r = 0
    tries = 0
    while r < nrs and tries < nrs * 20:
        tries += 1
        want_markov = r % 2 == 1         # every second ruleset keeps its Markov levels (no --skip_brute): limits inside OMEN levels
        rs = rulesets.gen_ruleset(ctx.rng, with_markov=True if want_markov else ctx.rng.random() < 0.7, max_bases=3, max_len=3)
        rs["omen_prob"] = ctx.rng.choice([[("0", 0.4), ("1", 0.2)], [("1", 0.3)], [("1", 0.25), ("0", 0.25)]])
        if r % 3 == 1:
            # tie-rich family: several equally probable words, several equally probable masks, several equally
            # probable digit strings in ONE pre-terminal, so that N can fall behind the first mask of the second word etc.
            rs["files"]["A3"] = [("cat", 0.4), ("dog", 0.4), ("abc", 0.2)]
            rs["files"]["C3"] = [("LLL", 0.3), ("ULL", 0.3), ("UUU", 0.3), ("LLU", 0.1)]
            rs["files"]["D2"] = [("12", 0.25), ("99", 0.25), ("07", 0.25), ("00", 0.25)]
            rs["files"]["O1"] = [("!", 0.5), ("#", 0.5)]
            rs["grammar"] = [("A3D2", 0.4), ("D2A3O1", 0.3), ("A3", 0.2)] + [x for x in rs["grammar"] if x[0] == "M"][:1]
        if r % 3 == 2:
            # an 8-bit ruleset (iso-8859-1) with letters whose upper case the ruleset's encoding cannot represent (micro sign ->
            # GREEK CAPITAL MU, y with diaeresis -> U+0178) under masks with U: what is written to standard output does not
            # depend on the ruleset's encoding, and every guess counted against --limit is a line
            rs = {"name": rs["name"], "encoding": "iso-8859-1", "uuid": rs["uuid"], "omen": None, "omen_prob": [("1", 0.1)],
                  "files": {"A2": [("\u00b5m", 0.5), ("\u00ffa", 0.3), ("ab", 0.2)], "C2": [("UL", 0.5), ("LL", 0.3), ("UU", 0.2)],
                            "D1": [("1", 0.6), ("7", 0.4)], "O1": [("\u00a7", 0.5), ("!", 0.5)]},
                  "grammar": [("A2D1", 0.5), ("A2", 0.3), ("O1A2", 0.2)], "prince": [("A2", 0.6), ("D1", 0.4)]}
            dist["latin1_unencodable_upper"] = dist.get("latin1_unencodable_upper", 0) + 1
        if r % 2 == 0:
            rs = rulesets.normalise(rs)     # like a trained ruleset: needed by the sampling modes
        name = "L%d" % r
        rs["name"] = name
        flags = ctx.rng.choice([[], ["--skip_brute"], ["--all_lower"], ["--skip_brute", "--all_lower"]])
        if want_markov:
            flags = [f for f in flags if f != "--skip_brute"]
        try:
            g = impl_next.load_grammar(rs, sc, "--skip_brute" in flags, "--all_lower" in flags)
        except Exception:
            continue
        items, _, capped, _ = impl_next.full_stream(g, cap=300, check_heap=False)
        if capped or not items:
            continue
        per_item = []
        for it in items:
            res = collect(g, it["pt"], None)
            per_item.append(res[0] if res else [])
        ref = [x for p in per_item for x in p]
        if not ref or len(ref) > 4000:
            continue
        rulesets.write_ruleset(rs, os.path.join(code, "Rules", name))
        refs[name] = (rs, flags, per_item, ref, [it["pt"][0][0][0] == "M" for it in items])
        # in-process: the real session loop with EVERY limit N = 1 .. total+1 (capped), so that N falls at every
        # position relative to every group, mask and Markov-level boundary
        for nlim in range(1, min(len(ref) + 2, ctx.scale(160, 600))):
            rr = sched.run_session(g, {}, sc, limit=nlim)
            dist["inprocess_limit_runs"] = dist.get("inprocess_limit_runs", 0) + 1
            if rr["out"] != ref[:nlim]:
                vio.append({"sig": "C09:limit-count" if len(rr["out"]) != min(nlim, len(ref)) else "C09:limit-content",
                            "what": "session loop with limit %d wrote %d guesses (expected the first %d of %d)"
                                    % (nlim, len(rr["out"]), min(nlim, len(ref)), len(ref)),
                            "replay": {"ruleset": rs, "flags": flags, "n": nlim, "mode": "true_prob_order"}})
                break
        v, nruns = load_limit_history(ctx, code, rs, name, flags, len(ref))
        vio += v
        dist["resumed_limit_runs"] = dist.get("resumed_limit_runs", 0) + nruns
        dist["rulesets"] += 1
        r += 1
        bounds, c = [], 0
        for p in per_item:
            c += len(p)
            bounds.append(c)
        ns = {1, len(ref) - 1, len(ref), len(ref) + 1, len(ref) + 7}
        for b in ctx.rng.sample(bounds, min(len(bounds), ctx.scale(3, 8))):
            ns |= {b - 1, b, b + 1}
        # strictly inside groups / Markov levels
        c = 0
        for p, it in zip(per_item, items):
            is_m = it["pt"][0][0][0] == "M"
            if len(p) >= 3 and ctx.rng.random() < 0.5 or is_m and len(p) >= 2:
                ns.add(c + ctx.rng.randint(1, len(p) - 1))
            if is_m and len(p) >= 2:
                ns.add(c + len(p) - 1)       # the last guess but one of an OMEN level, and its last guess
                ns.add(c + len(p))
            c += len(p)
        jobs.append((name, flags, None, "true_prob_order"))
        for n in sorted(x for x in ns if x >= 1):
            jobs.append((name, flags, n, "true_prob_order"))
        # the sampling modes draw a base structure per word and discard every draw that lands on the Markov structure: with (almost)
        # all of the mass on M a session does not end in any reasonable time - termination there is probabilistic and not claimed
        # (DESIGN C16); a first version of this check asked for N words from a ruleset with M at 1.0 and A4 at 7e-320
        nonmarkov_mass = sum(b["prob"] for b in g.base if "M" not in b["replacements"])
        if (r - 1) % 2 == 0 and nonmarkov_mass >= 0.2:
            for mode in ("random_walk", "honeywords"):
                jobs.append((name, flags, ctx.rng.randint(1, 12), mode))
            jobs.append((name, flags, 5, "random_walk"))
            jobs.append((name, flags, 5, "random_walk"))
    jobs.append(("NoSuchRuleset", [], 3, "true_prob_order"))

    def do(job):
        name, flags, n, mode = job
        args = ["-r", name, "-s", "c09_%s_%s_%s" % (name, n, mode)] + flags + (["-n", str(n)] if n else []) + ["-m", mode]
        return job, cli(code, env, args)
    with ThreadPoolExecutor(max_workers=common.NCPU) as ex:
        results = list(ex.map(do, jobs))
    cases = []
    rw = {}
    for (name, flags, n, mode), outb in results:
        dist["cli_runs"] += 1
        dist["modes"][mode] = dist["modes"].get(mode, 0) + 1
        try:
            text = outb.decode("utf-8")
        except UnicodeDecodeError:
            text = outb.decode("utf-8", "replace")
        lines = text.split("\n")
        if lines and lines[-1] == "":
            lines = lines[:-1]
        elif text:
            vio.append({"sig": "C09:no-final-newline", "what": "stdout does not end with a newline", "replay": {"job": [name, flags, n, mode]}})
        if name == "NoSuchRuleset":
            if outb:
                vio.append({"sig": "C09:stdout-noise:load-error", "what": "ruleset that cannot be loaded: stdout is %r (must be empty)" % outb[:120],
                            "replay": {"job": [name, flags, n, mode]}})
            continue
        rs, _, per_item, ref, mk = refs[name]
        replay = {"ruleset": rs, "flags": flags, "n": n, "mode": mode}
        if mode == "true_prob_order":
            exp = ref if not n else ref[:n]
            if lines != exp:
                # classify
                if lines and lines[0] == "" and lines[1:] == exp:
                    sig, what = "C09:stdout-noise:banner", "first stdout line is empty (banner): %d lines instead of %d" % (len(lines), len(exp))
                elif len(lines) != len(exp):
                    sig, what = "C09:limit-count", "--limit %r wrote %d lines, expected min(N,total)=%d" % (n, len(lines), len(exp))
                else:
                    sig, what = "C09:limit-content", "--limit %r: lines are not the first N of the unlimited run" % n
                vio.append({"sig": sig, "what": what, "replay": replay})
            if n:
                c = 0
                for p, m in zip(per_item, mk):
                    if c < n < c + len(p):
                        dist["limits_inside_markov" if m else "limits_inside_group"] += 1
                        key = (name, n)
                        if key not in seen:
                            seen.add(key)
                            nontrivial += 1
                    c += len(p)
                cases.append((name, n, len(lines), lines == exp))
        else:
            body = lines[1:] if lines and lines[0] == "" else lines
            lang = set(x for p, m in zip(per_item, mk) if not m for x in p)
            if len(body) != n:
                vio.append({"sig": "C09:limit-count:" + mode, "what": "%s --limit %d wrote %d lines" % (mode, n, len(body)), "replay": replay})
            if lines and lines[0] == "" and "" not in lang:
                vio.append({"sig": "C09:stdout-noise:banner", "what": "first stdout line is empty (banner) in mode %s" % mode, "replay": replay})
            if mode == "random_walk" and n == 5:
                rw.setdefault(name, []).append(lines)
        if len(samples) < 3 and n and mode == "true_prob_order":
            samples.append({"ruleset": name, "flags": flags, "limit": n, "lines": lines[:5], "total": len(ref)})
    for name, runs in rw.items():
        if len(runs) == 2 and runs[0] != runs[1]:
            vio.append({"sig": "C09:random-walk-not-reproducible", "what": "two random_walk runs differ", "replay": {"ruleset": refs[name][0]}})
    if sites:
        vio.append({"sig": "C09:stdout-print-sites", "what": "print calls that write to stdout outside print_guess: %s" % sites[:8],
                    "replay": {"static": sites}})
    # correspondence: Session.limited on the per-pre-terminal counts
    shards = []
    byname = {}
    for name, n, got, okp in cases:
        byname.setdefault(name, []).append((n, got, okp))
    for name, cs in byname.items():
        per_item = refs[name][2]
        src = ["From Coq Require Import List Arith Bool.", "From Pcfg Require Import Session SessionCorr.", "Import ListNotations.",
               "Definition pts : list (list nat) := map guesses (mk_pts %s 0 0)." %
               common.clist(["(false, %d%%nat)" % len(p) for p in per_item]),
               "Definition runs : list (nat * nat * bool) := %s." % common.clist(["(%d%%nat, %d%%nat, %s)" % (n, got, common.cbool(okp)) for n, got, okp in cs]),
               "Eval vm_compute in (failing (fun r => match r with (n, got, okp) => okp && nat_list_eqb (limited pts (Some n)) (seq 0 got) end) runs)."]
        shards.append((name, "\n".join(src)))
    corr = []
    for name, idx, log in common.run_case_shards("C09", shards):
        if idx is None:
            corr.append(("limit:" + name, False, log[-800:]))
        elif idx:
            corr.append(("limit:" + name, False, "model limited and CLI --limit differ for runs %s of %s" % (idx[:10], name)))
        else:
            corr.append(("limit:" + name, True, ""))
    corr.append(("static:no-stdout-print-outside-print_guess", not sites, str(sites[:10])))
    rule = ("generated rulesets (with Markov levels, all flag combinations); per ruleset a session quit after 1-4 pre-terminals and resumed "
            "with --load --limit N for 7 values of N against the unlimited resume (real main in-process, harness/main_driver.py); "
            "pcfg_guesser.py as a subprocess with stdin kept open; stdout bytes "
            "compared with the in-process reference stream for N = 1, total-1, total, total+1, b-1/b/b+1 around sampled cumulative group boundaries "
            "b and points strictly inside groups and Markov levels; honeywords / random_walk line counts; a ruleset that cannot be loaded; static "
            "scan of every print in the guesser; generated command lines through the real parse_command_line and main (recording stand-ins, harness/cli_tie.py: typed limit vs the limit the sessions get, also on --load) against the model; non-trivial = N strictly inside a pre-terminal; distinct by (ruleset, N)")
    # second tie to the source (translator): name the broken equality if the build lost ExpandGenProofs
    import expand_tie
    corr.append(expand_tie.obligation())
    # translator tie of the session loop itself (CrackingSession.run = SessionModel.m_run = Session.limited)
    import session_tie
    corr.append(session_tie.obligation("session"))
    # translator tie of parse_command_line / main (the --limit validation, the limit that reaches the sessions also on --load,
    # no print of main on stdout) + its correspondence against the real functions
    import cli_tie
    corr += cli_tie.obligations("C09")
    c2, v2, st = cli_tie.run(ctx, "C09", n_parse=ctx.scale(100, 800), n_main=ctx.scale(50, 400))
    corr += c2
    vio += v2
    dist.update(st)
    return {"evaluations": dist["cli_runs"], "distinct_nontrivial": nontrivial, "rule": rule, "samples": samples,
            "corr": corr, "violations": vio, "dist": dist, "corr_explained_by_known": False}


def replay(ctx, data):
    inp = data.get("input") or {}
    if inp.get("cli") in ("parse", "main", "saveload"):
        import cli_tie
        return cli_tie.replay(ctx, "C09", inp)
    if "static" in inp:
        s = stdout_print_sites()
        return [{"sig": "C09:stdout-print-sites", "what": str(s[:8]), "replay": inp}] if s else []
    if "ruleset" not in inp:
        return []
    rs = inp["ruleset"]
    if inp.get("history") == "load-limit":
        code = common.copy_code_tree(common.scratch())
        rulesets.write_ruleset(rs, os.path.join(code, "Rules", rs["name"]))
        v, _ = load_limit_history(ctx, code, rs, rs["name"], inp.get("flags", []), 10 ** 9, fixed=inp)
        return v
    code = common.copy_code_tree(common.scratch())
    env = common.subenv()
    env["PYTHONPATH"] = code
    rulesets.write_ruleset(rs, os.path.join(code, "Rules", rs["name"]))
    flags, n, mode = inp.get("flags", []), inp.get("n"), inp.get("mode", "true_prob_order")
    if mode != "true_prob_order":
        g_ = impl_next.load_grammar(rs, common.scratch(), "--skip_brute" in flags, "--all_lower" in flags)
        if sum(b["prob"] for b in g_.base if "M" not in b["replacements"]) < 0.2:
            return []       # outside what is claimed for the sampling modes (see run())
    full = cli(code, env, ["-r", rs["name"], "-s", "rp"] + flags + ["-m", mode]) if mode == "true_prob_order" else b""
    got = cli(code, env, ["-r", rs["name"], "-s", "rp2"] + flags + (["-n", str(n)] if n else []) + ["-m", mode])
    gl = got.decode("utf-8", "replace").split("\n")[:-1]
    if mode != "true_prob_order":
        return [{"sig": "C09:limit-count:" + mode, "what": "%d lines" % len(gl), "replay": inp}] if len([x for x in gl if x != ""]) != n else []
    fl = full.decode("utf-8", "replace").split("\n")[:-1]
    if gl and gl[0] == "" and fl and fl[0] == "":
        return [{"sig": "C09:stdout-noise:banner", "what": "first stdout line is empty", "replay": inp}]
    exp = fl if not n else fl[:n]
    return [] if gl == exp else [{"sig": "C09:limit-content", "what": "limit %r: %d lines vs %d expected" % (n, len(gl), len(exp)), "replay": inp}]
