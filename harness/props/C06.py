"""C06: the saved grammar is the relative-frequency model of the segmentation.

Implementation = lib_trainer.run_trainer.run_trainer of /repo's working tree
(in-process, parser counters and every section list captured; and `trainer.py`
twice as a subprocess with different PYTHONHASHSEED); model = Counters.v
(tally, most_common, calc_probs, with_markov, count_structs) in binary64,
writing through TextFile.write_file; the segmentation is taken as given."""
import json
import os
from collections import Counter
from fractions import Fraction

import common
import trainer_io as T

ID = "C06"
TRUSTED = ["harness/translate_writer.py: the reading it gives to its Python subset, and coq/theories/WriterRt.v (statement sequences as "
           "out/bind, try/except Exception, the disk as a finite map from paths to text with os.walk / os.unlink / open 'w' / "
           "write, the codec as the per-character oracle encb, str(float) as the oracle repr, a None Counter key as its str())",
           "the segmentation (section lists) is what the real parser produced (C05 is about the segmentation itself)",
           "CPython repr(float) / float(str) round trip (checked on every probability that crosses a file)",
           "CPython int / int true division is correctly rounded; sum() of ints is exact",
           "codecs encode/decode of the ruleset encoding"]
ASSUMES = ["C06_sum_one_Q: the counter is not empty (total > 0)",
           "C06_markov_count: 0 < coverage < 1 for the pseudo-count case; exact arithmetic over Q (the binary64 value the code "
           "computes, (N / coverage) - N, is compared with it in the oracle and hex-exactly with the model in the correspondence)",
           "counts below 2^53 (exact in binary64)"]

COVERAGES = [0.6, 1.0, 0.25, 0.0]
BOUNDARY_COVERAGES = [0.9999999999, 1e-12, 1 - 2.0 ** -40, 1e-9, 0.999999, 2.0 ** -30]
# files with a fixed name: rewritten by every training, also when their counter is empty this time
STALE_FIXED = ["Years/1.txt", "Context/1.txt", "Emails/email_providers.txt", "Websites/website_hosts.txt",
               "Websites/website_prefixes.txt", "Grammar/grammar.txt", "Grammar/raw_grammar.txt", "Prince/grammar.txt"]


def file_lines(tree, rel, enc):
    data = tree.get(rel)
    if data is None:
        return None
    return T.parse_rule_file(data, enc)


def check_file(tree, rel, enc, counter, vio, rep, what, allow_float=False):
    """A file against the counter it was written from (independent recount)."""
    lines = file_lines(tree, rel, enc)
    if lines is None:
        vio.append({"sig": "C06:file-missing:" + what, "what": "%s was not written" % rel, "replay": rep})
        return
    counter = Counter({str(k): v for k, v in counter.items()})      # the writer applies str() to the key (None -> 'None')
    exp = T.expected_lines(counter)
    vals = [v for v, _ in lines]
    if len(set(vals)) != len(vals):
        vio.append({"sig": "C06:duplicate-item:" + what, "what": "%s lists an item twice" % rel, "replay": rep})
    if set(vals) != set(counter):
        miss = [k for k in counter if k not in vals][:3]
        extra = [v for v in vals if v not in counter][:3]
        vio.append({"sig": "C06:item-set:" + what, "what": "%s: missing %r, unexpected %r" % (rel, miss, extra), "replay": rep})
        return
    if vals != [v for v, _ in exp]:
        vio.append({"sig": "C06:order:" + what, "what": "%s is not in most-common order (ties in first-seen order): %r vs %r"
                    % (rel, vals[:6], [v for v, _ in exp][:6]), "replay": rep})
    total = sum(counter.values())
    prev = None
    for (v, ptxt), (ev, ep) in zip(lines, exp):
        try:
            p = float(ptxt)
        except ValueError:
            vio.append({"sig": "C06:not-a-float:" + what, "what": "%s: %r" % (rel, ptxt), "replay": rep})
            return
        if ptxt != repr(p) or float(repr(p)) != p:
            vio.append({"sig": "C06:repr", "what": "%s: probability text %r is not repr of its value" % (rel, ptxt), "replay": rep})
        if v == ev and p != counter[v] / total:
            vio.append({"sig": "C06:probability:" + what, "what": "%s: %r has probability %r, count/total = %r/%r = %r"
                        % (rel, v, p, counter[v], total, counter[v] / total), "replay": rep})
        if not allow_float:
            # exact: p is the correctly rounded value of the rational count/total
            q = Fraction(counter[v], total)
            if p != float(q.numerator / q.denominator) and p != q.numerator / q.denominator:
                vio.append({"sig": "C06:division-inexact:" + what, "what": "%s: %r" % (rel, v), "replay": rep})
        if prev is not None and p > prev:
            vio.append({"sig": "C06:not-sorted:" + what, "what": "%s: probability increases at %r" % (rel, v), "replay": rep})
        prev = p
    if lines:
        s = sum(float(p) for _, p in lines)
        if abs(s - 1.0) > 1e-9:
            vio.append({"sig": "C06:sum:" + what, "what": "%s sums to %r" % (rel, s), "replay": rep})


def short_table(t, n=6):
    if isinstance(t, dict):
        return dict(list(t.items())[:n])
    return t


def same_counter(a, b):
    return list(a.items()) == list(b.items())


def same_lcounter(a, b):
    return list(a.keys()) == list(b.keys()) and all(same_counter(a[k], b[k]) for k in a)


def same_table(a, b):
    """two count_* tables (a Counter, or a dict length -> Counter): same keys in the same order with the same counts"""
    if type(a) is not type(b) and not (isinstance(a, dict) and isinstance(b, dict)):
        return False
    if isinstance(a, dict) and any(isinstance(v, dict) for v in list(a.values()) + list(b.values())):
        return list(a.keys()) == list(b.keys()) and all(isinstance(a[k], dict) and isinstance(b[k], dict)
                                                         and same_counter(a[k], b[k]) for k in a)
    if isinstance(a, dict):
        return same_counter(a, b)
    return a == b


_tlds = []


def tlds():
    if not _tlds:
        _tlds.append(T.tld_list())
    return _tlds[0]


# (name in the recount, parser attribute, file, sig detail, needs: which recount flag says the reference is decided)
EW_TABLES = [("providers", "count_email_providers", "Emails/email_providers.txt", "Emails", "email_exact", False),
             ("hosts", "count_website_hosts", "Websites/website_hosts.txt", "Websites", "site_exact", False),
             ("prefixes", "count_website_prefixes", "Websites/website_prefixes.txt", "Websites", "site_exact", False),
             ("emails", "count_emails", "Emails/full_emails.txt", "Emails", "email_exact", True),
             ("urls", "count_website_urls", "Websites/website_urls.txt", "Websites", "url_exact", True)]


def ew_references(rec, R):
    """The table each e-mail / website list must have been written from: the recount from the section lists where the
    segments decide it, else the parser's table as it was when parsing ended, else (no snapshot) the parser's table now.
    -> {recount name: (counter, 'recount' | 'snapshot' | 'parser')}"""
    out = {}
    snap = getattr(rec, "snapshot", None)
    for name, attr, _, _, flag, _ in EW_TABLES:
        if R.get(flag, True):
            out[name] = (R[name], "recount")
        elif snap is not None and attr in snap:
            out[name] = (snap[attr], "snapshot")
        else:
            out[name] = (getattr(rec.parser, attr), "parser")
    return out


def oracle(rec, rep, stale=()):
    vio = []
    if not rec.ok or rec.parser is None:
        return vio
    P, enc, tree = rec.parser, rec.enc, rec.tree
    R = T.recount(rec.sections, tlds())
    # 0. between the end of parsing (entry of print_statistics) and the end of the run nothing but the Markov
    #    pseudo-count changes a table: what is saved is what was counted
    snap = getattr(rec, "snapshot", None)
    if snap is not None:
        final = T.parser_counters(P)
        for name in sorted(set(snap) | set(final)):
            if name == "count_base_structures":
                if not same_counter(snap.get(name, Counter()), R["base"]):
                    vio.append({"sig": "C06:counter-vs-segmentation:base", "what": "count_base_structures at the end of parsing "
                                "differs from the tally of the supported structures", "replay": rep})
                continue
            if name not in snap or name not in final or not same_table(snap[name], final[name]):
                vio.append({"sig": "C06:counter-changed-after-parsing:" + name[len("count_"):],
                            "what": "parser.%s was changed between the end of parsing and the end of the run: %r -> %r"
                            % (name, short_table(snap.get(name)), short_table(final.get(name))), "replay": rep})
    # 0b. e-mail / website tables against the e-mail / website segments (one provider per E, one host and prefix per W)
    for name, attr, _, _, flag, _ in EW_TABLES:
        mem = getattr(P, attr, None)
        if mem is None:
            continue
        n_seg = R["n_email"] if attr.startswith("count_email") else R["n_site"]
        if sum(mem.values()) != n_seg:
            vio.append({"sig": "C06:counter-vs-segmentation:" + name, "what": "parser.%s counts %r items, the section lists hold %d "
                        "such segment(s): %r" % (attr, sum(mem.values()), n_seg, short_table(mem)), "replay": rep})
        elif R.get(flag, True) and not same_counter(mem, R[name]):
            vio.append({"sig": "C06:counter-vs-segmentation:" + name, "what": "parser.%s differs from the recount of the section "
                        "lists: %r vs %r" % (attr, short_table(mem), short_table(R[name])), "replay": rep})
    refs = ew_references(rec, R)
    # 1. the counters are the tallies of the segmentation
    for name, mem, rc in (("alpha", P.count_alpha, R["alpha"]), ("masks", P.count_alpha_masks, R["masks"]),
                          ("digits", P.count_digits, R["digits"]), ("other", P.count_other, R["other"]),
                          ("keyboard", P.count_keyboard, R["keyboard"])):
        if not same_lcounter(mem, rc):
            vio.append({"sig": "C06:counter-vs-segmentation:" + name, "what": "parser.count_%s differs from the tally of the section lists: %r vs %r"
                        % (name, {k: dict(v) for k, v in list(mem.items())[:3]}, {k: dict(v) for k, v in list(rc.items())[:3]}), "replay": rep})
    for name, mem, rc in (("years", P.count_years, R["years"]), ("context", P.count_context_sensitive, R["context"]),
                          ("raw", P.count_raw_base_structures, R["raw"]), ("prince", P.count_prince, R["prince"])):
        if not same_counter(mem, rc):
            vio.append({"sig": "C06:counter-vs-segmentation:" + name, "what": "parser counter %s differs from the tally of the section lists" % name,
                        "replay": rep})
    base_mem = Counter(P.count_base_structures)
    n, cov = rec.n, rec.coverage
    exp_base = Counter(R["base"])
    if cov == 0:
        exp_base = Counter({"M": 1})
    elif cov != 1:
        exp_base["M"] = n / cov - n
    if not same_counter(base_mem, exp_base):
        vio.append({"sig": "C06:base-counter", "what": "count_base_structures %r, expected %r" % (dict(base_mem), dict(exp_base)), "replay": rep})
    # 2. every file is the relative-frequency list of its counter
    for folder, d in (("Alpha", R["alpha"]), ("Capitalization", R["masks"]), ("Digits", R["digits"]), ("Other", R["other"]),
                      ("Keyboard", R["keyboard"])):
        for k, c in d.items():
            check_file(tree, "%s/%d.txt" % (folder, k), enc, c, vio, rep, folder)
        names = sorted(f for f in tree if f.startswith(folder + "/"))
        if names != sorted("%s/%d.txt" % (folder, k) for k in d):
            vio.append({"sig": "C06:files:" + folder, "what": "%s holds %r, the counters have lengths %r%s"
                        % (folder, names, sorted(d), " (stale files were planted before training)" if stale else ""), "replay": rep})
    check_file(tree, "Years/1.txt", enc, R["years"], vio, rep, "Years")
    check_file(tree, "Context/1.txt", enc, R["context"], vio, rep, "Context")
    for name, attr, rel, what, _, sensitive in EW_TABLES:
        if not sensitive or rec.save_sensitive:
            check_file(tree, rel, enc, refs[name][0], vio, rep, what)
    if not rec.save_sensitive:
        for f in ("Emails/full_emails.txt", "Websites/website_urls.txt"):
            if f in tree:
                vio.append({"sig": "C06:sensitive-saved", "what": "%s written without --save_sensitive" % f, "replay": rep})
    check_file(tree, "Grammar/raw_grammar.txt", "ascii", R["raw"], vio, rep, "raw")
    check_file(tree, "Prince/grammar.txt", "ascii", R["prince"], vio, rep, "prince")
    check_file(tree, "Grammar/grammar.txt", "ascii", exp_base, vio, rep, "grammar", allow_float=True)
    for folder, want in (("Years", ["Years/1.txt"]), ("Context", ["Context/1.txt"]),
                         ("Grammar", ["Grammar/grammar.txt", "Grammar/raw_grammar.txt"]), ("Prince", ["Prince/grammar.txt"])):
        names = sorted(f for f in tree if f.startswith(folder + "/"))
        if names != sorted(want):
            vio.append({"sig": "C06:files:" + folder, "what": "%s holds %r" % (folder, names), "replay": rep})
    # 3. Markov pseudo-count
    g = file_lines(tree, "Grammar/grammar.txt", "ascii") or []
    gd = dict(g)
    S = sum(R["base"].values())
    if cov == 1:
        if "M" in gd:
            vio.append({"sig": "C06:markov-present-at-coverage-1", "what": "grammar.txt has an M line with coverage 1", "replay": rep})
    elif cov == 0:
        if g != [("M", "1.0")]:
            vio.append({"sig": "C06:markov-not-only-at-coverage-0", "what": "coverage 0 but grammar.txt = %r" % g[:4], "replay": rep})
    else:
        if "M" not in gd:
            vio.append({"sig": "C06:markov-missing", "what": "coverage %r but no M line" % cov, "replay": rep})
        else:
            exact_m = Fraction(n) / Fraction(cov) - n          # N*(1/coverage - 1), coverage = the binary64 value
            exact_p = exact_m / (S + exact_m)
            p = float(gd["M"])
            # the code computes the count in binary64 as (N / c) - N: its absolute error is bounded by the rounding of
            # N / c (cancellation when c is next to 1), which moves P(M) = m / (S + m) by at most S / (S + m)^2 times that
            slack = Fraction(S) / (S + exact_m) ** 2 * (Fraction(n) / Fraction(cov)) * Fraction(1, 2 ** 50)
            if exact_p and abs(Fraction(p) - exact_p) > exact_p * Fraction(1, 10 ** 12) + slack:
                vio.append({"sig": "C06:markov-count", "what": "P(M) = %r, N*(1/c-1)/(S+N*(1/c-1)) = %r (N=%d, c=%r, S=%d)"
                            % (p, float(exact_p), n, cov, S), "replay": rep})
            if S == n and abs(p - (1 - cov)) > 1e-12:
                vio.append({"sig": "C06:markov-count", "what": "all %d passwords supported, coverage %r, but P(M) = %r" % (n, cov, p), "replay": rep})
    # 4. unsupported structures only in the raw list
    for v in gd:
        if "E" in v or "W" in v:
            vio.append({"sig": "C06:unsupported-in-grammar", "what": "grammar.txt lists %r" % v, "replay": rep})
    raw = dict(file_lines(tree, "Grammar/raw_grammar.txt", "ascii") or [])
    for sl in rec.sections:
        s = "".join(l for _, l in sl)
        if s not in raw:
            vio.append({"sig": "C06:raw-missing", "what": "structure %r not in raw_grammar.txt" % s, "replay": rep})
            break
    return vio


def items_by_kind(sections):
    """item sequences per counter, in parse order (for the tally correspondence)"""
    out = {"alpha": [], "masks": [], "digits": [], "other": [], "keyboard": [], "years": [], "context": [],
           "emails": [], "providers": [], "urls": [], "hosts": [], "prefixes": []}
    for sl in sections:
        for text, label in sl:
            t = label[0]
            if t == "E":
                em = T.lower_in_place(text)
                out["emails"].append(em)
                out["providers"].append(em[em.find("@") + 1:])
            elif t == "W":
                out["urls"].append(text)
                hp = T.site_parts(text, tlds())
                if hp is not None:
                    out["hosts"].append(hp[0])
                    out["prefixes"].append(str(hp[1]))
            if t == "A":
                out["alpha"].append(text.lower())
                out["masks"].append("".join("U" if ch.isupper() else "L" for ch in text))
            elif t == "D":
                out["digits"].append(text)
            elif t == "O":
                out["other"].append(text)
            elif t == "K":
                out["keyboard"].append(text)
            elif t == "Y":
                out["years"].append(text)
            elif t == "X":
                out["context"].append(text)
    return out


def coq_cases(rec, info, groups):
    P, enc, tree = rec.parser, rec.enc, rec.tree
    files = []
    for folder, d in (("Alpha", P.count_alpha), ("Capitalization", P.count_alpha_masks), ("Digits", P.count_digits),
                      ("Other", P.count_other), ("Keyboard", P.count_keyboard)):
        for k, c in d.items():
            files.append(("%s/%d.txt" % (folder, k), c, enc))
    files += [("Years/1.txt", P.count_years, enc), ("Context/1.txt", P.count_context_sensitive, enc)]
    # the e-mail / website lists: written from the table the segments decide (not from whatever the parser holds at the end)
    R = T.recount(rec.sections, tlds())
    refs = ew_references(rec, R)
    for name, attr, rel, _, _, sensitive in EW_TABLES:
        if not sensitive or rec.save_sensitive:
            files.append((rel, refs[name][0], enc))
    for rel, c, e in files:
        if rel not in tree:
            continue
        text = tree[rel].decode(e)
        fl = []
        for ln in text.split("\n"):
            f = ln.rpartition("\t")[2]
            try:
                fl.append(float(f))
            except ValueError:
                pass
        groups["counterfile"].append((T.cpair(T.cpair(T.c_counts(c), T.repr_table(fl)), T.cs(text)), dict(info, file=rel)))
    # structures
    if all(k in tree for k in ("Grammar/grammar.txt", "Grammar/raw_grammar.txt", "Prince/grammar.txt")):
        texts = [tree[k].decode("ascii") for k in ("Grammar/grammar.txt", "Grammar/raw_grammar.txt", "Prince/grammar.txt")]
        fl = []
        for t in texts:
            for ln in t.split("\n"):
                try:
                    fl.append(float(ln.rpartition("\t")[2]))
                except ValueError:
                    pass
        labels = [[l for _, l in sl] for sl in rec.sections]
        groups["structs"].append((
            "{| st_labels := %s; st_cov := %s; st_n := %s; st_repr := %s; st_grammar := %s; st_raw := %s; st_prince := %s |}"
            % (T.clist(labels, T.cstrs, "list str"), T.cf(float(rec.coverage)), T.cN(rec.n), T.repr_table(fl),
               T.cs(texts[0]), T.cs(texts[1]), T.cs(texts[2])), dict(info, file="Grammar/*")))
    it = items_by_kind(rec.sections)
    for kind, mem in (("years", P.count_years), ("context", P.count_context_sensitive)):
        groups["tally"].append((T.cpair(T.cstrs(it[kind]), T.c_counts(mem)), dict(info, counter=kind)))
    for name, attr, _, _, flag, _ in EW_TABLES:
        if R.get(flag, True) and hasattr(P, attr):
            groups["tally"].append((T.cpair(T.cstrs(it[name]), T.c_counts(getattr(P, attr))), dict(info, counter=name)))
    for kind, mem in (("alpha", P.count_alpha), ("masks", P.count_alpha_masks), ("digits", P.count_digits),
                      ("other", P.count_other), ("keyboard", P.count_keyboard)):
        groups["ltally"].append((T.cpair(T.cstrs(it[kind]), T.c_lcounts(mem)), dict(info, counter=kind)))


def gen_case(rng, i):
    enc = T.ENCODINGS[i % len(T.ENCODINGS)]
    flavour = ["mixed", "ew", "ties", "single", "mixed", "big", "ewbig"][i % 7]
    if flavour == "ew":
        entries = T.gen_entries(rng, enc, n_distinct=rng.randint(4, 9), kinds=["email", "site", "email2", "site2", "word", "wd"])
    elif flavour == "ewbig":
        # e-mails and websites in one list: many providers / hosts (the two pools overlap), repeated, every prefix form
        entries = T.gen_entries(rng, enc, n_distinct=rng.randint(14, 28), dup_bias=0.6,
                                kinds=["email2", "site2", "email2", "site2", "email", "site", "wd"])
    elif flavour == "ties":
        entries = [(p, 2) for p, _ in T.gen_entries(rng, enc, n_distinct=rng.randint(4, 8), dup_bias=0)]
    elif flavour == "single":
        entries = T.gen_entries(rng, enc, n_distinct=rng.randint(1, 3), dup_bias=0.2)
    elif flavour == "big":
        entries = T.gen_entries(rng, enc, n_distinct=rng.randint(15, 30), dup_bias=0.7)
    else:
        entries = T.gen_entries(rng, enc, specials=rng.sample(T.special_chars_for(enc, rng), 1) if rng.random() < 0.3 else ())
    cov = COVERAGES[i % 4] if i % 9 != 8 else rng.choice([0.1, 1 / 3, 0.999, 0.5, 0.75, 0.01])
    if i % 10 == 7:
        # legal values next to the two special cases 0 and 1: the M pseudo-count N*(1/c - 1) is tiny / huge but not 0 / everything
        cov = BOUNDARY_COVERAGES[(i // 10) % len(BOUNDARY_COVERAGES)]
    return enc, flavour, entries, cov


def run_one(sc, tag, enc, entries, cov, data, prefix, stale, save_sensitive=False):
    p = os.path.join(sc, "l%s.txt" % tag)
    with open(p, "wb") as f:
        f.write(data)
    rd = os.path.join(sc, "R%s" % tag)
    if stale:
        for rel in stale:
            os.makedirs(os.path.dirname(os.path.join(rd, rel)), exist_ok=True)
            with open(os.path.join(rd, rel), "w") as f:
                f.write("stale\t0.5\nstale2\t0.5\n")
    return p, T.train_inprocess(p, enc, rd, coverage=cov, prefixcount=prefix, save_sensitive=save_sensitive)


def run(ctx):
    rng = ctx.rng
    sc = common.scratch()
    n = ctx.scale(40, 500)
    n_cli = ctx.scale(16, 80)
    vio, samples = [], []
    groups = {"counterfile": [], "structs": [], "tally": [], "ltally": []}
    dist = {"lists": 0, "coverage": {}, "flavour": {}, "encodings": {}, "tied_counts": 0, "single_item_classes": 0,
            "unsupported_structures": 0, "cli_pairs": 0, "stale_planted": 0, "files_checked": 0, "failed_runs": 0,
            "lists_with_email_and_website": 0, "email_segments": 0, "website_segments": 0, "distinct_providers": 0,
            "distinct_hosts": 0, "lists_site_recount_undecided": 0, "lists_email_recount_undecided": 0,
            "lists_without_snapshot": 0}
    seen, nontrivial = set(), 0
    code = None
    for i in range(n):
        enc, flavour, entries, cov = gen_case(rng, i)
        if not entries:
            continue
        data = T.build_file(rng, entries, enc, rng.choice(["plain", "mixed"]), rng.choice([b"\n", b"\r\n"]))
        stale = ["Alpha/99.txt", "Digits/77.txt", "Capitalization/99.txt", "Other/stale.txt", "Keyboard/4.txt"] if i % 3 == 0 else []
        if i % 3 == 1:
            # a retrain of an existing rule name: what an earlier training left in the fixed-name lists must not survive
            stale = list(STALE_FIXED)
        sens = i % 5 == 4
        path, rec = run_one(sc, str(i), enc, entries, cov, data, False, stale, sens)
        rep = {"enc": enc, "coverage": cov, "file": data.hex(), "stale": stale, "save_sensitive": sens}
        if rec.exc:
            vio.append({"sig": "C06:trainer-aborts", "what": "run_trainer raised %s" % rec.exc, "replay": rep})
        if not rec.ok:
            dist["failed_runs"] += 1
            continue
        dist["lists"] += 1
        dist["stale_planted"] += bool(stale)
        dist["coverage"][repr(cov)] = dist["coverage"].get(repr(cov), 0) + 1
        dist["flavour"][flavour] = dist["flavour"].get(flavour, 0) + 1
        dist["encodings"][enc] = dist["encodings"].get(enc, 0) + 1
        dist["files_checked"] += len(rec.tree)
        vio += oracle(rec, rep, stale)
        R = T.recount(rec.sections, tlds())
        dist["lists_with_email_and_website"] += bool(R["n_email"] and R["n_site"])
        dist["email_segments"] += R["n_email"]
        dist["website_segments"] += R["n_site"]
        dist["distinct_providers"] += len(R["providers"])
        dist["distinct_hosts"] += len(R["hosts"])
        dist["lists_site_recount_undecided"] += bool(R["n_site"] and not R["site_exact"])
        dist["lists_email_recount_undecided"] += bool(R["n_email"] and not R["email_exact"])
        dist["lists_without_snapshot"] += getattr(rec, "snapshot", None) is None
        ties = any(len(set(c.values())) < len(c) for d in (R["alpha"], R["digits"], R["other"]) for c in d.values()) \
            or len(set(R["base"].values())) < len(R["base"])
        single = any(len(c) == 1 for d in (R["alpha"], R["digits"], R["other"]) for c in d.values())
        unsup = sum(1 for s in R["raw"] if s not in R["base"])
        dist["tied_counts"] += ties
        dist["single_item_classes"] += single
        dist["unsupported_structures"] += unsup
        key = (enc, cov, tuple(rec.seqs[0]))
        if key not in seen:
            seen.add(key)
            if ties or single or unsup:
                nontrivial += 1
        coq_cases(rec, {"enc": enc, "coverage": cov, "file": data.hex()}, groups)
        if len(samples) < 4 and i % 9 == 2:
            samples.append({"encoding": enc, "coverage": cov, "passwords": rec.seqs[0][:8],
                            "grammar.txt": rec.tree.get("Grammar/grammar.txt", b"").decode("ascii").split("\n")[:5],
                            "structures_raw_only": [s for s in R["raw"] if s not in R["base"]][:3]})
        # determinism: the real CLI twice with different hash seeds
        if i < n_cli:
            if code is None:
                code = common.copy_code_tree(common.scratch())
            trees = []
            for seed in (str(1 + i), str(900 + 7 * i)):
                rc, so, se, tree = T.train_cli(code, path, "D%d_%s" % (i, seed), enc, cov, False, hashseed=seed, save_sensitive=sens)
                trees.append(tree)
            dist["cli_pairs"] += 1
            a, b = T.normalise_tree(trees[0]), T.normalise_tree(trees[1])
            d = [k for k in sorted(set(a) | set(b)) if a.get(k) != b.get(k)]
            if d:
                vio.append({"sig": "C06:not-deterministic", "what": "two trainer.py runs (PYTHONHASHSEED differs) differ in %s" % d[:4], "replay": rep})
            u = [t.get("config.ini", b"") for t in trees]
            if u[0] == u[1] and u[0]:
                vio.append({"sig": "C06:uuid-reused", "what": "two runs wrote the same uuid", "replay": rep})
            c = T.normalise_tree({k: v for k, v in rec.tree.items() if k not in stale or k in trees[0]})
            d = [k for k in sorted(set(a) | set(c)) if a.get(k) != c.get(k)]
            if d:
                vio.append({"sig": "C06:cli-vs-inprocess", "what": "trainer.py and the in-process run_trainer differ in %s" % d[:4], "replay": rep})
    corr, bad = T.run_shards("C06", [
        ("counterfile", "list (str * N) * list (float * str) * str", "check_counter_file", groups["counterfile"]),
        ("structs", "struct_case", "check_struct_files", groups["structs"]),
        ("tally", "list str * list (str * N)", "check_tally", groups["tally"]),
        ("ltally", "list str * list (N * list (str * N))", "check_ltally", groups["ltally"])], per=70)
    import writer_tie
    corr = writer_tie.obligations(["struct", "save"]) + corr
    import trainer_run_tie
    corr = trainer_run_tie.obligations() + corr
    rule = ("generated lists (as C19; flavours: mixed, e-mail/website dominated, all counts tied, 1-3 passwords, 15-30 passwords, "
            "e-mails and websites mixed in one list with many overlapping providers / hosts, every prefix form, sub-domains, paths and trailing mangling) x "
            "coverage in {0, .25, .6, 1, random} x 4 encodings, boundary coverages next to 0 and 1, stale files planted in the length-indexed folders of every third run and in every fixed-name list (Years, Context, Emails, Websites, Grammar, Prince) of every third run = a retrain of an existing rule name; oracle: "
            "recount from the section lists the real parser produced (e-mail providers = what follows the first '@' of an E segment, website host / prefix "
            "re-derived from the W segment text; never the parser's own tables), every count_* table deep-copied at the entry of print_statistics = end of parsing "
            "and required unchanged at the end of the run, every *.txt = [(v, count/total)] in most-common order with "
            "exact division, M line per coverage, E/W only in raw; determinism: trainer.py twice with different PYTHONHASHSEED; "
            "non-trivial = tied counts, a single-item class or an unsupported structure; distinct by (encoding, coverage, sequence)")
    return {"evaluations": dist["lists"] + 2 * dist["cli_pairs"], "distinct_nontrivial": nontrivial, "rule": rule,
            "samples": samples, "corr": corr, "violations": vio, "dist": dist}


def replay(ctx, data):
    inp = data.get("input") or {}
    if "file" not in inp:
        return []
    sc = common.scratch()
    _, rec = run_one(sc, "rp", inp["enc"], None, inp["coverage"], bytes.fromhex(inp["file"]), False, inp.get("stale") or [],
                     inp.get("save_sensitive", False))
    return oracle(rec, inp, inp.get("stale") or [])
