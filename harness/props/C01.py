"""C01 (order) and C02 (exactly once): shared exploration of the `next`
algorithm.  Implementation = PcfgGrammar + PcfgQueue of /repo, model = Next.v."""
import json

import common
import impl_next
import rulesets

ID = "C01"
TRUSTED = ["harness/translate_kernel.py: fail-closed ast translator of _find_prob / _are_you_my_child / find_children / "
           "is_parent_around / _recursive_restore_prob_order / initalize_base_structures (other methods of the class they call are inlined) into gen/Kernel_gen.v (accepted subset and "
           "conventions in its header; out-of-range subscripts = the parameters undef_prob/undef_node), and the runtime KernelRt.v it targets",
           __import__("queue_tie").TRUSTED,
           "CPython heapq returns a minimal element w.r.t. QueueItem.__lt__ (queue contract pop_ok)",
           "tables handed to the model are the ones the real loader produced (the loader's own model: C07/C14)"]
ASSUMES = ["ruleset well-formed (wf): group probabilities in [0,1], listed non-increasing, base probabilities finite >= 0"]

FLAGSETS = [(False, False, "Grammar"), (True, False, "Grammar"), (False, True, "Grammar"),
            (True, True, "Grammar"), (False, False, "Prince"), (False, True, "Prince")]
# the family built for the guess level: mostly with the capitalisation masks in force
FAM_FLAGSETS = [(False, False, "Grammar")] * 4 + [(True, False, "Grammar")] * 3 + [(False, False, "Prince")] * 2 + [(False, True, "Grammar")]
REPLAY_GUESS_CAP = 300000


def explore(ctx, which):
    n = ctx.scale(150, 2500)
    # C02 only: the GUESS level (guess_level.py) - for every ruleset whose files define at most guess_cap derivations every popped
    # pre-terminal is expanded by the real create_guesses and the multiset of all guesses of the run is compared with the derivations
    # of the files; and n_fam further SMALL rulesets built for that level (letters without case under a U, no all-lower mask, duplicate
    # base-structure lines), drawn after the others so that those are the ones that were always drawn
    n_fam = ctx.scale(120, 1500) if which == "C02" else 0
    guess_cap = ctx.scale(3000, 12000) if which == "C02" else 0
    expansions = []
    sc = common.scratch()
    cases, samples, vio = [], [], []
    seen, nontrivial = set(), 0
    dist = {"rulesets": 0, "preterminals": 0, "with_ties": 0, "repeated_type": 0, "single_group_var": 0,
            "capped": 0, "load_rejected": 0, "flags": {}}
    for k in range(n + n_fam):
        fam = k >= n
        if fam:
            import guess_level
            rs = guess_level.gen_caseless_ruleset(ctx.rng)
            sb, scs, folder = ctx.rng.choice(FAM_FLAGSETS)
            tr = guess_level.traits(rs, scs)
            dist["caseless_family"] = dist.get("caseless_family", 0) + 1
            dist["caseless_family_caseless_letter_under_U"] = dist.get("caseless_family_caseless_letter_under_U", 0) + tr[0]
            dist["caseless_family_no_all_lower_mask"] = dist.get("caseless_family_no_all_lower_mask", 0) + tr[1]
            dist["caseless_family_duplicate_base_line"] = dist.get("caseless_family_duplicate_base_line", 0) + tr[2]
        else:
            rs = (rulesets.gen_near_tie_ruleset(ctx.rng) if k % 10 == 3 else rulesets.gen_close_lines_ruleset(ctx.rng) if k % 10 == 7
                  else rulesets.gen_ruleset(ctx.rng))
            sb, scs, folder = ctx.rng.choice(FLAGSETS)
            if k % 10 == 5:
                # --skip_brute on a ruleset whose Markov line carries a probability that Python prints in exponent notation
                # (a ruleset trained with a coverage close to 1) or with many digits: the rescaling divides by 1 - that number
                rs = rulesets.gen_ruleset(ctx.rng, with_markov=True)
                pm = ctx.rng.choice([1.9999999999935525e-05, 1e-07, 3e-300, 5e-324, 0.09999999999999999, 1e-05])
                rs["grammar"] = [(s_, pm if s_ == "M" else p_) for s_, p_ in rs["grammar"]]
                if len(rs["grammar"]) > 1 and rs["grammar"][0][0] == "M" and ctx.rng.random() < 0.5:
                    rs["grammar"] = rs["grammar"][1:] + rs["grammar"][:1]
                sb, folder = True, "Grammar"
                dist["skip_brute_exponent_markov_family"] = dist.get("skip_brute_exponent_markov_family", 0) + 1
        qsize = [None, None, 2, 6, 16][k % 5]
        dist["near_tie_family"] = dist.get("near_tie_family", 0) + (k % 10 == 3 and not fam)
        dist["close_adjacent_lines_family"] = dist.get("close_adjacent_lines_family", 0) + (k % 10 == 7 and not fam)
        dist["small_max_queue_size"] = dist.get("small_max_queue_size", 0) + (qsize is not None)
        try:
            g = impl_next.load_grammar(rs, sc, sb, scs, folder)
        except Exception:
            dist["load_rejected"] += 1
            continue
        replay = {"ruleset": rs, "skip_brute": sb, "skip_case": scs, "folder": folder, "queue_size": qsize}
        try:
            items, problems, capped, q = impl_next.full_stream(g, cap=ctx.scale(600, 3000), queue_size=qsize)
        except Exception as e:
            # the implementation itself fails on a well-formed ruleset: nothing is emitted from here on
            vio.append({"sig": "%s:raised:%s" % (which, type(e).__name__),
                        "what": "PcfgQueue.next() raised %s: %s on a well-formed ruleset (the remaining pre-terminals are never emitted)" % (type(e).__name__, e),
                        "replay": replay})
            dist["raised"] = dist.get("raised", 0) + 1
            continue
        if capped:
            dist["capped"] += 1
            continue
        dist["rulesets"] += 1
        dist["preterminals"] += len(items)
        fk = "%s%s%s" % ("B" if sb else "-", "L" if scs else "-", folder[0])
        dist["flags"][fk] = dist["flags"].get(fk, 0) + 1
        vm, table, bases = rulesets.model_tables(g)
        canon = json.dumps([table, bases])
        probs = [it["prob"] for it in items]
        ties = len(probs) != len(set(probs))
        rep = any(len(set(b[1])) < len(b[1]) for b in bases)
        single = any(len(r) == 1 for r in table)
        dist["with_ties"] += ties
        dist["repeated_type"] += rep
        dist["single_group_var"] += single
        if canon not in seen:
            seen.add(canon)
            if ties or rep or single:
                nontrivial += 1
        vio += oracle(which, g, items, problems, replay, guess_cap, dist, expansions)
        # determinism inside one process: a second queue gives the identical sequence
        items2, _, _, _ = impl_next.full_stream(g, cap=len(items) + 5, check_heap=False)
        if [impl_next.key(i) for i in items2] != [impl_next.key(i) for i in items]:
            vio.append({"sig": "C01:nondeterministic", "what": "two runs over the same grammar differ", "replay": replay})
        cases.append((impl_next.coq_rs(table, bases),
                      common.clist([impl_next.coq_obs(vm, it) for it in items]) if items else "(@nil obs)", replay))
        if len(samples) < 3:
            samples.append({"flags": fk, "bases": [(b["prob"], b["replacements"]) for b in g.base],
                            "first": [(i["pt"], i["prob"]) for i in items[:4]], "n": len(items)})
        # "same directory, later load": for every fifth ruleset (thorough: every third) the life of the directory goes on
        if k % ctx.scale(5, 3) == 1:
            vio += history_run(ctx, which, rs, (sb, scs, folder), sc, dist, guess_cap=guess_cap)
    # correspondence: shards of <= 40 rulesets
    shards = []
    per = 25
    for s in range(0, len(cases), per):
        chunk = cases[s:s + per]
        src = ["From Coq Require Import List Floats.", "From Pcfg Require Import ProbAlg F64 Next NextSpec Corr.",
               "Import ListNotations.", "Open Scope float_scope.",
               "Definition cases : list (ruleset F64 * list obs) := ["]
        src.append(";\n".join("(%s,\n %s)" % (a, b) for a, b, _ in chunk))
        src.append("].")
        src.append("Eval vm_compute in (failing (fun c => check_run (fst c) (snd c)) cases).")
        shards.append(("s%04d" % (s // per), "\n".join(src)))
    # C02: the expansions of the guess level also go to the Coq expansion model (Expand.v, as in the C04 shards)
    xshards = []
    if expansions:
        import guess_level
        xshards = guess_level.expand_shards(expansions, ctx.scale(900, 8000))
        dist["guess_level_preterminals_in_expand_model"] = sum(len(t) for _, _, t in xshards)
    corr = []
    results = dict((name, (idx, log)) for name, idx, log in common.run_case_shards(which, shards + [(nm, src) for nm, src, _ in xshards]))
    for (name, _), s in zip(shards, range(0, len(cases), per)):
        idx, log = results.get(name, (None, "shard was not run"))
        if idx is None:
            corr.append(("next-run:" + name, False, log[-800:]))
        elif idx:
            corr.append(("next-run:" + name, False, "model and implementation streams differ for cases %s; first: %s"
                         % (idx, json.dumps(cases[s + idx[0]][2])[:600])))
        else:
            corr.append(("next-run:" + name, True, ""))
    for name, _, texts in xshards:
        idx, log = results.get(name, (None, "shard was not run"))
        if idx is None:
            corr.append(("expand-guesses:" + name, False, log[-800:]))
        elif idx:
            corr.append(("expand-guesses:" + name, False, "Expand.v and create_guesses differ on %d emitted pre-terminals; first (loaded groups): %s"
                         % (len(idx), texts[idx[0]])))
        else:
            corr.append(("expand-guesses:" + name, True, ""))
    import kernel_tie
    corr.append(kernel_tie.obligation())
    import queue_tie
    corr.append(queue_tie.obligation())
    rule = ("random rulesets (1-4 base structures + duplicates, 1-5 positions, types drawn with repetition, 1-5 "
            "probability groups per variable, probabilities from a pool built to collide: ties, dyadics, one-ulp "
            "neighbours, subnormals, 0.0, 1.0; every tenth ruleset from the near-tie family: three or four two-group variables whose "
            "probability ratios agree to 9-16 digits without being equal), each under one of 6 flag sets; in 3 of 5 runs the queue's "
            "existing max_queue_size attribute is set to 2/6/16; run to exhaustion; non-trivial = has two "
            "pre-terminals of equal probability, a repeated type in a structure, or a one-group variable; distinct by "
            "loaded tables; for every fifth ruleset (thorough: every third) a HISTORY of 2-4 loads of the SAME directory "
            "(impl_next.History): same files under other flags, in-place edits that keep the uuid (base structure dropped, "
            "grammar.txt / a terminal file re-weighted, value added or removed, grammar.txt as the real edit_rules.py leaves it), "
            "a re-training look, a plain second session; the oracles run after every step against the files as they are then "
            "(C01 also: base probabilities are lines of grammar.txt, same stream as from a fresh directory, same tables as in a fresh process)")
    if which == "C02":
        rule += ("; GUESS LEVEL (harness/guess_level.py): for every run above (histories included: after every step) whose ruleset files define at "
                 "most %d derivations every popped pre-terminal is expanded by the real create_guesses and the multiset of ALL guesses of the run "
                 "must equal the derivations of the FILES - per line of <folder>/grammar.txt every line of every variable's file, A<n> x every "
                 "mask of Capitalization/<n>.txt applied letter by letter with str.upper() (the one all-lower mask under all_lower), M = every "
                 "listed level x omen_gen.brute_levels of the Omen files (dropped under skip_brute) - one guess per derivation even when two "
                 "derivations spell the same string; plus %d SMALL rulesets built for that level (gen_caseless_ruleset: Hebrew / Arabic / CJK / "
                 "Thai / Devanagari and partly cased words beside cased ones, masks with U on letters without case, the all-lower mask absent for "
                 "about half of the lengths, a duplicate base-structure line in 60%%, a Markov line in 25%%; counted in dist caseless_family_*); "
                 "the same expansions (pre-terminals with a U mask first, Markov left out) are checked against Expand.v by coqc (expand-guesses:*)"
                 % (guess_cap, n_fam))
    return {"evaluations": dist["rulesets"], "distinct_nontrivial": nontrivial, "rule": rule, "samples": samples,
            "corr": corr, "violations": vio, "dist": dist}


def history_run(ctx, which, rs, flags, sc, dist, steps=None, guess_cap=0):
    """A history on ONE ruleset directory (impl_next.History / HistoryGen): after the first load 1-3 further steps - the same files
    under other flags, an in-place edit that keeps the uuid (a base structure dropped, grammar.txt or a terminal file re-weighted,
    a value added or removed, grammar.txt as the real edit_rules.py leaves it) loaded under flags used before, a re-training
    look (everything replaced, new uuid), or simply a second session.  After EVERY step the directory is loaded by the real
    PcfgGrammar in this process, run to exhaustion, and the oracles of the property are applied against the files AS THEY ARE
    NOW; for C01 (the sequence is a function of ruleset and flags) the stream is also compared with the one of the same files
    written to a fresh directory, and at the last step the loaded tables with those a fresh python process loads.
    steps: the recorded steps of a replay."""
    import time
    vio, t0 = [], time.time()
    h = impl_next.History(sc)
    hg = None if steps is not None else impl_next.HistoryGen(ctx.rng, rs, flags)
    n = len(steps) if steps is not None else ctx.rng.choice([2, 3, 3, 4])
    done = []
    dist["histories"] = dist.get("histories", 0) + 1
    for k in range(n):
        st = steps[k] if steps is not None else (hg.first() if k == 0 else hg.next(h.current))
        done.append(st)
        now = h.write(st)
        sb, scs, folder = bool(st.get("skip_brute")), bool(st.get("skip_case")), st.get("folder", "Grammar")
        replay = {"ruleset": now, "skip_brute": sb, "skip_case": scs, "folder": folder, "history": list(done), "step": k}
        dist["history_steps"] = dist.get("history_steps", 0) + 1
        dist.setdefault("history_edits", {})
        dist["history_edits"][st.get("edit", "?")] = dist["history_edits"].get(st.get("edit", "?"), 0) + 1
        try:
            g = h.load(st)
        except Exception:
            g = None
        g0 = None
        if which == "C01":
            try:
                g0 = impl_next.load_grammar(now, sc, sb, scs, folder)
            except Exception:
                g0 = None
            if (g is None) != (g0 is None):
                vio.append({"sig": "C01:nondeterministic:history", "what": "step %d (%s) of a history on one ruleset directory: the load %s, the same "
                            "files in a fresh directory %s" % (k, st.get("edit"), "fails" if g is None else "works", "fail" if g0 is None else "load"),
                            "replay": replay})
                break
        if g is None:
            dist["history_load_rejected"] = dist.get("history_load_rejected", 0) + 1
            continue
        try:
            items, problems, capped, q = impl_next.full_stream(g, cap=ctx.scale(600, 3000))
        except Exception as e:
            vio.append({"sig": "%s:raised:%s" % (which, type(e).__name__),
                        "what": "PcfgQueue.next() raised %s: %s at step %d (%s) of a history on one ruleset directory" % (type(e).__name__, e, k, st.get("edit")),
                        "replay": replay})
            break
        if capped:
            continue
        v = oracle(which, g, items, problems, replay, guess_cap, dist)
        for x in v:
            x["what"] = "step %d (%s) of a history on one ruleset directory: %s" % (k, st.get("edit"), x["what"])
        vio += v
        if which == "C01" and not v:
            items0, _, _, _ = impl_next.full_stream(g0, cap=len(items) + 5, check_heap=False)
            if [impl_next.key(i) for i in items0] != [impl_next.key(i) for i in items]:
                d = next((j for j, (a, b) in enumerate(zip(items, items0)) if impl_next.key(a) != impl_next.key(b)), min(len(items), len(items0)))
                vio.append({"sig": "C01:nondeterministic:history", "what": "step %d (%s) of a history on one ruleset directory: the emitted sequence "
                            "(%d pre-terminals) is not the one the same files and flags give in a fresh directory (%d); first difference at %d"
                            % (k, st.get("edit"), len(items), len(items0), d), "replay": dict(replay, index=d)})
            elif k == n - 1 and (steps is not None or dist["histories"] % 2 == 0):
                dist["history_child_loads"] = dist.get("history_child_loads", 0) + 1
                if h.load_child(st) != impl_next.tables_of(g):
                    vio.append({"sig": "C01:nondeterministic:history", "what": "step %d (%s) of a history on one ruleset directory: the tables loaded "
                                "in this process differ from those a fresh python process loads from the same directory under the same flags"
                                % (k, st.get("edit")), "replay": replay})
        if v:
            break
    dist["history_seconds"] = round(dist.get("history_seconds", 0) + time.time() - t0, 2)
    return vio


def oracle(which, g, items, problems, replay, guess_cap=0, dist=None, keep=None):
    """guess_cap (C02): judge the GUESS level too when the files' language has at most that many derivations (guess_level.py);
    keep: list that receives the per-pre-terminal expansions (for the Coq expansion model)"""
    vio = []
    if which == "C01":
        for i in range(1, len(items)):
            if items[i]["prob"] > items[i - 1]["prob"]:
                vio.append({"sig": "C01:order", "what": "pre-terminal %d has probability %r > %r of its predecessor"
                            % (i, items[i]["prob"], items[i - 1]["prob"]), "replay": dict(replay, index=i)})
                break
        for i, it in enumerate(items):
            p = it["base_prob"]
            for t, ix in it["pt"]:
                p *= g.grammar[t][ix]["prob"]
            if p.hex() != it["prob"].hex():
                vio.append({"sig": "C01:product", "what": "reported probability %r is not the left-to-right product %r for %r"
                            % (it["prob"], p, it["pt"]), "replay": dict(replay, index=i)})
                break
        # ... and the terminal probabilities are those of the ruleset FILES: every value of a chosen group stands in its file
        # with exactly the probability the group carries (a loader that merges "close" lines emits the less probable values too early)
        rs_ = replay.get("ruleset") if isinstance(replay, dict) else None
        if rs_:
            filep, bad = {}, None
            for name, lines in rs_["files"].items():
                for v, p_ in lines:
                    filep.setdefault(name, {}).setdefault(v, []).append(float(p_))
            flags_ = [replay.get("skip_brute", False), replay.get("skip_case", False), replay.get("folder", "Grammar")]
            for i, it in enumerate(items):
                for t, ix in it["pt"]:
                    if t[0] == "M" or t not in filep or (t[0] == "C" and flags_[1]):
                        continue
                    grp = g.grammar[t][ix]
                    for v in grp["values"]:
                        if filep[t].get(v) != [grp["prob"]]:
                            bad = (i, t, ix, v, filep[t].get(v), grp["prob"])
                            break
                    if bad:
                        break
                if bad:
                    break
            if bad:
                vio.append({"sig": "C01:product:file", "what": "pre-terminal %d uses group %s[%d] with probability %r, but its value %r stands in "
                            "the ruleset file with probability %r: the guesses built from it are emitted at the wrong place of the order"
                            % (bad[0], bad[1], bad[2], bad[5], bad[3], bad[4]), "replay": dict(replay, index=bad[0])})
        # ... and the base-structure probability is the one of the ruleset FILES: (base_prob, labels) of every emitted pre-terminal is a
        # line of <folder>/grammar.txt (rescaled by 1/(1-P(M)) under skip_brute) as it is NOW
        if rs_:
            fb = impl_next.file_bases(rs_, flags_[0], flags_[2])
            if fb is not None:
                have = set((float(p_).hex(), tuple(n_)) for p_, n_ in fb)
                for i, it in enumerate(items):
                    if (it["base_prob"].hex(), tuple(t for t, _ in it["pt"])) not in have:
                        vio.append({"sig": "C01:product:base-file", "what": "pre-terminal %d is built on base structure %s with probability %r, which is "
                                    "no line of the ruleset's %s/grammar.txt (it has %r)" % (i, "".join(t for t, _ in it["pt"] if t[0] != "C"),
                                    it["base_prob"], flags_[2], [("".join(x for x in n_ if x[0] != "C"), p_) for p_, n_ in fb][:6]),
                                    "replay": dict(replay, index=i)})
                        break
        for kind, i in problems:
            vio.append({"sig": "C01:" + kind, "what": "%s after pop %d" % (kind, i), "replay": dict(replay, index=i)})
            break
    else:
        # the ruleset files' own grid (what the loader made of them is not taken on trust)
        rs_, fl = replay.get("ruleset"), (replay.get("skip_brute", False), replay.get("skip_case", False), replay.get("folder", "Grammar"))
        if rs_ is not None:
            from collections import Counter
            grid = impl_next.independent_grid(rs_, fl[0], fl[1], fl[2], len(g.grammar.get("M", [])))
            got_pt = Counter(tuple(tuple(x) for x in i["pt"]) for i in items)
            if grid != got_pt:
                miss = list((grid - got_pt).elements())[:3]
                extra = list((got_pt - grid).elements())[:3]
                vio.append({"sig": "C02:missing" if miss else "C02:repeated",
                            "what": "emitted pre-terminals differ from the grid the ruleset files define (base structures x one group per "
                                    "variable): missing %r, extra/repeated %r" % (miss, extra), "replay": replay})
        want = sorted(impl_next.key(i) for i in impl_next.product_enumeration(g))
        got = sorted(impl_next.key(i) for i in items)
        if want != got:
            from collections import Counter
            cw, cg = Counter(want), Counter(got)
            missing = list((cw - cg).elements())[:3]
            extra = list((cg - cw).elements())[:3]
            sig = "C02:missing" if missing else "C02:repeated"
            vio.append({"sig": sig, "what": "emitted multiset differs from the grid: missing %r, extra/repeated %r"
                        % (missing, extra), "replay": replay})
        # ... and the property's last clause, at the level of the GUESSES: every popped pre-terminal expanded by the real
        # create_guesses, all lines of the run as one multiset = the derivations the ruleset FILES define, one guess per derivation
        if guess_cap and not vio and rs_ is not None:
            import guess_level
            v, per = guess_level.oracle(g, items, replay, guess_cap, dist)
            vio += v
            if keep is not None and per:
                keep.append((g, per))
    return vio


def run(ctx):
    return explore(ctx, "C01")


def replay(ctx, data):
    inp = data.get("input") or {}
    if "ruleset" not in inp:
        return []
    sc = common.scratch()
    if inp.get("history"):
        return history_run(ctx, ctx.prop, None, None, sc, {}, steps=inp["history"], guess_cap=REPLAY_GUESS_CAP if ctx.prop == "C02" else 0)
    g = impl_next.load_grammar(inp["ruleset"], sc, inp.get("skip_brute", False), inp.get("skip_case", False),
                               inp.get("folder", "Grammar"))
    try:
        items, problems, capped, q = impl_next.full_stream(g, cap=100000, queue_size=inp.get("queue_size"))
    except Exception as e:
        return [{"sig": "%s:raised:%s" % (ctx.prop, type(e).__name__), "what": "PcfgQueue.next() raised %s: %s" % (type(e).__name__, e), "replay": inp}]
    return oracle(ctx.prop, g, items, problems, inp, REPLAY_GUESS_CAP if ctx.prop == "C02" else 0)
