"""C01 (order) and C02 (exactly once): shared exploration of the `next`
algorithm.  Implementation = PcfgGrammar + PcfgQueue of /repo, model = Next.v."""
import json

import common
import impl_next
import rulesets

ID = "C01"
TRUSTED = ["harness/translate_kernel.py: fail-closed ast translator of _find_prob / _are_you_my_child / find_children / "
           "is_parent_around / _recursive_restore_prob_order / initalize_base_structures (other methods of the class they call are inlined) into gen/Kernel_gen.v (accepted subset and "
           "conventions in its header; out-of-range subscripts = the parameters undef_prob/undef_node), and the runtime KernelRt.v it targets",
           __import__("queue_tie").TRUSTED,
           "CPython heapq returns a minimal element w.r.t. QueueItem.__lt__ (queue contract pop_ok)",
           "tables handed to the model are the ones the real loader produced (the loader's own model: C07/C14)"]
ASSUMES = ["ruleset well-formed (wf): group probabilities in [0,1], listed non-increasing, base probabilities finite >= 0"]

FLAGSETS = [(False, False, "Grammar"), (True, False, "Grammar"), (False, True, "Grammar"),
            (True, True, "Grammar"), (False, False, "Prince"), (False, True, "Prince")]


def explore(ctx, which):
    n = ctx.scale(150, 2500)
    sc = common.scratch()
    cases, samples, vio = [], [], []
    seen, nontrivial = set(), 0
    dist = {"rulesets": 0, "preterminals": 0, "with_ties": 0, "repeated_type": 0, "single_group_var": 0,
            "capped": 0, "load_rejected": 0, "flags": {}}
    for k in range(n):
        rs = (rulesets.gen_near_tie_ruleset(ctx.rng) if k % 10 == 3 else rulesets.gen_close_lines_ruleset(ctx.rng) if k % 10 == 7
              else rulesets.gen_ruleset(ctx.rng))
        sb, scs, folder = ctx.rng.choice(FLAGSETS)
        qsize = [None, None, 2, 6, 16][k % 5]
        dist["near_tie_family"] = dist.get("near_tie_family", 0) + (k % 10 == 3)
        dist["close_adjacent_lines_family"] = dist.get("close_adjacent_lines_family", 0) + (k % 10 == 7)
        dist["small_max_queue_size"] = dist.get("small_max_queue_size", 0) + (qsize is not None)
        try:
            g = impl_next.load_grammar(rs, sc, sb, scs, folder)
        except Exception:
            dist["load_rejected"] += 1
            continue
        replay = {"ruleset": rs, "skip_brute": sb, "skip_case": scs, "folder": folder, "queue_size": qsize}
        try:
            items, problems, capped, q = impl_next.full_stream(g, cap=ctx.scale(600, 3000), queue_size=qsize)
        except Exception as e:
            # the implementation itself fails on a well-formed ruleset: nothing is emitted from here on
            vio.append({"sig": "%s:raised:%s" % (which, type(e).__name__),
                        "what": "PcfgQueue.next() raised %s: %s on a well-formed ruleset (the remaining pre-terminals are never emitted)" % (type(e).__name__, e),
                        "replay": replay})
            dist["raised"] = dist.get("raised", 0) + 1
            continue
        if capped:
            dist["capped"] += 1
            continue
        dist["rulesets"] += 1
        dist["preterminals"] += len(items)
        fk = "%s%s%s" % ("B" if sb else "-", "L" if scs else "-", folder[0])
        dist["flags"][fk] = dist["flags"].get(fk, 0) + 1
        vm, table, bases = rulesets.model_tables(g)
        canon = json.dumps([table, bases])
        probs = [it["prob"] for it in items]
        ties = len(probs) != len(set(probs))
        rep = any(len(set(b[1])) < len(b[1]) for b in bases)
        single = any(len(r) == 1 for r in table)
        dist["with_ties"] += ties
        dist["repeated_type"] += rep
        dist["single_group_var"] += single
        if canon not in seen:
            seen.add(canon)
            if ties or rep or single:
                nontrivial += 1
        vio += oracle(which, g, items, problems, replay)
        # determinism inside one process: a second queue gives the identical sequence
        items2, _, _, _ = impl_next.full_stream(g, cap=len(items) + 5, check_heap=False)
        if [impl_next.key(i) for i in items2] != [impl_next.key(i) for i in items]:
            vio.append({"sig": "C01:nondeterministic", "what": "two runs over the same grammar differ", "replay": replay})
        cases.append((impl_next.coq_rs(table, bases),
                      common.clist([impl_next.coq_obs(vm, it) for it in items]) if items else "(@nil obs)", replay))
        if len(samples) < 3:
            samples.append({"flags": fk, "bases": [(b["prob"], b["replacements"]) for b in g.base],
                            "first": [(i["pt"], i["prob"]) for i in items[:4]], "n": len(items)})
    # correspondence: shards of <= 40 rulesets
    shards = []
    per = 25
    for s in range(0, len(cases), per):
        chunk = cases[s:s + per]
        src = ["From Coq Require Import List Floats.", "From Pcfg Require Import ProbAlg F64 Next NextSpec Corr.",
               "Import ListNotations.", "Open Scope float_scope.",
               "Definition cases : list (ruleset F64 * list obs) := ["]
        src.append(";\n".join("(%s,\n %s)" % (a, b) for a, b, _ in chunk))
        src.append("].")
        src.append("Eval vm_compute in (failing (fun c => check_run (fst c) (snd c)) cases).")
        shards.append(("s%04d" % (s // per), "\n".join(src)))
    corr = []
    results = common.run_case_shards(which, shards)
    for (name, idx, log), s in zip(results, range(0, len(cases), per)):
        if idx is None:
            corr.append(("next-run:" + name, False, log[-800:]))
        elif idx:
            corr.append(("next-run:" + name, False, "model and implementation streams differ for cases %s; first: %s"
                         % (idx, json.dumps(cases[s + idx[0]][2])[:600])))
        else:
            corr.append(("next-run:" + name, True, ""))
    import kernel_tie
    corr.append(kernel_tie.obligation())
    import queue_tie
    corr.append(queue_tie.obligation())
    rule = ("random rulesets (1-4 base structures + duplicates, 1-5 positions, types drawn with repetition, 1-5 "
            "probability groups per variable, probabilities from a pool built to collide: ties, dyadics, one-ulp "
            "neighbours, subnormals, 0.0, 1.0; every tenth ruleset from the near-tie family: three or four two-group variables whose "
            "probability ratios agree to 9-16 digits without being equal), each under one of 6 flag sets; in 3 of 5 runs the queue's "
            "existing max_queue_size attribute is set to 2/6/16; run to exhaustion; non-trivial = has two "
            "pre-terminals of equal probability, a repeated type in a structure, or a one-group variable; distinct by "
            "loaded tables")
    return {"evaluations": dist["rulesets"], "distinct_nontrivial": nontrivial, "rule": rule, "samples": samples,
            "corr": corr, "violations": vio, "dist": dist}


def oracle(which, g, items, problems, replay):
    vio = []
    if which == "C01":
        for i in range(1, len(items)):
            if items[i]["prob"] > items[i - 1]["prob"]:
                vio.append({"sig": "C01:order", "what": "pre-terminal %d has probability %r > %r of its predecessor"
                            % (i, items[i]["prob"], items[i - 1]["prob"]), "replay": dict(replay, index=i)})
                break
        for i, it in enumerate(items):
            p = it["base_prob"]
            for t, ix in it["pt"]:
                p *= g.grammar[t][ix]["prob"]
            if p.hex() != it["prob"].hex():
                vio.append({"sig": "C01:product", "what": "reported probability %r is not the left-to-right product %r for %r"
                            % (it["prob"], p, it["pt"]), "replay": dict(replay, index=i)})
                break
        # ... and the terminal probabilities are those of the ruleset FILES: every value of a chosen group stands in its file
        # with exactly the probability the group carries (a loader that merges "close" lines emits the less probable values too early)
        rs_ = replay.get("ruleset") if isinstance(replay, dict) else None
        if rs_:
            filep, bad = {}, None
            for name, lines in rs_["files"].items():
                for v, p_ in lines:
                    filep.setdefault(name, {}).setdefault(v, []).append(float(p_))
            flags_ = [replay.get("skip_brute", False), replay.get("skip_case", False), replay.get("folder", "Grammar")]
            for i, it in enumerate(items):
                for t, ix in it["pt"]:
                    if t[0] == "M" or t not in filep or (t[0] == "C" and flags_[1]):
                        continue
                    grp = g.grammar[t][ix]
                    for v in grp["values"]:
                        if filep[t].get(v) != [grp["prob"]]:
                            bad = (i, t, ix, v, filep[t].get(v), grp["prob"])
                            break
                    if bad:
                        break
                if bad:
                    break
            if bad:
                vio.append({"sig": "C01:product:file", "what": "pre-terminal %d uses group %s[%d] with probability %r, but its value %r stands in "
                            "the ruleset file with probability %r: the guesses built from it are emitted at the wrong place of the order"
                            % (bad[0], bad[1], bad[2], bad[5], bad[3], bad[4]), "replay": dict(replay, index=bad[0])})
        for kind, i in problems:
            vio.append({"sig": "C01:" + kind, "what": "%s after pop %d" % (kind, i), "replay": dict(replay, index=i)})
            break
    else:
        # the ruleset files' own grid (what the loader made of them is not taken on trust)
        rs_, fl = replay.get("ruleset"), (replay.get("skip_brute", False), replay.get("skip_case", False), replay.get("folder", "Grammar"))
        if rs_ is not None:
            from collections import Counter
            grid = impl_next.independent_grid(rs_, fl[0], fl[1], fl[2], len(g.grammar.get("M", [])))
            got_pt = Counter(tuple(tuple(x) for x in i["pt"]) for i in items)
            if grid != got_pt:
                miss = list((grid - got_pt).elements())[:3]
                extra = list((got_pt - grid).elements())[:3]
                vio.append({"sig": "C02:missing" if miss else "C02:repeated",
                            "what": "emitted pre-terminals differ from the grid the ruleset files define (base structures x one group per "
                                    "variable): missing %r, extra/repeated %r" % (miss, extra), "replay": replay})
        want = sorted(impl_next.key(i) for i in impl_next.product_enumeration(g))
        got = sorted(impl_next.key(i) for i in items)
        if want != got:
            from collections import Counter
            cw, cg = Counter(want), Counter(got)
            missing = list((cw - cg).elements())[:3]
            extra = list((cg - cw).elements())[:3]
            sig = "C02:missing" if missing else "C02:repeated"
            vio.append({"sig": sig, "what": "emitted multiset differs from the grid: missing %r, extra/repeated %r"
                        % (missing, extra), "replay": replay})
    return vio


def run(ctx):
    return explore(ctx, "C01")


def replay(ctx, data):
    inp = data.get("input") or {}
    if "ruleset" not in inp:
        return []
    sc = common.scratch()
    g = impl_next.load_grammar(inp["ruleset"], sc, inp.get("skip_brute", False), inp.get("skip_case", False),
                               inp.get("folder", "Grammar"))
    try:
        items, problems, capped, q = impl_next.full_stream(g, cap=100000, queue_size=inp.get("queue_size"))
    except Exception as e:
        return [{"sig": "%s:raised:%s" % (ctx.prop, type(e).__name__), "what": "PcfgQueue.next() raised %s: %s" % (type(e).__name__, e), "replay": inp}]
    return oracle(ctx.prop, g, items, problems, inp)
