"""C18: the saved OMEN keyspace is what a level really produces.

Implementation: calc_omen_keyspace / _rec_calc_keyspace of the real trainer on
in-process trained tables (default bounds as run_trainer.py calls it, then again
on the warm cache and on a cold copy with a small max_keyspace so that the
cut-off branch runs), omen_keyspace.txt / pcfg_omen_prob.txt written by the real
writer, against the number of DISTINCT strings the real MarkovCracker emits per
target level on the loaded directory.  Model: OmenKeyspace.v."""
import json
import os

import common
import omen_level as ol

ID = "C18"
TRUSTED = [
    "levels produced by smoothing are taken as given; files modelled as line lists (see C11)",
    "int/int and float/int true division of CPython = binary64 division of the converted operands (operands < 2^53), "
    "exercised on every probability written",
    "Print Assumptions lists Coq's primitive float / int63 operations (div, of_uint63, ...) for C18_prob: primitives of "
    "the kernel, not logical axioms",
    "the two comparisons of calc_omen_keyspace the model is parameterised by (IP guard, length skip) are read off the "
    "TRANSLATION of calc_omen_keyspace on every run, the default bounds off its def line (harness/consts/omen_level.py, "
    "fail closed), and pinned by side-condition lemmas in Props/C18.v; the formula written to pcfg_omen_prob.txt is "
    "tied by the translation of save_omen_rules_to_disk (harness/translate_omen_trainer.py -> gen/OmenTrainerOut_gen.v, equal to "
    "OmenTrainer.save_rules whose probability loop is proved to be omen_prob: C18_source_prob_loop_is_model); the shape of the translated functions themselves is no "
    "longer string-matched: the translation + equality proofs carry that tie",
    "harness/translate_omen_level.py: fail-closed ast translator of _rec_calc_keyspace and calc_omen_keyspace into "
    "gen/OmenKeyspace_gen.v (accepted subset and the representation of Python values in its header: ints as Z, the trainer "
    "object as the model's record plus the nested keyspace_cache dicts threaded explicitly, collections.Counter as an "
    "association list, fuel for the recursion; print is dropped), and the runtime OmenRt.v it targets",
]
ASSUMES = [
    "wf_ttab, closed, levels_le 10 (trainer table invariants, checked on every generated table)",
    "the level is listed and its keyspace did not trigger the max_keyspace cut-off (the cut-off level holds a partial count)",
]


def classify(T, L, listed, strings):
    """Which strings of level L does calc_omen_keyspace not count, by the two suspected causes."""
    g = T.trainer.grammar
    ng = T.trainer.ngram
    by_len = [s for s in strings if len(s) == ng]
    # (.get: on a directory whose files do not belong together the guesser emits strings the trainer has no entry for)
    zero_rem = [s for s in strings if len(s) > ng and g.get(s[:ng - 1], {}).get("ip_level") == L]
    return by_len, zero_rem


def keyspace_oracle(T, E, replay_base, dist, pre=""):
    """Per listed level: file value vs number of distinct strings emitted.  pre: inserted after "C18:" in the signatures
    (the oracle on a ruleset name that was trained before: "retrained:")."""
    vio = []
    fk = T.file_keyspace()
    fp = dict(T.file_prob())
    if sorted(fk) != sorted(T.keyspace.items()):
        vio.append({"sig": "C18:" + pre + "file-differs", "what": "omen_keyspace.txt %r is not the Counter calc_omen_keyspace returned %r"
                    % (fk[:5], list(T.keyspace.items())[:5]), "replay": dict(replay_base, level=None)})
    dmax = T.default_max_keyspace
    for L, ks in fk:
        if L not in E or not E[L][1]:
            dist["levels_not_enumerated"] += 1
            continue
        if ks > dmax:
            dist["cutoff_levels"] += 1
            continue
        distinct = E[L][2]
        dist["levels_compared"] += 1
        dist["strings_compared"] += len(distinct)
        if len(E[L][0]) != len(distinct):
            dist["levels_with_duplicates"] += 1
        if ks != len(distinct):
            by_len, zero_rem = classify(T, L, ks, distinct)
            if ks + len(by_len) + len(zero_rem) == len(distinct) and not (by_len and zero_rem):
                kind = "misses-length-eq-ngram" if by_len else "misses-zero-remainder"
            elif ks + len(by_len) + len(zero_rem) == len(distinct):
                kind = "misses-length-eq-ngram+zero-remainder"
            else:
                kind = "mismatch"
            ex = list(dict.fromkeys(by_len + zero_rem + sorted(distinct)))[:3]
            vio.append({"sig": "C18:" + pre + "keyspace-" + kind,
                        "what": "level %d: omen_keyspace.txt says %d, the MarkovCracker emits %d distinct strings "
                                "(%d of length = ngram = %d, %d whose IP level already is the whole level), e.g. %r; ngram %d, "
                                "training list of %d (%s)"
                                % (L, ks, len(distinct), len(by_len), T.trainer.ngram, len(zero_rem), ex, T.trainer.ngram,
                                   len(T.cfg["passwords"]), T.cfg["kind"]),
                        "replay": dict(replay_base, level=L)})
        # probability: (count at level / N) / keyspace, with the keyspace the level really has
        if len(distinct) > 0:
            want = (T.levels_count[L] / T.num_valid) / len(distinct)
            got = fp.get(L)
            if got != want:
                # attributable to the keyspace when that is already wrong
                sig = "C18:" + pre + ("prob-follows-wrong-keyspace" if ks != len(distinct) else "prob-mismatch")
                vio.append({"sig": sig, "what": "level %d: pcfg_omen_prob.txt has %r, (count %d / N %d) / real keyspace %d = %r"
                            % (L, got, T.levels_count[L], T.num_valid, len(distinct), want),
                            "replay": dict(replay_base, level=L)})
        elif L in fp:
            vio.append({"sig": "C18:" + pre + "prob-mismatch", "what": "level %d has a probability %r but produces no string" % (L, fp[L]),
                        "replay": dict(replay_base, level=L)})
    # levels the guesser produces strings for but the trainer does not list (not a violation of the
    # statement, which quantifies over listed levels; measured)
    listed = {L for L, _ in fk}
    for L in E:
        if L >= 1 and E[L][1] and E[L][2] and L not in listed:
            dist["unlisted_levels_with_strings"] += 1
    return vio


def small_cutoff_oracle(T, E, replay_base, dist):
    """calc_omen_keyspace with a small max_keyspace: it must stop at the first level whose count
    exceeds the bound, and every level before it must still be exact."""
    vio = []
    for name, ks in (("warm", T.keyspace_small_warm), ("cold", T.keyspace_small_cold)):
        items = list(ks.items())
        over = [i for i, (L, v) in enumerate(items) if v > T.small_max]
        if over:
            dist["cutoff_runs"] += 1
            if over[0] != len(items) - 1:
                vio.append({"sig": "C18:cutoff-not-last", "what": "max_keyspace=%d (%s cache): levels after the one that "
                            "exceeded the bound are still listed: %r" % (T.small_max, name, items),
                            "replay": dict(replay_base, level=None, max_keyspace=T.small_max)})
        for L, v in items:
            if v <= T.small_max and T.keyspace.get(L) != v:
                vio.append({"sig": "C18:cutoff-changes-count", "what": "max_keyspace=%d (%s cache): level %d has %d, the default "
                            "run %r" % (T.small_max, name, L, v, T.keyspace.get(L)),
                            "replay": dict(replay_base, level=L, max_keyspace=T.small_max)})
    if T.keyspace_small_warm != T.keyspace_small_cold:
        vio.append({"sig": "C18:cache-dependent", "what": "calc_omen_keyspace result depends on the keyspace cache left by an "
                    "earlier call: warm %r, cold %r" % (dict(T.keyspace_small_warm), dict(T.keyspace_small_cold)),
                    "replay": dict(replay_base, level=None, max_keyspace=T.small_max)})
    return vio


def coq_ks(items):
    return common.clist(["(%d%%nat, %d%%N)" % (L, v) for L, v in items]) if items else "(@nil (nat * N))"


def coq_case(T, consts):
    fp = T.file_prob()
    return "(mk_c18case %s\n %s %s %d%%nat %d%%N\n %s\n %d%%N\n %s\n %s\n %s\n %d%%nat\n %s)" % (
        ol.coq_tables(T.tables),
        common.cbool(consts["keyspace_ip_guard_strict"]), common.cbool(consts["keyspace_len_skip_le"]),
        consts["keyspace_default_max_level"], consts["keyspace_default_max_keyspace"][0],
        coq_ks(list(T.keyspace.items())),
        T.small_max, coq_ks(list(T.keyspace_small_warm.items())), coq_ks(list(T.keyspace_small_cold.items())),
        common.clist([common.cstr(p) for p in T.valid]) if T.valid else "(@nil (list N))",
        T.num_valid,
        common.clist(["(%d%%nat, %s)" % (L, common.cfloat(p)) for L, p in fp]) if fp else "(@nil (nat * float))")


def explore(ctx, cfg, sc_dir, idx, budget, dist):
    small = ctx.rng.choice([0, 1, 3, 10, 50, 400])
    T = ol.Trained(cfg, os.path.join(sc_dir, "m%d" % idx), max_keyspace=small)
    if not T.usable:
        return None
    import inspect
    from lib_trainer.omen.evaluate_password import calc_omen_keyspace
    T.default_max_keyspace = inspect.signature(calc_omen_keyspace).parameters["max_keyspace"].default
    replay_base = {"training": cfg}
    G, g_err = T.load_guesser()
    E = {}
    vio = []
    if G is not None:
        listed = sorted(L for L, ks in T.keyspace.items())
        # enumerate the listed levels whose recorded keyspace is small enough (plus a margin for what is missed)
        todo = [L for L in listed if T.keyspace[L] <= budget["cap"] // 2]
        E = ol.enumerate_sets(G, todo, cap=budget["cap"], seconds=budget["per_level"], total_seconds=budget["per_model"])
        for L in list(E):
            if E[L][3]:
                vio.append({"sig": "C18:guesser-raises", "what": "MarkovCracker raises at level %d: %s" % (L, E[L][3]),
                            "replay": dict(replay_base, level=L)})
                E.pop(L)
    else:
        dist["guesser_not_loaded"] += 1
    vio += keyspace_oracle(T, E, replay_base, dist)
    vio += small_cutoff_oracle(T, E, replay_base, dist)
    return T, E, vio


def default_max_keyspace():
    import inspect
    from lib_trainer.omen.evaluate_password import calc_omen_keyspace
    return inspect.signature(calc_omen_keyspace).parameters["max_keyspace"].default


def describe(steps):
    return " then ".join("-n %d -a %d -e %s (%d passwords)" % (c["ngram"], c["alphabet_size"], c["encoding"], len(c["passwords"]))
                         for c in steps)


def compare_with_fresh(retrained_omen, fresh_omen, replay_base, steps, pre):
    """Every file a training into a NEW directory writes must be in the re-trained directory with the same bytes."""
    vio = []
    have, want = ol.omen_files(retrained_omen), ol.omen_files(fresh_omen)
    for name, data in want.items():
        if have.get(name) != data:
            got = have.get(name)
            vio.append({"sig": "C18:%sfile-differs-from-fresh:%s" % (pre, name),
                        "what": "one ruleset name trained %d times (%s): Omen/%s is %r, the same training into a new directory "
                                "writes %r (the guesser reads the level / keyspace / probability files of the ruleset with these settings)"
                                % (len(steps), describe(steps), name, None if got is None else got[:120], data[:120]),
                        "replay": dict(replay_base, level=None)})
    return vio


def history_check(steps, sc_dir, tag, budget, dist, level=None, max_keyspace=None):
    """The real trainer (in-process, as run_trainer drives it) run for every step onto ONE ruleset directory, a guessing
    session between the trainings; then the oracle of the property on the LAST result as it is on disk, and the comparison
    with a training of the last step into a new directory."""
    d = os.path.join(sc_dir, "h" + tag)
    T = None
    for i, cfg in enumerate(steps):
        try:
            T = ol.Trained(cfg, d, max_keyspace=max_keyspace if i == len(steps) - 1 else None)
        except ZeroDivisionError:
            T = None
            continue
        if T.usable and i < len(steps) - 1:
            ol.session_on(T)
    if T is None or not T.usable:
        return None
    T.default_max_keyspace = default_max_keyspace()
    replay_base = {"training": steps[-1], "previous": steps[:-1]}
    pre = "retrained:"
    vio = []
    G, g_err = T.load_guesser()
    E = {}
    if G is None:
        dist["guesser_not_loaded"] += 1
        vio.append({"sig": "C18:%sguesser-cannot-load" % pre, "what": "one ruleset name trained %d times (%s): the guesser cannot load "
                    "the Omen directory: %s" % (len(steps), describe(steps), g_err), "replay": dict(replay_base, level=None)})
    else:
        todo = [level] if level is not None else [L for L in sorted(T.keyspace) if T.keyspace[L] <= budget["cap"] // 2]
        E = ol.enumerate_sets(G, todo, cap=budget["cap"], seconds=budget["per_level"], total_seconds=budget["per_model"])
        for L in list(E):
            if E[L][3]:
                vio.append({"sig": "C18:%sguesser-raises" % pre, "what": "one ruleset name trained %d times (%s): MarkovCracker raises "
                            "at level %d: %s" % (len(steps), describe(steps), L, E[L][3]), "replay": dict(replay_base, level=L)})
                E.pop(L)
    for v in keyspace_oracle(T, E, replay_base, dist, pre):
        v["what"] = "one ruleset name trained %d times (%s), the last result: %s" % (len(steps), describe(steps), v["what"])
        vio.append(v)
    try:
        F = ol.Trained(steps[-1], os.path.join(sc_dir, "f" + tag))
        if F.usable:
            vio += compare_with_fresh(T.omen_dir, F.omen_dir, replay_base, steps, pre)
    except ZeroDivisionError:
        pass
    return T, E, vio


def cli_history_check(items, budget, dist):
    """The same with trainer.py itself: separate processes writing to Rules/<one name> of a scratch copy of the code tree
    (-n / -a / -e / -c differ between the runs), and the last step once more onto a new name."""
    import subprocess
    code = common.copy_code_tree(common.scratch())
    env = common.subenv()
    env["PYTHONPATH"] = code
    sc = common.scratch()

    def start(cfg, name, tf):
        with open(tf, "wb") as f:
            f.write(ol.training_bytes(cfg["passwords"], None, cfg["encoding"]))
        cmd = [common.PY, "trainer.py", "-t", tf, "-r", name, "-e", cfg["encoding"], "-n", str(cfg["ngram"]),
               "-a", str(cfg["alphabet_size"]), "-c", repr(cfg.get("coverage", 0.6))]
        return subprocess.Popen(cmd, cwd=code, env=env, stdin=subprocess.DEVNULL, stdout=subprocess.DEVNULL, stderr=subprocess.PIPE)

    def finish(pr):
        try:
            _, err = pr.communicate(timeout=300)
        except subprocess.TimeoutExpired:
            pr.kill()
            _, err = pr.communicate()
        return pr.returncode, err.decode("utf-8", "replace")[-300:]
    vio = []
    fresh = [start(steps[-1], "F%d" % j, os.path.join(sc, "f%d.txt" % j)) for j, steps in enumerate(items)]
    ok = [True] * len(items)
    for i in range(max(len(s) for s in items) if items else 0):
        procs = [(j, start(steps[i], "H%d" % j, os.path.join(sc, "h%d_%d.txt" % (j, i)))) for j, steps in enumerate(items) if i < len(steps)]
        for j, pr in procs:
            rc, err = finish(pr)
            omen = os.path.join(code, "Rules", "H%d" % j, "Omen")
            if i == len(items[j]) - 1:
                ok[j] = rc == 0 and os.path.isfile(os.path.join(omen, "omen_keyspace.txt"))
            elif os.path.isfile(os.path.join(omen, "config.txt")):
                # a guessing session on the ruleset between the two trainings
                T0 = ol.Trained.__new__(ol.Trained)
                T0.omen_dir, T0.base_dir, T0.cfg = omen, os.path.dirname(omen), items[j][i]
                ol.session_on(T0)
    for j, pr in enumerate(fresh):
        rc, err = finish(pr)
        steps = items[j]
        fomen = os.path.join(code, "Rules", "F%d" % j, "Omen")
        homen = os.path.join(code, "Rules", "H%d" % j, "Omen")
        replay_base = {"training": steps[-1], "previous": steps[:-1], "cli": True}
        pre = "retrained-cli:"
        dist["cli_histories"] += 1
        if rc != 0 or not os.path.isfile(os.path.join(fomen, "omen_keyspace.txt")):
            dist["cli_unusable_lists"] += 1
            continue
        if not ok[j]:
            vio.append({"sig": "C18:%strainer-failed" % pre, "what": "trainer.py onto a ruleset name that was trained before (%s) fails, "
                        "onto a new name it works" % describe(steps), "replay": dict(replay_base, level=None)})
            continue
        vio += compare_with_fresh(homen, fomen, replay_base, steps, pre)
        # the oracle of the property on the re-trained directory as it is on disk (tables / counts from the in-process trainer)
        try:
            T = ol.Trained(steps[-1], os.path.join(sc, "ip%d" % j))
        except ZeroDivisionError:
            continue
        if not T.usable:
            continue
        T.default_max_keyspace = default_max_keyspace()
        T.omen_dir = homen
        G, g_err = T.load_guesser()
        if G is None:
            vio.append({"sig": "C18:%sguesser-cannot-load" % pre, "what": "trainer.py run %d times onto one ruleset name (%s): the guesser "
                        "cannot load the Omen directory: %s" % (len(steps), describe(steps), g_err), "replay": dict(replay_base, level=None)})
            continue
        todo = [L for L in sorted(T.keyspace) if T.keyspace[L] <= budget["cap"] // 2]
        E = ol.enumerate_sets(G, todo, cap=budget["cap"], seconds=budget["per_level"], total_seconds=budget["per_model"])
        E = {L: e for L, e in E.items() if not e[3]}
        for v in keyspace_oracle(T, E, replay_base, dist, pre):
            v["what"] = "trainer.py run %d times onto one ruleset name (%s), the last result: %s" % (len(steps), describe(steps), v["what"])
            vio.append(v)
    return vio


def retrain_histories(ctx, sc_dir, budget, dist, seen):
    """Rulesets with a history: one ruleset name trained two or three times."""
    vio = []
    nontrivial = 0
    n = ctx.scale(24, 300)
    kinds = ["mixed", "big", "len_eq_ngram", "nonascii", "long", "single_len", "dup_heavy", "sparse_alphabet", "non_nfc", "blanks"]
    for i in range(n):
        h = ol.gen_retraining(ctx.rng, kinds[i % len(kinds)] if i < 2 * len(kinds) else None,
                              variant="ngram" if i % 3 == 0 else None)
        small = ctx.rng.choice([0, 1, 3, 10, 50, 400])
        r = history_check(h["steps"], sc_dir, str(i), budget, dist, max_keyspace=small)
        if r is None:
            dist["unusable_histories"] += 1
            continue
        T, E, v = r
        vio += v
        vio += small_cutoff_oracle(T, E, {"training": h["steps"][-1], "previous": h["steps"][:-1]}, dist)
        dist["histories"] += 1
        for var in h["variants"]:
            dist["history_" + var] += 1
        for L in T.keyspace:
            key = ("history", json.dumps(h["steps"], sort_keys=True), L)
            if key not in seen and L in E and E[L][1] and E[L][2]:
                seen.add(key)
                nontrivial += 1
    # trainer.py itself (separate processes)
    items = []
    for j in range(ctx.scale(4, 12)):
        h = ol.gen_retraining(ctx.rng, ["mixed", "big", "long", "nonascii", "dup_heavy"][j % 5], cli=True)
        steps = [dict(c, alphabet_size=max(c["alphabet_size"], 2)) for c in h["steps"]]
        if ctx.rng.random() < 0.4:
            steps[0] = dict(steps[0], coverage=ctx.rng.choice([0.0, 1.0, 0.3]))
        if j == 0:
            steps = [dict(steps[-1], ngram=4, max_len=21), dict(steps[-1], ngram=5, max_len=21)]     # -n 4 then -n 5
        items.append(steps)
    vio += cli_history_check(items, budget, dist)
    return vio, nontrivial


def run(ctx):
    import extract_consts
    consts = extract_consts.main()
    case_errors = set()
    n = ctx.scale(60, 1500)
    budget = {"cap": ctx.scale(6000, 30000), "per_level": ctx.scale(0.3, 0.6), "per_model": ctx.scale(0.8, 1.2)}
    sc_dir = common.scratch()
    vio, samples, cases, case_cfg = [], [], [], []
    dist = {"models": 0, "unusable_lists": 0, "kinds": {}, "ngram": {}, "levels_listed": 0, "levels_compared": 0,
            "strings_compared": 0, "levels_not_enumerated": 0, "cutoff_levels": 0, "cutoff_runs": 0,
            "levels_with_duplicates": 0, "unlisted_levels_with_strings": 0, "guesser_not_loaded": 0,
            "dominant_len_eq_ngram": 0, "single_length": 0, "length_cost_zero": 0, "keyspace_hist": {}}
    from collections import Counter
    dist = Counter(dist)            # (the history stage counts under keys of its own)
    seen, nontrivial = set(), 0
    missing_consts = set()
    kinds = ["len_eq_ngram", "single_len", "big", "mixed", "long", "dup_heavy", "sparse_alphabet", "nonascii", "non_nfc",
             "odd", "blanks"]          # (n-grams that end in a blank / a separator a reader might strip: every run has them)
    for i in range(n):
        cfg = ol.gen_training(ctx.rng, kinds[i % len(kinds)] if i < 3 * len(kinds) else None)
        try:
            r = explore(ctx, cfg, sc_dir, i, budget, dist)
        except ZeroDivisionError:
            r = None
        if r is None:
            dist["unusable_lists"] += 1
            continue
        T, E, v = r
        vio += v
        dist["models"] += 1
        dist["kinds"][cfg["kind"]] = dist["kinds"].get(cfg["kind"], 0) + 1
        dist["ngram"][cfg["ngram"]] = dist["ngram"].get(cfg["ngram"], 0) + 1
        lens = [len(p) for p in T.valid if len(p) >= T.trainer.ngram]
        if lens:
            dist["dominant_len_eq_ngram"] += sum(1 for x in lens if x == T.trainer.ngram) * 2 > len(lens)
            dist["single_length"] += len(set(lens)) == 1
        dist["length_cost_zero"] += 0 in T.tables["ln"]
        dist["levels_listed"] += len(T.keyspace)
        for L, ks in T.keyspace.items():
            b = "0" if ks == 0 else "1-9" if ks < 10 else "10-99" if ks < 100 else "100-999" if ks < 1000 else ">=1000"
            dist["keyspace_hist"][b] = dist["keyspace_hist"].get(b, 0) + 1
            key = (json.dumps(T.tables, sort_keys=True), L)
            if key not in seen and L in E and E[L][1]:
                seen.add(key)
                # non-trivial: the level really produces strings (a keyspace of 0 against nothing emitted is trivial)
                if E[L][2]:
                    nontrivial += 1
        if len(samples) < 4:
            samples.append({"kind": cfg["kind"], "ngram": cfg["ngram"], "training": cfg["passwords"][:6],
                            "ln_levels": T.tables["ln"], "keyspace": list(T.keyspace.items())[:8],
                            "emitted_distinct": {L: len(E[L][2]) for L in sorted(E) if E[L][1]},
                            "small_max": T.small_max, "keyspace_small": list(T.keyspace_small_cold.items())[:6]})
        try:
            cases.append(coq_case(T, consts))
            case_cfg.append(cfg)
        except KeyError as e:
            # a constant of a failed extractor plugin is missing: no correspondence case, the oracle still ran
            missing_consts.add(str(e))

    import time
    t_h = time.time()
    hv, hn = retrain_histories(ctx, sc_dir, budget, dist, seen)
    dist["history_stage_seconds"] = round(time.time() - t_h, 1)
    vio += hv
    nontrivial += hn
    dist = dict(dist)

    per = 5
    shards = []
    for s in range(0, len(cases), per):
        src = ["From Coq Require Import List NArith ZArith Floats.",
               "From Pcfg Require Import OmenSpec OmenLevel OmenKeyspace OmenLevelCorr.",
               "Import ListNotations.", "Open Scope float_scope.",
               "Definition cases : list c18case := [",
               ";\n".join(cases[s:s + per]), "].",
               "Eval vm_compute in (failing_codes check_c18 cases)."]
        shards.append(("s%04d" % (s // per), "\n".join(src)))
    codes = {1: "trainer table invariants", 2: "calc_omen_keyspace (default bounds)", 3: "calc_omen_keyspace, small cut-off, warm cache",
             4: "calc_omen_keyspace, small cut-off, cold cache", 5: "pcfg_omen_prob.txt"}
    import omen_gen_tie
    corr = [omen_gen_tie.status("omen-keyspace:translator-tie", "gen/OmenKeyspace_gen.v", "theories/OmenKeyspaceGenProofs.v")]
    import omen_trainer_tie
    corr += omen_trainer_tie.obligations("C18")
    if missing_consts:
        corr.append(("omen-keyspace:constants", False, "constants missing from gen/Consts_gen.v (extractor plugin failed): %s; "
                     "no correspondence case could be written" % sorted(missing_consts)))
    for (name, idx, log), s in zip(common.run_case_shards("C18", shards), range(0, len(cases), per)):
        if idx is None:
            corr.append(("omen-keyspace:" + name, False, log[-1200:]))
        elif idx:
            first = idx[0]
            corr.append(("omen-keyspace:" + name, False, "model and implementation differ: case %d sub-check %d (%s); training list: %s"
                         % (s + first // 10, first % 10, codes.get(first % 10), json.dumps(case_cfg[s + first // 10])[:500])))
        else:
            corr.append(("omen-keyspace:" + name, True, ""))
    rule = ("generated training lists as C11 with the families 'dominated by length = n-gram', 'single length' (length cost 0) "
            "and 'big' (IP levels 1..9) first, and 'non_nfc' (utf-8 / utf-16 / utf-16-le text that is not in Unicode normal form C - combining marks after "
            "their base letter, singletons, Hangul jamo, CJK compatibility ideographs - next to its NFC twin, passwords at least as long "
            "as the n-gram), 'odd' / 'blanks' (U+2029, NO-BREAK SPACE, ASCII and ideographic space inside and at the end of n-grams); per model calc_omen_keyspace with the default bounds, then with a small "
            "max_keyspace on the warm and on a cold cache; the files written by the real writer; per listed level the value of "
            "omen_keyspace.txt against the number of DISTINCT strings the real MarkovCracker emits at that target level "
            "(levels above the size/time cap are counted as not enumerated) and pcfg_omen_prob.txt against (count/N)/that "
            "number; RULESETS WITH A HISTORY: one ruleset name trained two or three times by the real trainer (in-process as "
            "run_trainer drives it, and trainer.py as separate processes on a scratch copy of the tree) with another n-gram size (4 "
            "then 5, 3 then 4, ...), alphabet size, encoding, coverage, list, or the same again, a guesser / scorer session in between; "
            "the same oracle on the LAST result as it is on disk, and every Omen file (config.txt included) byte-identical to a "
            "training of the last step into a new directory; an evaluation = one listed level compared; non-trivial = the level really produces at least one string; "
            "distinct by (tables, level)")
    if vio:
        vio = shrink_all(ctx, vio)
    return {"evaluations": dist["levels_compared"], "distinct_nontrivial": nontrivial, "rule": rule, "samples": samples,
            "corr": corr, "violations": vio, "dist": dist}


def check_one(cfg, level, max_keyspace, budget, previous=None, cli=False):
    from collections import Counter
    dist = Counter()
    sc_dir = common.scratch()
    if previous:
        # a ruleset name with a history: the earlier trainings first, onto the same directory
        steps = list(previous) + [cfg]
        if cli:
            vio = cli_history_check([steps], budget, dist)
        else:
            r = history_check(steps, sc_dir, "r", budget, dist, level=level, max_keyspace=max_keyspace)
            if r is None:
                return []
            T, E, vio = r
            vio += small_cutoff_oracle(T, E, {"training": cfg, "previous": list(previous)}, dist)
        if level is not None:
            vio = [v for v in vio if v["replay"].get("level") in (level, None)]
        return vio
    try:
        T = ol.Trained(cfg, os.path.join(sc_dir, "r"), max_keyspace=max_keyspace)
    except ZeroDivisionError:
        return []
    if not T.usable:
        return []
    import inspect
    from lib_trainer.omen.evaluate_password import calc_omen_keyspace
    T.default_max_keyspace = inspect.signature(calc_omen_keyspace).parameters["max_keyspace"].default
    G, _ = T.load_guesser()
    if G is None:
        return []
    levels = [level] if level is not None else [L for L in sorted(T.keyspace) if T.keyspace[L] <= budget["cap"] // 2]
    E = ol.enumerate_sets(G, levels, cap=budget["cap"], seconds=budget["per_level"], total_seconds=budget["per_model"])
    vio = keyspace_oracle(T, {L: E[L] for L in E if not E[L][3]}, {"training": cfg}, dist)
    vio += small_cutoff_oracle(T, E, {"training": cfg}, dist)
    if level is not None:
        vio = [v for v in vio if v["replay"].get("level") in (level, None)]
    return vio


def shrink_all(ctx, vio, seconds_each=2.0, max_sigs=4):
    by = {}
    for v in vio:
        tr = (v.get("replay") or {}).get("training")
        if tr is None:
            continue
        if v["sig"] not in by or len(tr["passwords"]) < len(by[v["sig"]]["replay"]["training"]["passwords"]):
            by[v["sig"]] = v
    small = {"cap": 3000, "per_level": 0.2, "per_model": 0.6}
    front = []
    for sig, v in list(by.items())[:max_sigs]:
        mk = v["replay"].get("max_keyspace", 10)
        prev = v["replay"].get("previous")
        if v["replay"].get("cli"):
            front.append(v)         # separate processes: not shrunk
            continue

        def still(c, sig=sig, mk=mk, prev=prev):
            return any(x["sig"] == sig for x in check_one(c, None, mk, small, previous=prev))
        cfg2 = ol.shrink_training(v["replay"]["training"], still, seconds_each)
        hits = [x for x in check_one(cfg2, None, mk, small, previous=prev) if x["sig"] == sig]
        front.append(hits[0] if hits else v)
    return front + vio


def replay(ctx, data):
    inp = data.get("input") or {}
    if "training" not in inp:
        return []
    return check_one(inp["training"], inp.get("level"), inp.get("max_keyspace", 10),
                     {"cap": 200000, "per_level": 20.0, "per_model": 60.0}, previous=inp.get("previous"), cli=bool(inp.get("cli")))
