"""C18: the saved OMEN keyspace is what a level really produces.

Implementation: calc_omen_keyspace / _rec_calc_keyspace of the real trainer on
in-process trained tables (default bounds as run_trainer.py calls it, then again
on the warm cache and on a cold copy with a small max_keyspace so that the
cut-off branch runs), omen_keyspace.txt / pcfg_omen_prob.txt written by the real
writer, against the number of DISTINCT strings the real MarkovCracker emits per
target level on the loaded directory.  Model: OmenKeyspace.v."""
import json
import os

import common
import omen_level as ol

ID = "C18"
TRUSTED = [
    "levels produced by smoothing are taken as given; files modelled as line lists (see C11)",
    "int/int and float/int true division of CPython = binary64 division of the converted operands (operands < 2^53), "
    "exercised on every probability written",
    "Print Assumptions lists Coq's primitive float / int63 operations (div, of_uint63, ...) for C18_prob: primitives of "
    "the kernel, not logical axioms",
    "the two comparisons of calc_omen_keyspace the model is parameterised by (IP guard, length skip) are read off the "
    "TRANSLATION of calc_omen_keyspace on every run, the default bounds off its def line (harness/consts/omen_level.py, "
    "fail closed), and pinned by side-condition lemmas in Props/C18.v; the formula written to pcfg_omen_prob.txt is "
    "tied by the translation of save_omen_rules_to_disk (harness/translate_omen_trainer.py -> gen/OmenTrainerOut_gen.v, equal to "
    "OmenTrainer.save_rules whose probability loop is proved to be omen_prob: C18_source_prob_loop_is_model); the shape of the translated functions themselves is no "
    "longer string-matched: the translation + equality proofs carry that tie",
    "harness/translate_omen_level.py: fail-closed ast translator of _rec_calc_keyspace and calc_omen_keyspace into "
    "gen/OmenKeyspace_gen.v (accepted subset and the representation of Python values in its header: ints as Z, the trainer "
    "object as the model's record plus the nested keyspace_cache dicts threaded explicitly, collections.Counter as an "
    "association list, fuel for the recursion; print is dropped), and the runtime OmenRt.v it targets",
]
ASSUMES = [
    "wf_ttab, closed, levels_le 10 (trainer table invariants, checked on every generated table)",
    "the level is listed and its keyspace did not trigger the max_keyspace cut-off (the cut-off level holds a partial count)",
]


def classify(T, L, listed, strings):
    """Which strings of level L does calc_omen_keyspace not count, by the two suspected causes."""
    g = T.trainer.grammar
    ng = T.trainer.ngram
    by_len = [s for s in strings if len(s) == ng]
    zero_rem = [s for s in strings if len(s) > ng and g[s[:ng - 1]]["ip_level"] == L]
    return by_len, zero_rem


def keyspace_oracle(T, E, replay_base, dist):
    """Per listed level: file value vs number of distinct strings emitted."""
    vio = []
    fk = T.file_keyspace()
    fp = dict(T.file_prob())
    if sorted(fk) != sorted(T.keyspace.items()):
        vio.append({"sig": "C18:file-differs", "what": "omen_keyspace.txt %r is not the Counter calc_omen_keyspace returned %r"
                    % (fk[:5], list(T.keyspace.items())[:5]), "replay": dict(replay_base, level=None)})
    dmax = T.default_max_keyspace
    for L, ks in fk:
        if L not in E or not E[L][1]:
            dist["levels_not_enumerated"] += 1
            continue
        if ks > dmax:
            dist["cutoff_levels"] += 1
            continue
        distinct = E[L][2]
        dist["levels_compared"] += 1
        dist["strings_compared"] += len(distinct)
        if len(E[L][0]) != len(distinct):
            dist["levels_with_duplicates"] += 1
        if ks != len(distinct):
            by_len, zero_rem = classify(T, L, ks, distinct)
            if ks + len(by_len) + len(zero_rem) == len(distinct) and not (by_len and zero_rem):
                kind = "misses-length-eq-ngram" if by_len else "misses-zero-remainder"
            elif ks + len(by_len) + len(zero_rem) == len(distinct):
                kind = "misses-length-eq-ngram+zero-remainder"
            else:
                kind = "mismatch"
            ex = list(dict.fromkeys(by_len + zero_rem + sorted(distinct)))[:3]
            vio.append({"sig": "C18:keyspace-" + kind,
                        "what": "level %d: omen_keyspace.txt says %d, the MarkovCracker emits %d distinct strings "
                                "(%d of length = ngram = %d, %d whose IP level already is the whole level), e.g. %r; ngram %d, "
                                "training list of %d (%s)"
                                % (L, ks, len(distinct), len(by_len), T.trainer.ngram, len(zero_rem), ex, T.trainer.ngram,
                                   len(T.cfg["passwords"]), T.cfg["kind"]),
                        "replay": dict(replay_base, level=L)})
        # probability: (count at level / N) / keyspace, with the keyspace the level really has
        if len(distinct) > 0:
            want = (T.levels_count[L] / T.num_valid) / len(distinct)
            got = fp.get(L)
            if got != want:
                # attributable to the keyspace when that is already wrong
                sig = "C18:prob-follows-wrong-keyspace" if ks != len(distinct) else "C18:prob-mismatch"
                vio.append({"sig": sig, "what": "level %d: pcfg_omen_prob.txt has %r, (count %d / N %d) / real keyspace %d = %r"
                            % (L, got, T.levels_count[L], T.num_valid, len(distinct), want),
                            "replay": dict(replay_base, level=L)})
        elif L in fp:
            vio.append({"sig": "C18:prob-mismatch", "what": "level %d has a probability %r but produces no string" % (L, fp[L]),
                        "replay": dict(replay_base, level=L)})
    # levels the guesser produces strings for but the trainer does not list (not a violation of the
    # statement, which quantifies over listed levels; measured)
    listed = {L for L, _ in fk}
    for L in E:
        if L >= 1 and E[L][1] and E[L][2] and L not in listed:
            dist["unlisted_levels_with_strings"] += 1
    return vio


def small_cutoff_oracle(T, E, replay_base, dist):
    """calc_omen_keyspace with a small max_keyspace: it must stop at the first level whose count
    exceeds the bound, and every level before it must still be exact."""
    vio = []
    for name, ks in (("warm", T.keyspace_small_warm), ("cold", T.keyspace_small_cold)):
        items = list(ks.items())
        over = [i for i, (L, v) in enumerate(items) if v > T.small_max]
        if over:
            dist["cutoff_runs"] += 1
            if over[0] != len(items) - 1:
                vio.append({"sig": "C18:cutoff-not-last", "what": "max_keyspace=%d (%s cache): levels after the one that "
                            "exceeded the bound are still listed: %r" % (T.small_max, name, items),
                            "replay": dict(replay_base, level=None, max_keyspace=T.small_max)})
        for L, v in items:
            if v <= T.small_max and T.keyspace.get(L) != v:
                vio.append({"sig": "C18:cutoff-changes-count", "what": "max_keyspace=%d (%s cache): level %d has %d, the default "
                            "run %r" % (T.small_max, name, L, v, T.keyspace.get(L)),
                            "replay": dict(replay_base, level=L, max_keyspace=T.small_max)})
    if T.keyspace_small_warm != T.keyspace_small_cold:
        vio.append({"sig": "C18:cache-dependent", "what": "calc_omen_keyspace result depends on the keyspace cache left by an "
                    "earlier call: warm %r, cold %r" % (dict(T.keyspace_small_warm), dict(T.keyspace_small_cold)),
                    "replay": dict(replay_base, level=None, max_keyspace=T.small_max)})
    return vio


def coq_ks(items):
    return common.clist(["(%d%%nat, %d%%N)" % (L, v) for L, v in items]) if items else "(@nil (nat * N))"


def coq_case(T, consts):
    fp = T.file_prob()
    return "(mk_c18case %s\n %s %s %d%%nat %d%%N\n %s\n %d%%N\n %s\n %s\n %s\n %d%%nat\n %s)" % (
        ol.coq_tables(T.tables),
        common.cbool(consts["keyspace_ip_guard_strict"]), common.cbool(consts["keyspace_len_skip_le"]),
        consts["keyspace_default_max_level"], consts["keyspace_default_max_keyspace"][0],
        coq_ks(list(T.keyspace.items())),
        T.small_max, coq_ks(list(T.keyspace_small_warm.items())), coq_ks(list(T.keyspace_small_cold.items())),
        common.clist([common.cstr(p) for p in T.valid]) if T.valid else "(@nil (list N))",
        T.num_valid,
        common.clist(["(%d%%nat, %s)" % (L, common.cfloat(p)) for L, p in fp]) if fp else "(@nil (nat * float))")


def explore(ctx, cfg, sc_dir, idx, budget, dist):
    small = ctx.rng.choice([0, 1, 3, 10, 50, 400])
    T = ol.Trained(cfg, os.path.join(sc_dir, "m%d" % idx), max_keyspace=small)
    if not T.usable:
        return None
    import inspect
    from lib_trainer.omen.evaluate_password import calc_omen_keyspace
    T.default_max_keyspace = inspect.signature(calc_omen_keyspace).parameters["max_keyspace"].default
    replay_base = {"training": cfg}
    G, g_err = T.load_guesser()
    E = {}
    vio = []
    if G is not None:
        listed = sorted(L for L, ks in T.keyspace.items())
        # enumerate the listed levels whose recorded keyspace is small enough (plus a margin for what is missed)
        todo = [L for L in listed if T.keyspace[L] <= budget["cap"] // 2]
        E = ol.enumerate_sets(G, todo, cap=budget["cap"], seconds=budget["per_level"], total_seconds=budget["per_model"])
        for L in list(E):
            if E[L][3]:
                vio.append({"sig": "C18:guesser-raises", "what": "MarkovCracker raises at level %d: %s" % (L, E[L][3]),
                            "replay": dict(replay_base, level=L)})
                E.pop(L)
    else:
        dist["guesser_not_loaded"] += 1
    vio += keyspace_oracle(T, E, replay_base, dist)
    vio += small_cutoff_oracle(T, E, replay_base, dist)
    return T, E, vio


def run(ctx):
    import extract_consts
    consts = extract_consts.main()
    case_errors = set()
    n = ctx.scale(60, 1500)
    budget = {"cap": ctx.scale(6000, 30000), "per_level": ctx.scale(0.3, 0.6), "per_model": ctx.scale(0.8, 1.2)}
    sc_dir = common.scratch()
    vio, samples, cases, case_cfg = [], [], [], []
    dist = {"models": 0, "unusable_lists": 0, "kinds": {}, "ngram": {}, "levels_listed": 0, "levels_compared": 0,
            "strings_compared": 0, "levels_not_enumerated": 0, "cutoff_levels": 0, "cutoff_runs": 0,
            "levels_with_duplicates": 0, "unlisted_levels_with_strings": 0, "guesser_not_loaded": 0,
            "dominant_len_eq_ngram": 0, "single_length": 0, "length_cost_zero": 0, "keyspace_hist": {}}
    seen, nontrivial = set(), 0
    missing_consts = set()
    kinds = ["len_eq_ngram", "single_len", "big", "mixed", "long", "dup_heavy", "sparse_alphabet", "nonascii"]
    for i in range(n):
        cfg = ol.gen_training(ctx.rng, kinds[i % len(kinds)] if i < 3 * len(kinds) else None)
        try:
            r = explore(ctx, cfg, sc_dir, i, budget, dist)
        except ZeroDivisionError:
            r = None
        if r is None:
            dist["unusable_lists"] += 1
            continue
        T, E, v = r
        vio += v
        dist["models"] += 1
        dist["kinds"][cfg["kind"]] = dist["kinds"].get(cfg["kind"], 0) + 1
        dist["ngram"][cfg["ngram"]] = dist["ngram"].get(cfg["ngram"], 0) + 1
        lens = [len(p) for p in T.valid if len(p) >= T.trainer.ngram]
        if lens:
            dist["dominant_len_eq_ngram"] += sum(1 for x in lens if x == T.trainer.ngram) * 2 > len(lens)
            dist["single_length"] += len(set(lens)) == 1
        dist["length_cost_zero"] += 0 in T.tables["ln"]
        dist["levels_listed"] += len(T.keyspace)
        for L, ks in T.keyspace.items():
            b = "0" if ks == 0 else "1-9" if ks < 10 else "10-99" if ks < 100 else "100-999" if ks < 1000 else ">=1000"
            dist["keyspace_hist"][b] = dist["keyspace_hist"].get(b, 0) + 1
            key = (json.dumps(T.tables, sort_keys=True), L)
            if key not in seen and L in E and E[L][1]:
                seen.add(key)
                # non-trivial: the level really produces strings (a keyspace of 0 against nothing emitted is trivial)
                if E[L][2]:
                    nontrivial += 1
        if len(samples) < 4:
            samples.append({"kind": cfg["kind"], "ngram": cfg["ngram"], "training": cfg["passwords"][:6],
                            "ln_levels": T.tables["ln"], "keyspace": list(T.keyspace.items())[:8],
                            "emitted_distinct": {L: len(E[L][2]) for L in sorted(E) if E[L][1]},
                            "small_max": T.small_max, "keyspace_small": list(T.keyspace_small_cold.items())[:6]})
        try:
            cases.append(coq_case(T, consts))
            case_cfg.append(cfg)
        except KeyError as e:
            # a constant of a failed extractor plugin is missing: no correspondence case, the oracle still ran
            missing_consts.add(str(e))

    per = 5
    shards = []
    for s in range(0, len(cases), per):
        src = ["From Coq Require Import List NArith ZArith Floats.",
               "From Pcfg Require Import OmenSpec OmenLevel OmenKeyspace OmenLevelCorr.",
               "Import ListNotations.", "Open Scope float_scope.",
               "Definition cases : list c18case := [",
               ";\n".join(cases[s:s + per]), "].",
               "Eval vm_compute in (failing_codes check_c18 cases)."]
        shards.append(("s%04d" % (s // per), "\n".join(src)))
    codes = {1: "trainer table invariants", 2: "calc_omen_keyspace (default bounds)", 3: "calc_omen_keyspace, small cut-off, warm cache",
             4: "calc_omen_keyspace, small cut-off, cold cache", 5: "pcfg_omen_prob.txt"}
    import omen_gen_tie
    corr = [omen_gen_tie.status("omen-keyspace:translator-tie", "gen/OmenKeyspace_gen.v", "theories/OmenKeyspaceGenProofs.v")]
    import omen_trainer_tie
    corr += omen_trainer_tie.obligations("C18")
    if missing_consts:
        corr.append(("omen-keyspace:constants", False, "constants missing from gen/Consts_gen.v (extractor plugin failed): %s; "
                     "no correspondence case could be written" % sorted(missing_consts)))
    for (name, idx, log), s in zip(common.run_case_shards("C18", shards), range(0, len(cases), per)):
        if idx is None:
            corr.append(("omen-keyspace:" + name, False, log[-1200:]))
        elif idx:
            first = idx[0]
            corr.append(("omen-keyspace:" + name, False, "model and implementation differ: case %d sub-check %d (%s); training list: %s"
                         % (s + first // 10, first % 10, codes.get(first % 10), json.dumps(case_cfg[s + first // 10])[:500])))
        else:
            corr.append(("omen-keyspace:" + name, True, ""))
    rule = ("generated training lists as C11 with the families 'dominated by length = n-gram', 'single length' (length cost 0) "
            "and 'big' (IP levels 1..9) first; per model calc_omen_keyspace with the default bounds, then with a small "
            "max_keyspace on the warm and on a cold cache; the files written by the real writer; per listed level the value of "
            "omen_keyspace.txt against the number of DISTINCT strings the real MarkovCracker emits at that target level "
            "(levels above the size/time cap are counted as not enumerated) and pcfg_omen_prob.txt against (count/N)/that "
            "number; an evaluation = one listed level compared; non-trivial = the level really produces at least one string; "
            "distinct by (tables, level)")
    if vio:
        vio = shrink_all(ctx, vio)
    return {"evaluations": dist["levels_compared"], "distinct_nontrivial": nontrivial, "rule": rule, "samples": samples,
            "corr": corr, "violations": vio, "dist": dist}


def check_one(cfg, level, max_keyspace, budget):
    dist = {k: 0 for k in ["levels_not_enumerated", "cutoff_levels", "levels_compared", "strings_compared",
                           "levels_with_duplicates", "unlisted_levels_with_strings", "guesser_not_loaded", "cutoff_runs"]}
    sc_dir = common.scratch()
    try:
        T = ol.Trained(cfg, os.path.join(sc_dir, "r"), max_keyspace=max_keyspace)
    except ZeroDivisionError:
        return []
    if not T.usable:
        return []
    import inspect
    from lib_trainer.omen.evaluate_password import calc_omen_keyspace
    T.default_max_keyspace = inspect.signature(calc_omen_keyspace).parameters["max_keyspace"].default
    G, _ = T.load_guesser()
    if G is None:
        return []
    levels = [level] if level is not None else [L for L in sorted(T.keyspace) if T.keyspace[L] <= budget["cap"] // 2]
    E = ol.enumerate_sets(G, levels, cap=budget["cap"], seconds=budget["per_level"], total_seconds=budget["per_model"])
    vio = keyspace_oracle(T, {L: E[L] for L in E if not E[L][3]}, {"training": cfg}, dist)
    vio += small_cutoff_oracle(T, E, {"training": cfg}, dist)
    if level is not None:
        vio = [v for v in vio if v["replay"].get("level") in (level, None)]
    return vio


def shrink_all(ctx, vio, seconds_each=2.0, max_sigs=4):
    by = {}
    for v in vio:
        tr = (v.get("replay") or {}).get("training")
        if tr is None:
            continue
        if v["sig"] not in by or len(tr["passwords"]) < len(by[v["sig"]]["replay"]["training"]["passwords"]):
            by[v["sig"]] = v
    small = {"cap": 3000, "per_level": 0.2, "per_model": 0.6}
    front = []
    for sig, v in list(by.items())[:max_sigs]:
        mk = v["replay"].get("max_keyspace", 10)

        def still(c, sig=sig, mk=mk):
            return any(x["sig"] == sig for x in check_one(c, None, mk, small))
        cfg2 = ol.shrink_training(v["replay"]["training"], still, seconds_each)
        hits = [x for x in check_one(cfg2, None, mk, small) if x["sig"] == sig]
        front.append(hits[0] if hits else v)
    return front + vio


def replay(ctx, data):
    inp = data.get("input") or {}
    if "training" not in inp:
        return []
    return check_one(inp["training"], inp.get("level"), inp.get("max_keyspace", 10),
                     {"cap": 200000, "per_level": 20.0, "per_model": 60.0})
