"""C02: every pre-terminal exactly once (shares the exploration with C01)."""
from props import C01 as _c

ID = "C02"
TRUSTED = _c.TRUSTED + [
    "guess level: the reference language is computed by harness/guess_level.py from the description of the ruleset files alone (no code of /repo); "
    "the strings of a Markov level come from harness/omen_gen.brute_levels on the lines of the Omen files; str.upper() of one letter is the "
    "running interpreter's (supplied to Expand.v as a table)"]
ASSUMES = _c.ASSUMES


def run(ctx):
    return _c.explore(ctx, "C02")


def replay(ctx, data):
    return _c.replay(ctx, data)
