"""C02: every pre-terminal exactly once (shares the exploration with C01)."""
from props import C01 as _c

ID = "C02"
TRUSTED = _c.TRUSTED
ASSUMES = _c.ASSUMES


def run(ctx):
    return _c.explore(ctx, "C02")


def replay(ctx, data):
    return _c.replay(ctx, data)
