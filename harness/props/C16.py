"""C16: honeywords are drawn from the grammar with the grammar's probabilities.
Implementation = PcfgGrammar.random_walk / _honeyword_recursive_guess /
HoneywordSession of /repo with the module's `random` replaced by scripted draws
placed at, just below and just above every breakpoint; model = Honey.v."""
import math
import types
from fractions import Fraction

import common
import impl_next
import rulesets
from props.C04 import collect, independent_product

ID = "C16"
TRUSTED = ["independence and uniformity of Python's random.random()/choice() (the draws are the model's inputs)",
           "int -> float conversion of len(values) is exact (small integers)",
           "translator tie of the honeyword loop: harness/translate_session.py (ast -> Gallina, fail closed; accepted subset and what "
           "it does not model in its docstring) and the meaning coq/theories/SessionRt.v gives to `while True`, break, try/except "
           "OSError and `if limit:`; random.seed, random_walk, create_guesses and self.random_seed are operations on an abstract "
           "world specified by honey_world in C16_source_honeyword_run_is_model"]
ASSUMES = ["ruleset as the trainer writes it: every list sums to 1 up to rounding",
           "the probability statement is exact over Q (select_interval_Q); in binary64 the breakpoints are the float running sums, "
           "which the oracle requires to be within 1e-12 of the exact ones"]


class Script:
    """stand-in for the `random` module inside lib_guesser.pcfg_grammar"""

    def __init__(self, draws, picks=None):
        self.draws = list(draws)
        self.picks = list(picks or [])
        self.used = 0

    def random(self):
        self.used += 1
        return self.draws.pop(0) if self.draws else 0.5

    def choice(self, seq):
        i = self.picks.pop(0) if self.picks else 0
        return seq[i % len(seq)]

    def seed(self, *a):
        pass

    def randint(self, a, b):
        return a


def with_script(script, f):
    import lib_guesser.pcfg_grammar as pg
    old = pg.random
    pg.random = script
    try:
        return f()
    finally:
        pg.random = old


def breakpoints(ws):
    """float running sums as the loop computes them, with neighbours"""
    out, acc = [], 0
    for w in ws:
        acc += w
        out.append(acc)
    pts = set()
    for c in out:
        for v in (c, math.nextafter(c, -1.0), math.nextafter(c, 2.0)):
            if 0.0 <= v < 1.0:
                pts.add(v)
    prev = 0.0
    for c in out:
        m = (prev + c) / 2
        if 0.0 <= m < 1.0:
            pts.add(m)
        prev = c
    pts.update([0.0, 5e-324, 1.0 - 2.0 ** -53])
    # every float random.random() can return above the float total (a handful when rounding lost some ulps)
    if out:
        v, n = out[-1], 0
        while v < 1.0 - 2.0 ** -53 and n < 8:
            v = math.nextafter(v, 2.0)
            pts.add(v)
            n += 1
    return sorted(pts), out


def exact_interval_ok(ws, i, u, tol=1e-12):
    lo = sum((Fraction(w) for w in ws[:i]), Fraction(0))
    hi = lo + Fraction(ws[i])
    fu = Fraction(u)
    return lo - Fraction(tol) <= fu <= hi + Fraction(tol)


EXPANDING = {2: "\u00dfa", 3: "fu\u00df", 4: "\u01f0azz", 5: "ma\u00dfen"}     # 'ß'.upper() == 'SS', 'ǰ'.upper() == 'J̌'


def cli_reproducible(ctx, dist):
    """random_walk through the real command line, in separate processes with different hash seeds, with and without a session
    name, with and without flags: identical output; exactly N lines; honeywords mode: exactly N lines."""
    import os
    vio = []
    code = common.copy_code_tree(common.scratch())
    for i in range(ctx.scale(2, 8)):
        rs = rulesets.normalise(rulesets.gen_ruleset(ctx.rng, with_markov=False, max_bases=4, max_len=3))
        name = "W%d" % i
        rs["name"] = name
        rulesets.write_ruleset(rs, os.path.join(code, "Rules", name))
        n = ctx.rng.randint(5, 40)
        for extra in ([], ["-s", "nightly_%d" % i], ["-s", "A", "--all_lower"]):
            outs = []
            for hs in ("0", "101", "20222"):
                env = common.subenv()
                env["PYTHONPATH"] = code
                env["PYTHONHASHSEED"] = hs
                rc, out, err = common.run_cli([common.PY, "pcfg_guesser.py", "-r", name, "-m", "random_walk", "-n", str(n)] + extra, code, env, 120)
                outs.append(out.decode("utf-8", "replace").split("\n")[:-1])
                dist["cli_random_walk_runs"] = dist.get("cli_random_walk_runs", 0) + 1
            rep = {"ruleset": rs, "n": n, "cli": extra}
            if any(o != outs[0] for o in outs[1:]):
                k = next((j for j in range(min(map(len, outs))) if len({o[j] for o in outs}) > 1), -1)
                vio.append({"sig": "C16:random-walk-not-reproducible", "what": "pcfg_guesser.py -m random_walk -n %d %s gives different output in "
                            "separate processes (PYTHONHASHSEED 0 / 101 / 20222), first difference at word %d" % (n, " ".join(extra), k), "replay": rep})
            if len(outs[0]) != n:
                vio.append({"sig": "C16:count", "what": "pcfg_guesser.py -m random_walk -n %d %s wrote %d lines" % (n, " ".join(extra), len(outs[0])), "replay": rep})
        env = common.subenv()
        env["PYTHONPATH"] = code
        rc, out, err = common.run_cli([common.PY, "pcfg_guesser.py", "-r", name, "-m", "honeywords", "-n", str(n)], code, env, 120)
        hw = out.decode("utf-8", "replace").split("\n")[:-1]
        if len(hw) != n:
            vio.append({"sig": "C16:count", "what": "pcfg_guesser.py -m honeywords -n %d wrote %d lines" % (n, len(hw)), "replay": {"ruleset": rs, "n": n, "cli": ["honeywords"]}})
    return vio


def run(ctx):
    nrs = ctx.scale(60, 500)
    sc = common.scratch()
    vio, samples, shards = [], [], []
    dist = {"rulesets": 0, "walks": 0, "draws_at_breakpoint": 0, "draw_above_float_total": 0, "float_total_below_1": 0,
            "honeyword_sessions": 0, "words": 0}
    nontrivial, seen = 0, set()
    for r in range(nrs):
        rs = rulesets.gen_ruleset(ctx.rng, with_markov=ctx.rng.random() < 0.3, max_bases=4, max_len=3)
        if r % 6 == 2:
            # neighbouring lines of one list 1e-10 apart relatively, and a tail of tiny distinct probabilities: separate groups, each
            # drawn with its own chance
            rs = rulesets.gen_close_lines_ruleset(ctx.rng)
            dist["close_lines_family"] = dist.get("close_lines_family", 0) + 1
        if r % 6 == 5:
            # k structures seen equally often (k = 7, 13, 14, 19: k copies of fl(1/k) sum to less than 1 - 2^-53)
            k = ctx.rng.choice([7, 13, 14, 19])
            kinds = [x for x in rs["files"] if x[0] != "C"]
            rs["grammar"] = [("".join(ctx.rng.choice(kinds) for _ in range(ctx.rng.randint(1, 2))), 1.0) for _ in range(k)]
        if r % 3 == 1:
            # letters whose upper() is longer than one character, under masks with a U behind them
            for k in list(rs["files"]):
                if k[0] == "A" and int(k[1:]) in EXPANDING:
                    n_ = int(k[1:])
                    rs["files"][k] = [(EXPANDING[n_], rs["files"][k][0][1])] + [x for x in rs["files"][k] if x[0] != EXPANDING[n_]]
                    ck = "C%d" % n_
                    have = [m for m, _ in rs["files"].get(ck, [])]
                    for m in ("L" * (n_ - 1) + "U", "U" * n_):
                        if m not in have and rs["files"].get(ck):
                            rs["files"][ck].append((m, rs["files"][ck][-1][1]))
                    dist["expanding_upper"] = dist.get("expanding_upper", 0) + 1
        rs = rulesets.normalise(rs)
        has_m = any(x[0] == "M" for x in rs["grammar"])
        skip_brute = has_m and len(rs["grammar"]) > 1 and ctx.rng.random() < 0.6
        if skip_brute and rs["grammar"][0][0] == "M" and ctx.rng.random() < 0.7:
            # the Markov line somewhere behind other structures (a trained ruleset has it wherever its probability puts it)
            j = ctx.rng.randrange(1, len(rs["grammar"]))
            rs["grammar"][0], rs["grammar"][j] = rs["grammar"][j], rs["grammar"][0]
        all_lower = ctx.rng.random() < 0.2
        try:
            g = impl_next.load_grammar(rs, sc, skip_brute, all_lower)
        except Exception:
            continue
        dist["rulesets"] += 1
        # the groups a walk chooses among are the groups of the FILES (runs of exactly equal probability), each with the
        # probability its lines carry: a value is drawn with the chance the ruleset gives it
        for name_ in sorted(g.grammar):
            if name_ == "M":
                continue
            fg = impl_next.file_groups(rs, name_, all_lower)
            if fg is None:
                continue
            lg = [(grp["prob"], list(grp["values"])) for grp in g.grammar[name_]]
            if lg != fg:
                k_ = next((i for i, (a_, b_) in enumerate(zip(lg, fg)) if a_ != b_), min(len(lg), len(fg)))
                vio.append({"sig": "C16:group-mass:file", "what": "%s: the walk draws among the groups %r..., the ruleset file defines %r..."
                            % (name_, lg[k_:k_ + 2], fg[k_:k_ + 2]), "replay": {"ruleset": rs, "groups_file": True, "all_lower": all_lower, "draws": []}})
                break
        if skip_brute:
            # --skip_brute: honeywords / walks draw from the structures of the FILE without the Markov line, each with its file
            # probability divided by what is left (the loader's own arithmetic, float for float), whatever the position of M
            import re as _re
            dist["skip_brute_rulesets"] = dist.get("skip_brute_rulesets", 0) + 1
            pm = sum(float(p_) for s_, p_ in rs["grammar"] if s_ == "M")
            dist["skip_brute_markov_not_first"] = dist.get("skip_brute_markov_not_first", 0) + (rs["grammar"][0][0] != "M")
            want_b = [([t_ for tok in _re.findall(r"[A-Z][0-9]+", s_) for t_ in ([tok, "C" + tok[1:]] if tok[0] == "A" else [tok])],
                       float(p_) / (1.0 - pm)) for s_, p_ in rs["grammar"] if s_ != "M"]
            got_b = [(list(b["replacements"]), b["prob"]) for b in g.base]
            if got_b != want_b:
                k_ = next((i for i, (a_, b_) in enumerate(zip(got_b, want_b)) if a_ != b_), min(len(got_b), len(want_b)))
                vio.append({"sig": "C16:base-mass:skip-brute", "what": "--skip_brute: structure #%d is drawn with probability %r, the ruleset "
                            "files say %r (Markov line %s)" % (k_, got_b[k_] if k_ < len(got_b) else None, want_b[k_] if k_ < len(want_b) else None,
                                                              "first" if rs["grammar"][0][0] == "M" else "not first"),
                            "replay": {"ruleset": rs, "skip_brute": True, "draws": []}})
        vm = rulesets.VarMap()
        bases = [(b["prob"], [vm.id(x) for x in b["replacements"]]) for b in g.base]
        table = [[(grp["prob"], len(grp["values"])) for grp in g.grammar[nm]] for nm in vm.names]
        bws = [b["prob"] for b in g.base]
        bpts, bcum = breakpoints(bws)
        if bcum and bcum[-1] < 1.0:
            dist["float_total_below_1"] += 1
        cases = []
        # language for membership
        items, _, capped, _ = impl_next.full_stream(g, cap=400, check_heap=False)
        lang = None
        if not capped:
            lang = set()
            for it in items:
                if it["pt"][0][0][0] != "M":
                    # the property's own definition of the language (product of the chosen groups, masks applied letter by
                    # letter), NOT the guesser's expansion: both generators share code that the oracle must not trust
                    lang.update(independent_product(g, it["pt"]) or [])
        for u0 in bpts:
            # base selection by the float loop, independently
            acc, bi = 0, None
            for i, w in enumerate(bws):
                acc += w
                if acc >= u0:
                    bi = i
                    break
            # above the float total the repaired code falls back to the last structure; script draws for it too
            struct = g.base[bi]["replacements"] if bi is not None else (g.base[-1]["replacements"] if g.base else [])
            # per-position draws: pick one interesting draw list per base draw
            us = []
            for v in struct:
                ws = [grp["prob"] * len(grp["values"]) for grp in g.grammar[v]]
                pts, cum = breakpoints(ws)
                us.append(ctx.rng.choice(pts))
            script = Script([u0] + us)
            replay = {"ruleset": rs, "draws": [u0] + us}
            try:
                item = with_script(script, g.random_walk)
                pt = [(t, i) for t, i in item["pt"]]
                raised = False
            except Exception as e:
                pt, raised = None, True
                vio.append({"sig": "C16:walk-raised", "what": "random_walk raised %s for draws %r" % (type(e).__name__, [u0] + us), "replay": replay})
            dist["walks"] += 1
            at_bp = u0 in bcum
            dist["draws_at_breakpoint"] += at_bp
            if bi is None:
                dist["draw_above_float_total"] += 1
            if not raised:
                if not pt:
                    vio.append({"sig": "C16:no-structure-selected", "what": "draw %r exceeds the float total %r of the base probabilities: "
                                "empty parse tree (create_guesses then raises IndexError)" % (u0, bcum[-1] if bcum else None), "replay": replay})
                else:
                    bsel = [i for i, b in enumerate(g.base) if b["replacements"] == [t for t, _ in pt]]
                    if bi is not None and not any(exact_interval_ok(bws, i, u0) for i in bsel):
                        vio.append({"sig": "C16:base-mass", "what": "draw %r selected a structure whose exact probability interval does not contain it" % u0,
                                    "replay": replay})
                    for (t, ix), u in zip(pt, us):
                        if t[0] == "M":
                            continue    # Markov level list: not normalised, yields no honeyword
                        ws = [grp["prob"] * len(grp["values"]) for grp in g.grammar[t]]
                        tot = 0
                        for w in ws:
                            tot += w
                        if u <= tot and not exact_interval_ok(ws, ix, u):
                            vio.append({"sig": "C16:group-mass", "what": "%s: draw %r selected group %d outside its exact interval" % (t, u, ix), "replay": replay})
                        if u > tot and ix != len(ws) - 1:
                            vio.append({"sig": "C16:group-fallthrough", "what": "%s: draw %r exceeds the float total %r of the group weights and "
                                        "group %d (not the last) is selected" % (t, u, tot, ix), "replay": replay})
            # the word(s) this walk turns into, with scripted value / mask picks: members of the walk's own product
            if not raised and pt and all(t[0] != "M" for t, _ in pt):
                want = independent_product(g, pt)
                picks = [ctx.rng.randrange(0, 6) for _ in pt]
                got = []
                oldp = g.print_guess
                g.print_guess = got.append
                try:
                    try:
                        nret = with_script(Script([], picks), lambda: g.create_guesses(item["pt"], is_honeyword=True, limit=1))
                    except Exception as e:
                        nret = None
                        vio.append({"sig": "C16:honeyword-raised", "what": "create_guesses(is_honeyword) raised %s for %r" % (type(e).__name__, pt),
                                    "replay": dict(replay, picks=picks)})
                finally:
                    g.print_guess = oldp
                dist["scripted_words"] = dist.get("scripted_words", 0) + len(got)
                if nret is not None and (nret != len(got) or len(got) != 1):
                    vio.append({"sig": "C16:count", "what": "one honeyword walk of %r wrote %d words and reported %r" % (pt, len(got), nret),
                                "replay": dict(replay, picks=picks)})
                bad = [w for w in got if want is not None and w not in want]
                if bad:
                    vio.append({"sig": "C16:not-in-language", "what": "the walk %r produced %r, which is not in the product of its groups (e.g. %r)"
                                % (pt, bad[0], (want or [None])[0]), "replay": dict(replay, picks=picks)})
            key = (r, u0)
            if key not in seen:
                seen.add(key)
                nontrivial += at_bp or (bi is None)
            impl = "None" if (raised or not pt) else "(Some %s)" % common.clist(["(%d%%nat, %d%%nat)" % (vm.id(t), i) for t, i in pt])
            cases.append("(%s, %s, %s)" % (common.cfloat(u0), common.clist([common.cfloat(u) for u in us]) if us else "(@nil float)", impl))
            if len(samples) < 3 and at_bp and pt:
                samples.append({"base_probs": bws, "draws": [u0] + us, "walk": pt})
        # honeyword session: exactly N words, all in the language
        # (a ruleset whose mass is almost all Markov cannot deliver N words in reasonable time: termination is
        # probabilistic there and not claimed, DESIGN C16)
        nonmarkov_mass = sum(b["prob"] for b in g.base if "M" not in b["replacements"])
        if lang is not None and lang and r % 4 == 0 and nonmarkov_mass >= 0.2:
            from lib_guesser.honeyword_session import HoneywordSession
            n = ctx.rng.randint(1, 9)
            if len(lang) <= 40 and ctx.rng.random() < 0.5:
                n = len(lang) + ctx.rng.randint(1, 5)      # more words than the language has: repeats are unavoidable
            words = []
            old = g.print_guess
            g.print_guess = words.append
            # watchdog: a session that does not reach N words within 300*N walks is a violation, not a hang
            walks = [0]
            real_walk = g.random_walk

            def counted_walk():
                walks[0] += 1
                if walks[0] > 300 * n + 1000:
                    raise RuntimeError("watchdog")
                return real_walk()
            g.random_walk = counted_walk
            try:
                sess = HoneywordSession(g, "random_walk")
                try:
                    common.quiet_call(sess.run, limit=n)
                except RuntimeError:
                    vio.append({"sig": "C16:limit-not-reached", "what": "random_walk session with limit %d produced only %d words in %d walks "
                                "(language has %d words)" % (n, len(words), walks[0], len(lang)), "replay": {"ruleset": rs, "n": n}})
            finally:
                g.print_guess = old
                g.random_walk = real_walk
            dist["honeyword_sessions"] += 1
            dist["words"] += len(words)
            # independent replay of the session: word k comes from the walk seeded with the k-th seed, nothing else
            import random as _r
            exp_words, seed_k, guard = [], 1, 0
            while len(exp_words) < n and guard < 300 * n + 1000:
                guard += 1
                g2 = impl_next.load_grammar(rs, sc)     # fresh object: no state carried from word to word
                g2.grammar, g2.base = g.grammar, g.base
                _r.seed(seed_k)
                it2 = g2.random_walk()
                res2 = []
                g2.print_guess = res2.append
                try:
                    g2.create_guesses(it2["pt"], is_honeyword=True, limit=n - len(exp_words))
                except Exception:
                    pass
                exp_words += res2
                seed_k += 1
            if words != exp_words[:n] and len(words) == n:
                vio.append({"sig": "C16:session-not-independent-draws", "what": "random_walk session output differs from the per-seed replay at word %d: "
                            "each word must be the walk of its own seed (independent draws)" % next((i for i, (a, b) in enumerate(zip(words, exp_words)) if a != b), -1),
                            "replay": {"ruleset": rs, "n": n}})
            if len(words) != n:
                vio.append({"sig": "C16:count", "what": "random_walk session with limit %d produced %d words" % (n, len(words)), "replay": {"ruleset": rs, "n": n}})
            bad = [w for w in words if w not in lang]
            if bad:
                vio.append({"sig": "C16:not-in-language", "what": "words outside the non-Markov language: %r" % bad[:3], "replay": {"ruleset": rs, "n": n}})
            # honeywords mode (a random seed per session): membership and count
            hw = []
            g.print_guess = hw.append
            walks[0] = 0
            g.random_walk = counted_walk
            try:
                try:
                    common.quiet_call(HoneywordSession(g, "honeywords").run, limit=n)
                except RuntimeError:
                    pass
            finally:
                g.print_guess = old
                g.random_walk = real_walk
            dist["honeyword_mode_words"] = dist.get("honeyword_mode_words", 0) + len(hw)
            if walks[0] <= 300 * n + 1000 and len(hw) != n:
                vio.append({"sig": "C16:count", "what": "honeywords session with limit %d produced %d words" % (n, len(hw)), "replay": {"ruleset": rs, "n": n}})
            bad = [w for w in hw if w not in lang]
            if bad:
                vio.append({"sig": "C16:not-in-language", "what": "honeywords outside the non-Markov language: %r" % bad[:3], "replay": {"ruleset": rs, "n": n}})
            words2 = []
            g.print_guess = words2.append
            walks[0] = 0
            g.random_walk = counted_walk
            try:
                try:
                    common.quiet_call(HoneywordSession(g, "random_walk").run, limit=n)
                except RuntimeError:
                    pass
            finally:
                g.print_guess = old
                g.random_walk = real_walk
            if words2 != words:
                vio.append({"sig": "C16:random-walk-not-reproducible", "what": "two random_walk sessions differ", "replay": {"ruleset": rs, "n": n}})
        # a long streak of walks that land on the Markov structure (which yields no honeyword) is an ordinary event for a ruleset
        # trained with a low coverage: the session keeps walking until it HAS N words.  Scripted: W draws inside M's interval,
        # then draws inside another structure's interval.
        m_ix = [i for i, b in enumerate(g.base) if b["replacements"] == ["M"]]
        o_ix = [i for i, b in enumerate(g.base) if "M" not in b["replacements"] and b["prob"] > 0]
        if m_ix and o_ix and g.base[m_ix[0]]["prob"] > 0 and r % 2 == 0:
            from lib_guesser.honeyword_session import HoneywordSession
            _, cum = breakpoints(bws)

            def mid(i):
                lo = cum[i - 1] if i else 0.0
                return lo + (cum[i] - lo) / 2
            W = ctx.scale(150, 1500)
            n = ctx.rng.randint(1, 4)
            oi = ctx.rng.choice(o_ix)
            draws = [mid(m_ix[0]), 0.5] * W
            for _ in range(n):
                draws += [mid(oi)] + [0.5] * len(g.base[oi]["replacements"])
            got_w = []
            oldp = g.print_guess
            g.print_guess = got_w.append
            script = Script(draws)
            try:
                try:
                    with_script(script, lambda: common.quiet_call(HoneywordSession(g, "random_walk").run, limit=n))
                    err = None
                except Exception as e:     # noqa: BLE001
                    err = "%s: %s" % (type(e).__name__, e)
            finally:
                g.print_guess = oldp
            dist["scripted_markov_streaks"] = dist.get("scripted_markov_streaks", 0) + 1
            if err or len(got_w) != n:
                vio.append({"sig": "C16:count:after-markov-streak", "what": "session with limit %d after %d consecutive walks that landed on the Markov "
                            "structure wrote %d words%s" % (n, W, len(got_w), " (%s)" % err if err else ""),
                            "replay": {"ruleset": rs, "skip_brute": False, "streak": W, "n": n, "other": oi, "draws": []}})
        tbl_lit = common.clist([common.clist(["(%s, %d%%nat)" % (common.cfloat(p), k) for p, k in row]) if row else "(@nil (float * nat))" for row in table]) \
            if table else "(@nil (list (float * nat)))"
        bases_lit = common.clist(["(%s, %s)" % (common.cfloat(p), (common.clist(["%d" % v for v in vs]) + "%nat") if vs else "(@nil nat)") for p, vs in bases])
        src = ["From Coq Require Import List Arith Bool Floats.", "From Pcfg Require Import Honey HoneyCorr.",
               "From PcfgGen Require Import Consts_gen.", "Import ListNotations.", "Open Scope float_scope.",
               "Definition g := mk_hg %s %s." % (bases_lit, tbl_lit),
               "Definition cases : list (float * list float * option (list (nat * nat))) := [", ";\n".join(cases), "].",
               "Eval vm_compute in (failing (check_walk walk_fallback_last g) cases)."]
        shards.append(("r%04d" % r, "\n".join(src)))
    corr = []
    vio += cli_reproducible(ctx, dist)
    for name, idx, log in common.run_case_shards("C16", shards):
        if idx is None:
            corr.append(("walk:" + name, False, log[-800:]))
        elif idx:
            corr.append(("walk:" + name, False, "model walk and random_walk differ for draw lists %s of %s" % (idx[:10], name)))
        else:
            corr.append(("walk:" + name, True, ""))
    # translator tie of the session loop (HoneywordSession.run = Honey.honey_loop)
    import session_tie
    corr.append(session_tie.obligation("honey"))
    rule = ("normalised generated rulesets; random.random()/choice() inside pcfg_grammar replaced by scripted draws: for the base structure "
            "EVERY breakpoint of the float running sum, its two neighbours (nextafter), every midpoint, 0, 5e-324 and 1-2^-53; per position a "
            "draw from the same construction; every walk expanded to its honeyword with scripted value/mask picks and checked against the "
            "product of its groups computed independently (letters whose upper() expands included); the command line in separate processes (different hash seeds, with / without a session name and flags); random_walk and honeywords sessions with limit N (count, membership, reproducibility); non-trivial = the draw "
            "is exactly a breakpoint or above the float total; distinct by (ruleset, base draw)")
    return {"evaluations": dist["walks"], "distinct_nontrivial": nontrivial, "rule": rule, "samples": samples,
            "corr": corr, "violations": vio, "dist": dist}


def replay(ctx, data):
    inp = data.get("input") or {}
    if "ruleset" not in inp or "draws" not in inp:
        return []
    sc = common.scratch()
    if inp.get("groups_file"):
        g = impl_next.load_grammar(inp["ruleset"], sc, False, bool(inp.get("all_lower")))
        for name_ in sorted(g.grammar):
            fg = impl_next.file_groups(inp["ruleset"], name_, bool(inp.get("all_lower"))) if name_ != "M" else None
            if fg is not None and [(grp["prob"], list(grp["values"])) for grp in g.grammar[name_]] != fg:
                return [{"sig": "C16:group-mass:file", "what": "%s: loaded groups differ from the groups of the file" % name_, "replay": inp}]
        return []
    if inp.get("streak"):
        from lib_guesser.honeyword_session import HoneywordSession
        g = impl_next.load_grammar(inp["ruleset"], sc)
        _, cum = breakpoints([b["prob"] for b in g.base])
        mi = [i for i, b in enumerate(g.base) if b["replacements"] == ["M"]][0]
        oi, n, W = inp["other"], inp["n"], inp["streak"]

        def mid(i):
            lo = cum[i - 1] if i else 0.0
            return lo + (cum[i] - lo) / 2
        draws = [mid(mi), 0.5] * W
        for _ in range(n):
            draws += [mid(oi)] + [0.5] * len(g.base[oi]["replacements"])
        got_w = []
        g.print_guess = got_w.append
        try:
            with_script(Script(draws), lambda: common.quiet_call(HoneywordSession(g, "random_walk").run, limit=n))
        except Exception:      # noqa: BLE001
            pass
        return [] if len(got_w) == n else [{"sig": "C16:count:after-markov-streak", "what": "limit %d after %d Markov walks: %d words" % (n, W, len(got_w)),
                                             "replay": inp}]
    if inp.get("skip_brute"):
        import re as _re
        rs = inp["ruleset"]
        g = impl_next.load_grammar(rs, sc, True, False)
        pm = sum(float(p_) for s_, p_ in rs["grammar"] if s_ == "M")
        want_b = [([t_ for tok in _re.findall(r"[A-Z][0-9]+", s_) for t_ in ([tok, "C" + tok[1:]] if tok[0] == "A" else [tok])],
                   float(p_) / (1.0 - pm)) for s_, p_ in rs["grammar"] if s_ != "M"]
        got_b = [(list(b["replacements"]), b["prob"]) for b in g.base]
        if got_b != want_b:
            return [{"sig": "C16:base-mass:skip-brute", "what": "--skip_brute: structures are drawn with %r, the files say %r" % (got_b[:3], want_b[:3]),
                     "replay": inp}]
        return []
    g = impl_next.load_grammar(inp["ruleset"], sc)
    try:
        item = with_script(Script(inp["draws"]), g.random_walk)
    except Exception as e:
        return [{"sig": "C16:walk-raised", "what": "random_walk raised %s" % type(e).__name__, "replay": inp}]
    if not item["pt"]:
        return [{"sig": "C16:no-structure-selected", "what": "empty parse tree for draws %r" % inp["draws"], "replay": inp}]
    return []
