"""C05: training segments every password into a lossless, soundly typed tiling.

Implementation = PCFGPasswordParser.parse of /repo's working tree, run
in-process; the section list is captured by wrapping the module attribute
lib_trainer.pcfg_password_parser.base_structure_creation (no repo change) and
all count_* attributes are read afterwards.  Model = Segment.parse
(coq/theories/{Str,Multiword,Detect,Segment}.v) instantiated in SegCorr.v with
the constants re-extracted from the sources and the Unicode facts of the
running interpreter.  Direct oracle = the property's predicates evaluated in
Python on what the implementation returned (independent of the model)."""
import json
import re
import time
from collections import Counter

import common
import detect_tie
import kbd_geometry
import seg_gen
from consts import trainer_seg

ID = "C05"
TRUSTED = [
    "str.lower() of a string is the concatenation of str.lower() of its characters (checked on every generated string; "
    "U+03A3, whose lowering depends on context, is never generated)",
    "str.isalpha/isdigit/isupper/lower/upper of the pool characters as reported by the running interpreter (gen/Unicode_gen.v); "
    "characters outside the pool are never generated",
    "the harness parses label strings ('A12' -> LA 12) and base-structure strings by a regular expression",
    "'adjacent keys' = keys of an ANSI keyboard (US QWERTY / Russian JCUKEN legends, both shift states) that are side by side in a row or "
    "in neighbouring rows with overlapping spans, rows staggered 0 / 1.5 / 1.75 / 2.25 key widths from the key left of 1 "
    "(harness/kbd_geometry.py, written down a second time in coq/theories/KbdGeometry.v; Coq evaluates its copy on the strings the "
    "harness judged)",
]
ASSUMES = [
    "password accepted by the input filter (non-empty); the theorems hold for every string over the pool table + default class",
    "oracle facts, proved by computation over the regenerated table (C05_unicode_good): str.lower() of a character is never empty, "
    "and when it is one character it has the class (isalpha/isdigit) of the original",
    "multi-word detector state: ANY finite map word -> count (a superset of the states reachable by train())",
    "side conditions on regenerated constants (proved in Props/C05.v): min_keyboard_run >= 4, every TLD non-empty, year prefixes of "
    "length 2, multi-word min_len >= 1, the three detectors search the length-preserving lower-casing",
]

LABEL_RE = re.compile(r"^(?:([KADO])(\d+)|(E)|(W)|(Y)1|(X)1)$")
BASE_RE = re.compile(r"[KADO]\d+|E|W|Y1|X1")

_impl = {}


def impl():
    if _impl:
        return _impl
    common.repo_on_path()
    import lib_trainer.pcfg_password_parser as P
    from lib_trainer.detection_rules.multiword_detector import MultiWordDetector
    cap = []
    orig = P.base_structure_creation

    def wrapped(section_list):
        cap.append([tuple(x) for x in section_list])
        return orig(section_list)
    P.base_structure_creation = wrapped
    _impl.update(P=P, MW=MultiWordDetector, cap=cap)
    return _impl


def regenerate(ctx):
    trainer_seg.write_unicode_gen()


# ---------------------------------------------------------------- running the implementation

def make_detector(pre, hist, kw):
    I = impl()
    mw = I["MW"](threshold=kw["threshold"], min_len=kw["min_len"], max_len=kw["max_len"])
    for w in pre:
        mw.train(w, set_threshold=True)
    for w in hist:
        mw.train(w)
    return mw


COUNTERS_LEN = ["count_keyboard", "count_alpha", "count_alpha_masks", "count_digits", "count_other"]
COUNTERS_FLAT = ["count_emails", "count_email_providers", "count_website_urls", "count_website_hosts",
                 "count_website_prefixes", "count_years", "count_context_sensitive", "count_prince",
                 "count_base_structures", "count_raw_base_structures"]


def recursing_function(names):
    """the function a RecursionError is about: the most frequent name among the innermost frames"""
    names = [n for n in names if n][-200:]
    return Counter(names).most_common(1)[0][0] if names else "unknown"


def exception_kind(e):
    """'' or 'recursion:<function>' (a depth limit of the interpreter, hit by a function that calls itself once per
    piece of the input, is reported under its own signature: how long an input it takes depends on the caller's stack)"""
    if not isinstance(e, RecursionError):
        return ""
    names, tb = [], e.__traceback__
    while tb is not None:
        names.append(tb.tb_frame.f_code.co_name)
        tb = tb.tb_next
    return "recursion:" + recursing_function(names)


def run_impl(mw, pws):
    """one parser object, the passwords in order -> (per password section list or None, counters or None)"""
    I = impl()
    parser = I["P"].PCFGPasswordParser(mw)
    secs = []
    raised = None
    for pw in pws:
        del I["cap"][:]
        try:
            r, _, _ = common.quiet_call(parser.parse, pw)
            secs.append(I["cap"][-1] if I["cap"] else None)
        except Exception as e:      # noqa: BLE001 - the property says parse never raises
            secs.append(None)
            raised = raised or (pw, repr(e), exception_kind(e))
    counters = None
    if raised is None:
        counters = {}
        for k in COUNTERS_LEN:
            counters[k] = {L: dict(c) for L, c in getattr(parser, k).items()}
        for k in COUNTERS_FLAT:
            counters[k] = dict(getattr(parser, k))
    return secs, counters, raised


# ---------------------------------------------------------------- direct oracle

class KB:
    def __init__(self):
        rows, n, self.min_run, self.fp = trainer_seg.keyboards()
        self.layouts = [rows[8 * i:8 * i + 8] for i in range(n)]

    def pos(self, layout, c):
        for j, r in enumerate(layout):
            k = r.find(c)
            if k >= 0:
                return (j // 2 + 1, k)
        return None

    @staticmethod
    def adj(a, b):
        (r1, p1), (r2, p2) = a, b
        if r1 == r2:
            return abs(p1 - p2) == 1
        if r2 == r1 + 1:
            return p2 in (p1, p1 - 1)
        if r2 == r1 - 1:
            return p2 in (p1, p1 + 1)
        return False

    def is_walk(self, s):
        for lay in self.layouts:
            ps = [self.pos(lay, c) for c in s]
            if all(p is not None for p in ps) and all(self.adj(ps[i], ps[i + 1]) for i in range(len(ps) - 1)):
                return True
        return False


def spec_counts(pre, hist, kw):
    """how often each letter run was seen in training (the statement's 'seen'):
    runs of letters of the lower-cased training passwords whose length is within
    the detector's limits; a pre-training word counts as threshold on first sight"""
    cnt = {}
    for words, setthr in ((pre, True), (hist, False)):
        for pw in words:
            if len(pw) < kw["min_len"] or len(pw) > kw["max_len"]:
                continue
            for run in re.findall(r"[^\W\d_]+", "".join(c if c.isalpha() else " " for c in pw.lower())):
                if len(run) >= kw["min_len"]:
                    if run not in cnt:
                        cnt[run] = kw["threshold"] if setthr else 1
                    else:
                        cnt[run] += 1
    return cnt


def lowered(s):
    """s lower-cased as far as that keeps every character in place: a character
    whose lower() is not one character (U+0130) stays as it is.  Equal to
    s.lower() whenever that has the length of s."""
    return "".join(c.lower() if len(c.lower()) == 1 else c for c in s)


def tile_ok(pw, secs):
    """exists a split of pw into pieces equal to the section texts (a W text is
    the lower-cased piece).  Iterative: the number of sections is not bounded."""
    cur = {0}
    for text, lab in secs:
        nxt = set()
        for pos in cur:
            if lab == "W":
                for n in range(0, len(text) + 1):
                    piece = pw[pos:pos + n]
                    if piece.lower() == text or lowered(piece) == text:
                        nxt.add(pos + n)
            elif pw[pos:pos + len(text)] == text:
                nxt.add(pos + len(text))
        cur = nxt
        if not cur:
            return False
    return len(pw) in cur


def expected_counters(all_secs):
    e = {k: {} for k in COUNTERS_LEN}
    f = {k: Counter() for k in COUNTERS_FLAT}

    def li(k, item):
        e[k].setdefault(len(item), Counter())[item] += 1
    for secs in all_secs:
        sup = True
        for text, lab in secs:
            t = lab[0]
            if t == "K":
                li("count_keyboard", text)
            elif t == "A":
                li("count_alpha", lowered(text))
                li("count_alpha_masks", "".join("U" if c.isupper() else "L" for c in text))
            elif t == "D":
                li("count_digits", text)
            elif t == "O":
                li("count_other", text)
            elif t == "Y":
                f["count_years"][text] += 1
            elif t == "X":
                f["count_context_sensitive"][text] += 1
            elif t == "W":
                f["count_website_urls"][text] += 1
                sup = False
            elif t == "E":
                em = lowered(text)
                f["count_emails"][em] += 1
                f["count_email_providers"][em[em.find("@") + 1:]] += 1
                sup = False
            f["count_prince"][lab] += 1
        base = "".join(l for _, l in secs)
        f["count_raw_base_structures"][base] += 1
        if sup:
            f["count_base_structures"][base] += 1
    return e, f


K_SEGMENTS = set()      # every keyboard segment the oracle saw in this run (the Coq copy of the geometry judges them too)


def oracle(kb, ctxs, tlds, kw, pre, hist, counts, mw, pws, secs_list, counters, raised):
    """the property on what the implementation did; returns violations"""
    vio = []
    rp = {"pre": pre, "hist": hist, "pws": pws}

    def v(kind, what, pw):
        if len(pw) > 120 or len(what) > 1500:
            vio.append({"sig": "C05:" + kind, "what": "%s; password of %d characters %r...%r" %
                        (what[:1500], len(pw), pw[:40], pw[-12:]), "replay": dict(rp, pws=[pw])})
            return
        vio.append({"sig": "C05:" + kind, "what": "%s; password %r (code points %s)" %
                    (what, pw, " ".join("U+%04X" % ord(c) for c in pw)), "replay": dict(rp, pws=[pw])})
    if raised:
        kind = raised[2] if len(raised) > 2 else ""
        v("raises" + (":" + kind if kind else ""), "parse raised %s" % raised[1], raised[0])
    for pw, secs in zip(pws, secs_list):
        if secs is None:
            continue
        cls = "-0130" if "\u0130" in pw else ""
        shown = "sections %r" % (secs,)
        if any(l is None for _, l in secs):
            v("untyped" + cls, "untyped section, " + shown, pw)
            continue
        if any(t == "" for t, _ in secs):
            v("empty-segment" + cls, "empty segment, " + shown, pw)
        if not tile_ok(pw, secs):
            v("not-lossless" + cls, "segments do not concatenate to the password, " + shown, pw)
        for i, (text, lab) in enumerate(secs):
            m = LABEL_RE.match(lab)
            if not m:
                v("bad-label", "unknown label %r, %s" % (lab, shown), pw)
                continue
            t = lab[0]
            if m.group(2) is not None and int(m.group(2)) != len(text):
                v("label-length" + cls, "label %s on a segment of length %d, %s" % (lab, len(text), shown), pw)
            if t == "D":
                if not all(c.isdigit() for c in text) or not text:
                    v("digit-unsound" + cls, "digit segment %r is not all digits, %s" % (text, shown), pw)
                for j in (i - 1, i + 1):
                    if 0 <= j < len(secs) and secs[j][1] and secs[j][1][0] == "D":
                        v("digit-not-maximal" + cls, "two adjacent digit segments, " + shown, pw)
            elif t == "A":
                if not all(c.isalpha() for c in text) or not text:
                    v("alpha-unsound" + cls, "alpha segment %r contains a non-letter, %s" % (text, shown), pw)
            elif t == "O":
                if any(c.isalpha() or c.isdigit() for c in text):
                    v("other-unsound" + cls, "'other' segment %r contains a letter or digit, %s" % (text, shown), pw)
            elif t == "Y":
                if not (len(text) == 4 and text[:2] in ("19", "20") and all(c.isdigit() for c in text)):
                    v("year-unsound" + cls, "year segment %r, %s" % (text, shown), pw)
            elif t == "X":
                if text not in ctxs:
                    v("context-unsound" + cls, "context segment %r not in the list, %s" % (text, shown), pw)
            elif t == "K":
                classes = {("a" if c.isalpha() else "d" if c.isdigit() else "o") for c in text}
                if len(text) < 4 or len(classes) < 2 or not kb.is_walk(text):
                    v("keyboard-unsound" + cls, "keyboard segment %r is not a walk of >= 4 adjacent keys mixing classes, %s"
                      % (text, shown), pw)
                # ... and adjacent on the keyboard itself, not only in the tables of the source
                if not kbd_geometry.is_walk(text):
                    v("keyboard-unsound:geometry" + cls, "keyboard segment %r is not a walk over physically adjacent keys of one "
                      "keyboard (%s), %s" % (text, kbd_geometry.first_bad_step(text), shown), pw)
                K_SEGMENTS.add(text)
        # multi-word: maximal groups of adjacent alpha segments
        i = 0
        while i < len(secs):
            if secs[i][1] and secs[i][1][0] == "A":
                j = i
                while j + 1 < len(secs) and secs[j + 1][1] and secs[j + 1][1][0] == "A":
                    j += 1
                if j > i:
                    parts = [lowered(secs[k][0]) for k in range(i, j + 1)]
                    whole = "".join(parts)
                    thr = kw["threshold"]
                    if counts.get(whole, 0) >= thr or any(counts.get(p, 0) < thr for p in parts):
                        v("multiword-unjustified" + cls,
                          "letters %r split into %r but seen counts are whole=%d parts=%r (threshold %d), %s"
                          % (whole, parts, counts.get(whole, 0), [counts.get(p, 0) for p in parts], thr, shown), pw)
                i = j + 1
            else:
                i += 1
    if counters is not None and all(s is not None and all(l for _, l in s) for s in secs_list):
        e, f = expected_counters(secs_list)
        cls = "-0130" if any("\u0130" in pw for pw in pws) else ""
        for k in COUNTERS_LEN:
            got = {L: c for L, c in counters[k].items() if c}
            if got != {L: dict(c) for L, c in e[k].items()}:
                v("counter:%s%s" % (k, cls), "%s = %r but the segments tally to %r" %
                  (k, got, {L: dict(c) for L, c in e[k].items()}), pws[-1] if len(pws) == 1 else "|".join(pws))
                vio[-1]["replay"] = rp
        for k in COUNTERS_FLAT:
            if k in ("count_website_hosts", "count_website_prefixes"):
                n = sum(counters[k].values())
                nw = sum(1 for s in secs_list for _, l in s if l == "W")
                ok = n == nw
                if k == "count_website_prefixes":
                    ok = ok and all(p in (None, "http://www.", "http://", "www.") for p in counters[k])
                else:
                    ok = ok and all(any(h.endswith(t) for t in tlds) for h in counters[k])
                if not ok:
                    v("counter:%s%s" % (k, cls), "%s = %r for %d website segment(s)" % (k, counters[k], nw),
                      "|".join(pws))
                    vio[-1]["replay"] = rp
                continue
            if dict(counters[k]) != dict(f[k]):
                v("counter:%s%s" % (k, cls), "%s = %r but the segments tally to %r" % (k, counters[k], dict(f[k])),
                  "|".join(pws))
                vio[-1]["replay"] = rp
    return vio


# ---------------------------------------------------------------- Coq literals

def clabel(lab):
    m = LABEL_RE.match(lab)
    if not m:
        raise ValueError("label %r" % (lab,))
    if m.group(1):
        return "(L%s %s)" % (m.group(1), m.group(2))
    return "L" + (m.group(3) or m.group(4) or m.group(5) or m.group(6))


def enc_label(lab):
    m = LABEL_RE.match(lab)
    if m.group(1):
        return [ord(m.group(1)), int(m.group(2))]
    if m.group(3) or m.group(4):
        return [ord(lab)]
    return [ord(lab[0]), 1]


def cints(l):
    return ("[" + "; ".join("%d" % x for x in l) + "]%N") if l else "(@nil N)"


def csections(secs):
    if secs is None:
        return "None"
    if not secs:
        return "(Some (@nil section))"
    return "(Some [" + "; ".join("(%s, %s)" % (common.cstr(t), "None" if l is None else "Some " + clabel(l))
                                 for t, l in secs) + "])"


def ckn(items):
    """[(code point list, n)] sorted by key"""
    items = sorted(items)
    if not items:
        return "(@nil (str * nat))"
    return "[" + "; ".join("(%s, %d%%nat)" % (cints(k), n) for k, n in items) + "]"


def clkn(d):
    items = sorted(([ord(c) for c in item], L, n) for L, c in d.items() for item, n in c.items())
    if not items:
        return "(@nil (Z * str * nat))"
    return "[" + "; ".join("(%d, %s, %d%%nat)" % (L, cints(k), n) for k, L, n in items) + "]"


def ccounters(c):
    if c is None:
        return "None"
    so = lambda k: ckn([([ord(x) for x in key], n) for key, n in c[k].items()])   # noqa: E731
    pref = ckn([([0] if key is None else [1] + [ord(x) for x in key], n) for key, n in c["count_website_prefixes"].items()])
    prince = ckn([(enc_label(key), n) for key, n in c["count_prince"].items()])

    def base(k):
        return ckn([([y for lab in BASE_RE.findall(key) for y in enc_label(lab)], n) for key, n in c[k].items()])
    for k in ("count_base_structures", "count_raw_base_structures"):
        for key in c[k]:
            if "".join(BASE_RE.findall(key)) != key:
                raise ValueError("base structure %r" % key)
    return ("(Some {| k_keyboard := %s; k_emails := %s; k_providers := %s; k_urls := %s; k_hosts := %s; k_prefixes := %s; "
            "k_years := %s; k_context := %s; k_alpha := %s; k_masks := %s; k_digits := %s; k_other := %s; k_prince := %s; "
            "k_base := %s; k_raw_base := %s |})" % (
                clkn(c["count_keyboard"]), so("count_emails"), so("count_email_providers"), so("count_website_urls"),
                so("count_website_hosts"), pref, so("count_years"), so("count_context_sensitive"), clkn(c["count_alpha"]),
                clkn(c["count_alpha_masks"]), clkn(c["count_digits"]), clkn(c["count_other"]), prince,
                base("count_base_structures"), base("count_raw_base_structures")))


def cstrs(l):
    return ("[" + "; ".join(common.cstr(x) for x in l) + "]") if l else "(@nil str)"


def shard_source(hists, cases):
    """hists: [(pre, hist)], cases: Coq terms of type ccase"""
    src = ["From Coq Require Import List ZArith NArith Bool.",
           "From Pcfg Require Import Str Multiword Detect Segment SegCorr.",
           "Import ListNotations.", "Open Scope Z_scope.",
           "Definition hists : list (list str * list str) := ["]
    src.append(";\n".join("(%s, %s)" % (cstrs(p), cstrs(h)) for p, h in hists))
    src.append("].")
    src.append("Definition hmaps : list mwmap := Eval vm_compute in map history_map hists.")
    src.append("Definition cases : list ccase := [")
    src.append(";\n".join(cases))
    src.append("].")
    src.append("Eval vm_compute in (failing (check_ccase hmaps) cases).")
    return "\n".join(src)


# ---------------------------------------------------------------- the check

def shape_of(secs):
    return "?" if secs is None else "".join(l or "?" for _, l in secs)


def mw_queries(rng, mw, pre, hist):
    voc = [w for w in seg_gen.WORDS]
    qs = set()
    for _ in range(14):
        k = rng.random()
        if k < 0.3:
            w = rng.choice(voc)
        elif k < 0.8:
            w = "".join(rng.choice(voc) for _ in range(rng.choice([2, 2, 3, 4])))
        else:
            w = rng.choice(voc) + rng.choice(seg_gen.ODD) + rng.choice(voc)
        w = "".join(c for c in w.lower() if c.isalpha() and c not in seg_gen.EXCLUDED)[:30]
        if w:
            qs.add(w)
    out = []
    for w in sorted(qs):
        cnt = mw._get_count(w)
        b, ws = mw.parse(w)
        out.append((w, cnt, b, list(ws)))
    return out


def reject_reason():
    """why the input filter turns a string down (None: it accepts it).  Independent of the running check_valid: not
    empty and none of the rejected characters (the constant set of the source, consts.trainer_io; C07 / C19 tie it)."""
    from consts import trainer_io as K
    try:
        rej = set(K.extract_check_valid()[0])
    except Exception:      # noqa: BLE001 - the source has a shape the extractor refuses: ask the running filter about single characters
        from lib_trainer.trainer_file_input import check_valid
        rej = {c for c in list(range(0x3000)) + [0xFEFF, 0xFFFE, 0xFFFF] if not check_valid("a" + chr(c) + "b")}

    def why(p):
        if p == "":
            return "empty"
        bad = sorted({ord(c) for c in p if ord(c) in rej})
        return ("U+%04X" % bad[0]) if bad else None
    return why


def trainer_input(sc, tag, rp):
    """the training file (and pre-training list) of a whole-trainer case -> (path, encoding, multiword path or None)"""
    import os
    path = os.path.join(sc, "tr%s.txt" % tag)
    if "file" in rp:
        with open(path, "wb") as f:
            f.write(bytes.fromhex(rp["file"]))
    else:
        with open(path, "w", encoding="utf-8", newline="") as f:
            f.write("\n".join(rp["hist"]) + "\n")
    mwp = None
    if rp.get("pre"):
        mwp = os.path.join(sc, "mw%s.txt" % tag)
        with open(mwp, "w", encoding="utf-8", newline="") as f:
            f.write("\n".join(rp["pre"]) + "\n")
    return path, rp.get("enc", "utf-8"), mwp


def run_trainer_case(sc, tag, rp):
    import os
    import trainer_io as T
    path, enc, mwp = trainer_input(sc, tag, rp)
    return T.train_inprocess(path, enc, os.path.join(sc, "TR%s" % tag), coverage=0.6, multiword=mwp)


def judge_trainer_run(rec, rp, kb, ctxs, tlds, kw, why):
    """The property on one whole run_trainer run: every password pass 2 handed to the parser is one the input filter
    accepts, parsing it did not raise, and its section list satisfies the oracle ('seen n times' counted on what
    pass 1 read).  rp: the replay dict of the run.  -> (violations, usable)"""
    vio = []
    pre = rp.get("pre") or []
    out = rec.stdout or ""
    handed = rec.seqs[1] if len(rec.seqs) > 1 else []
    if (not rec.ok and len(rec.seqs) == 2 and len(rec.sections) < len(handed)
            and (rec.exc or ("Traceback (most recent call last)" in out and "pcfg_password_parser" in out))):
        # run_trainer prints the traceback of what parse() raised in pass 2 and gives up: nothing is saved
        names = re.findall(r'File "[^"]+", line \d+, in (\w+)', out)
        last = [l for l in out.strip().split("\n") if l.strip()][-3:]
        pw = handed[len(rec.sections)] if len(rec.sections) < len(handed) else handed[-1]
        recursion = "RecursionError" in out or "RecursionError" in (rec.exc or "")
        sig = ("C05:raises:recursion:%s:trainer-run" % recursing_function(names)) if recursion else "C05:trainer-run:raises"
        vio.append({"sig": sig, "what": "run_trainer gave up in pass 2 because parse() raised on a password of %d characters "
                    "%r...: no rule file is written (output ends %r)" % (len(pw), pw[:40], " | ".join(last)[-300:]),
                    "replay": dict(rp, pws=[pw], trainer_run=True)})
        return vio, False
    if not rec.ok or len(rec.seqs) < 2 or len(rec.sections) != len(handed):
        return vio, False
    for p in dict.fromkeys(handed):
        r = why(p)
        if r:
            vio.append({"sig": "C05:trainer-run:trained-on-rejected:" + r, "what": "pass 2 of run_trainer handed %r to the parser, a string "
                        "the input filter rejects (%s); its sections: %r" % (p[:80], r, rec.sections[handed.index(p)][:6]),
                        "replay": dict(rp, pws=[p], trainer_run=True)})
    pre_read = [list(r.verif_seq) for r in rec.multiword_reader]
    counts = spec_counts(pre_read[0] if pre_read else [], rec.seqs[0], kw)
    v = oracle(kb, ctxs, tlds, kw, pre, rec.seqs[0], counts, None, handed, rec.sections, None, None)
    for x in v:
        x["sig"] = x["sig"].replace("C05:", "C05:trainer-run:", 1)
        x["replay"] = dict(rp, pws=x["replay"]["pws"], trainer_run=True)
        if "file" not in rp:
            x["replay"]["hist"] = rec.seqs[0]
    return vio + v, True


def trainer_stage(ctx, kb, ctxs, tlds, kw, dist):
    """The segmentation as a WHOLE trainer run produces it (run_trainer: pass 1 trains the multi-word detector, whatever
    happens to it between the passes, pass 2 parses): the same oracle on the section lists of pass 2, 'seen n times'
    counted on the passwords pass 1 read.  Every other list also holds one or two long lines (seg_gen.gen_long)."""
    rng = ctx.rng
    sc = common.scratch()
    why = reject_reason()
    vio = []
    plain = [w for w in seg_gen.WORDS if 4 <= len(w) <= 8 and w.isascii() and w.isalpha()]
    for j in range(ctx.scale(6, 40)):
        pre, hist = seg_gen.gen_history(rng)
        # a whole word seen at least threshold times whose two parts are too, and proper prefixes / extensions of it seen less often
        a, b = rng.sample(plain, 2)
        W = a + b
        hist = list(hist) + [a] * 5 + [b] * rng.choice([5, 6]) + [W] * rng.choice([5, 7]) + [W[:-1]] * rng.choice([1, 2, 4]) \
            + [W + "s"] * rng.choice([0, 1, 5]) + [W + "1", W.capitalize() + "!", b + a]
        if j % 2 == 1:
            longs = [seg_gen.LONG_FIXED[(j // 2) % len(seg_gen.LONG_FIXED)], seg_gen.gen_long(rng)[0]]
            hist += longs[:rng.choice([1, 2])] * rng.choice([1, 2])
            dist["trainer_runs_with_long_lines"] += 1
        rng.shuffle(hist)
        hist = [p for p in hist if p and "\n" not in p and "\r" not in p and not p.startswith("$HEX[")]
        rp = {"pre": pre, "hist": hist}
        rec = run_trainer_case(sc, str(j), rp)
        v, usable = judge_trainer_run(rec, rp, kb, ctxs, tlds, kw, why)
        vio += v
        if not usable:
            dist["trainer_runs_unusable"] += 1
            continue
        dist["trainer_runs"] += 1
        dist["trainer_run_passwords"] += len(rec.seqs[1])
    return vio


BOM = "\ufeff"
# what a training file may begin with: a byte order mark (alone on its line, glued to the first password, doubled),
# blank lines, lines holding only a space / a format character
FILE_HEADS = ["", BOM + "\n", BOM, "\n\n", BOM + "\n\n", BOM + BOM + "\n", "\r\n", BOM + "\r\n", " \n", BOM + " \n",
              "\u200b\n", BOM + "\u200b\n", "\n" + BOM + "\n"]
# (encoding handed to the trainer, codec the bytes are made with); the 'utf-16' reader needs its own mark in front
FILE_ENCODINGS = [("utf-8", "utf-8"), ("utf-8-sig", "utf-8"), ("utf-16", "utf-16-le"), ("utf-16", "utf-16-be"),
                  ("utf-16-le", "utf-16-le"), ("utf-16-be", "utf-16-be")]


def reader_stage(ctx, kb, ctxs, tlds, kw, dist):
    """Whole trainer runs on FILES (bytes), not lists: every way a file may begin (FILE_HEADS) x the Unicode encodings
    (FILE_ENCODINGS) x line ends; the passwords that reach the parser are whatever the real reader makes of the bytes.
    Oracle: judge_trainer_run (accepted by the filter, never raises, sound tiling)."""
    rng = ctx.rng
    sc = common.scratch()
    why = reject_reason()
    vio = []
    k = 0
    for rnd in range(ctx.scale(2, 10)):
        for head in FILE_HEADS:
            for enc, codec in FILE_ENCODINGS:
                body = [seg_gen.gen_string(rng)[0] for _ in range(rng.randint(0, 6))]
                body += [rng.choice(["password1", "monkey12", "1qaz2wsx", "a" + BOM + "b", BOM, "x" + BOM, "summer2019"])
                         for _ in range(rng.randint(0, 3))]
                body = [p for p in body if p.strip("\r\n") == p and p and not p.startswith("$HEX[") and not why(p)]
                body += body[:2]
                rng.shuffle(body)
                eol = rng.choice(["\n", "\n", "\r\n"])
                text = head.replace("\r\n", "\n").replace("\n", eol) if rng.random() < 0.5 else head
                text += "".join(p + eol for p in body)
                if body and rng.random() < 0.15:
                    text = text[:-len(eol)]                      # no line end after the last password
                if enc == "utf-16":
                    text = BOM + text
                try:
                    data = text.encode(codec)
                except UnicodeEncodeError:
                    continue
                rp = {"pre": [], "file": data.hex(), "enc": enc}
                rec = run_trainer_case(sc, "f%d" % k, rp)
                k += 1
                v, usable = judge_trainer_run(rec, rp, kb, ctxs, tlds, kw, why)
                vio += v
                dist["reader_runs" if usable else "reader_runs_unusable"] += 1
                if usable:
                    dist["reader_run_passwords"] += len(rec.seqs[1])
                    dist["reader_runs_first_password_holds_bom"] += bool(rec.seqs[1] and BOM in rec.seqs[1][0])
                    dist["reader_enc_" + enc] += 1
    return vio


def long_stage(ctx, kb, ctxs, tlds, kw, dist, P):
    """Long passwords (seg_gen.LONG_FIXED, gen_long: 400-1500 characters) through parse(), under the empty and one
    generated multi-word history; same oracle; some of them go to the model.  -> (violations, shards, shard meta, n, facts)"""
    rng = ctx.rng
    vio, shards, shard_cases = [], [], {}
    n_eval, facts_ok = 0, True
    for hi in range(2):
        pre, hist = ([], []) if hi == 0 else seg_gen.gen_history(rng)
        mw = make_detector(pre, hist, kw)
        counts = spec_counts(pre, hist, kw)
        chosen = []
        for i in range(ctx.scale(80, 600)):
            if hi == 0 and i < len(seg_gen.LONG_FIXED):
                s, fams = seg_gen.LONG_FIXED[i], ["long-fixed"]
            else:
                s, fams = seg_gen.gen_long(rng)
            if not set(s) <= P or not seg_gen.check_charwise_lower(s):
                facts_ok = False
            secs, counters, raised = run_impl(mw, [s])
            n_eval += 1
            here = oracle(kb, ctxs, tlds, kw, pre, hist, counts, mw, [s], secs, counters, raised)
            vio += here
            dist["fam_" + fams[0]] += 1
            dist["long_sections_max"] = max(dist["long_sections_max"], len(secs[0] or []))
            if raised:
                dist["raised"] += 1
            elif here:
                pass        # already reported with its input; a section list that does not tile can be far longer than the password
            elif len(chosen) < ctx.scale(14, 60) and (fams == ["long-fixed"] or rng.random() < 0.5):
                chosen.append(([s], secs, counters))
        cases = ["CParse 0%%nat %s [%s] %s" % (cstrs(pws), "; ".join(csections(x) for x in secs), ccounters(c))
                 for pws, secs, c in chosen]
        dist["coq_cases_long"] += len(cases)
        for s0 in range(0, len(cases), 8):
            name = "long%d_%02d" % (hi, s0 // 8)
            shards.append((name, shard_source([(pre, hist)], cases[s0:s0 + 8])))
            shard_cases[name] = [{"pre": pre, "hist": hist, "pws": [pws[0][:60] + "...(%d)" % len(pws[0])]} for pws, _, _ in chosen[s0:s0 + 8]]
    return vio, shards, shard_cases, n_eval, facts_ok


# ---------------------------------------------------------------- keyboard geometry

PINNED_LAYOUTS = "data/kbd_layouts.json"


def geometry_obligations(ctx, dist):
    """(1) layout-tables-pinned: the layout tables extracted from the source equal the committed copy harness/data/kbd_layouts.json
    (is_next_on_keyboard reads a key's list index as its column: a changed row list is a changed keyboard, and the theorems that
    the model's adjacency is physical adjacency were proved about these tables).
    (2) geometry:code-adjacency-within-physical: every ordered pair of keys the real find_keyboard_row_column /
    is_next_on_keyboard call neighbours on a layout is a pair of physically adjacent keys (exhaustive); the table of
    differences goes into the evidence."""
    import os
    out = []
    try:
        got = [dict({"name": kb["name"]}, **{r: "".join(kb[r]) for r in trainer_seg.ROWS}) for kb in trainer_seg.keyboard_dicts()]
    except Exception as e:      # noqa: BLE001 - the extractor refuses the source
        return [("layout-tables-pinned", False, "the layout tables cannot be extracted: %r" % (e,))]
    with open(os.path.join(os.path.dirname(os.path.dirname(os.path.abspath(__file__))), PINNED_LAYOUTS), encoding="utf-8") as f:
        want = json.load(f)["layouts"]
    diffs = []
    if [g["name"] for g in got] != [w["name"] for w in want]:
        diffs.append("layouts %r, pinned %r" % ([g["name"] for g in got], [w["name"] for w in want]))
    for g, w in zip(got, want):
        for r in trainer_seg.ROWS:
            if g.get(r) != w.get(r):
                diffs.append("%s %s is %r, pinned %r" % (g["name"], r, g.get(r), w.get(r)))
    out.append(("layout-tables-pinned", not diffs, "; ".join(diffs)[:1500]))
    common.repo_on_path()
    import importlib
    m = importlib.import_module("lib_trainer.detection_rules.keyboard_walk")
    find, is_next = getattr(m, "find_keyboard_row_column", None), getattr(m, "is_next_on_keyboard", None)
    if find is None or is_next is None:
        ctx.note("C05: find_keyboard_row_column / is_next_on_keyboard are not functions of keyboard_walk.py any more: the exhaustive "
                 "comparison of key pairs is left out (the walks around every pair still go through the parser)")
        return out
    try:
        table = kbd_geometry.compare_with_code(trainer_seg.keyboard_dicts(), find, is_next)
    except Exception as e:      # noqa: BLE001
        out.append(("geometry:code-adjacency-within-physical", False, "the pair comparison raised %r" % (e,)))
        return out
    bad = ["%s: %s" % (name, " ".join(repr(x) for x in t["code_only"][:40])) for name, t in table.items() if t["code_only"]]
    out.append(("geometry:code-adjacency-within-physical", not bad,
                "pairs the code calls neighbours that are not adjacent keys - " + "; ".join(bad)[:1500] if bad else ""))
    dist["geometry_pair_table"] = {name: {"characters": t["characters"], "pairs_code_accepts": t["code"], "pairs_physically_adjacent":
                                          t["physical"], "code_only": t["code_only"][:200], "physical_only": t["physical_only"][:200]}
                                   for name, t in table.items()}
    return out


CYR_WORDS = ["пароль", "любовь", "привет", "наташа", "солнышко"]
GEO_PREFIX = ["", "", "", "пароль", "pass", "99", "!", "любовь", "2019", "a", "я", "#1", "привет", "q", "7"]
GEO_SUFFIX = ["", "", "", "1", "99", "ю", "!", "пароль", "2020", "x", ".ru", "@mail.ru", "123"]


def geometry_strings(ctx, dist):
    """The generated family: (a) for EVERY ordered pair of keys of each keyboard that are adjacent, or close but not adjacent
    (two apart in a row, one row apart without overlap, two rows apart, the same key in the other shift state), in all four
    combinations of shift states: walks of >= 4 keys that hold the step first, last and in the middle and are physical walks
    everywhere else, steered to a second character class; (b) walks of 4-9 keys with 0-2 near misses, half of them crossing
    between the digit row and the first letter row in either direction, embedded between words / digits / symbols.
    -> [(string, family)]"""
    rng = ctx.rng
    G = kbd_geometry
    out = []
    for layout in G.LAYOUTS:
        b = G.BOARDS[layout]
        for kind in ("adjacent", "near"):
            for a, c in G.all_pairs(b, kind):
                for sa, sb in [(False, False), (True, True), (False, True), (True, False)]:
                    for s in G.pair_strings(b, rng, a, c, sa, sb, per_pair=ctx.scale(3, 6)):
                        out.append((s, "geo-pair-%s-%s" % (kind, layout)))
    for i in range(ctx.scale(3000, 40000)):
        layout = "jcuken" if i % 3 else "qwerty"
        w, _ = G.gen_walk(rng, layout)
        k = rng.random()
        if k < 0.35:
            s = w
        elif k < 0.85:
            s = rng.choice(GEO_PREFIX) + w + rng.choice(GEO_SUFFIX)
        else:
            s = w + rng.choice(["", "", "1", "!", "я", "a"]) + G.gen_walk(rng, rng.choice(G.LAYOUTS))[0]
        out.append((s[:40], "geo-walk-" + layout))
    for s, _ in out:
        dist["geo_strings_crossing_digit_and_first_letter_row"] += bool(CROSSING_RE.search(s))
    return out


CROSSING_RE = re.compile("[0-9!\"№;%:?*()_+=-][йцукенгшщзхъЙЦУКЕНГШЩЗХЪ]|[йцукенгшщзхъЙЦУКЕНГШЩЗХЪ][0-9!\"№;%:?*()_+=-]")


def geometry_stage(ctx, kb, ctxs, tlds, kw, dist, P):
    """Every generated string through parse() under the empty multi-word history and under one that knows Russian words; whole
    trainer runs on lists of them; long passwords made of them; some go to the model.
    -> (violations, shards, shard meta, evaluations, facts ok)"""
    rng = ctx.rng
    strings = geometry_strings(ctx, dist)
    vio, n_eval, facts_ok = [], 0, True
    hists = [([], []), ([], [w for w in CYR_WORDS + ["password", "pass"] for _ in range(5)])]
    dets = [(pre, hist, make_detector(pre, hist, kw), spec_counts(pre, hist, kw)) for pre, hist in hists]
    chosen = [[], []]
    shapes = set()
    per_hist = ctx.scale(110, 400)
    for s, fam in strings:
        if not set(s) <= P or not seg_gen.check_charwise_lower(s):
            facts_ok = False
        hi = 0 if fam.startswith("geo-pair") or rng.random() < 0.5 else 1
        pre, hist, mw, counts = dets[hi]
        secs, counters, raised = run_impl(mw, [s])
        n_eval += 1
        here = oracle(kb, ctxs, tlds, kw, pre, hist, counts, mw, [s], secs, counters, raised)
        vio += here
        dist["fam_" + fam] += 1
        if raised:
            dist["raised"] += 1
            continue
        ks = [t for t, l in secs[0] if l and l[0] == "K"]
        if ks:
            dist["geo_strings_with_keyboard_segment"] += 1
            dist["geo_keyboard_segments_crossing_digit_and_first_letter_row"] += any(CROSSING_RE.search(t) for t in ks)
            dist["geo_keyboard_segments_cyrillic"] += any(any(ord(c) > 0x400 for c in t) for t in ks)
        shape = (shape_of(secs[0]), fam, bool(ks))
        if not here and len(chosen[hi]) < per_hist and (shape not in shapes or (ks and rng.random() < 0.05)):
            shapes.add(shape)
            chosen[hi].append(([s], secs, counters))
    # long passwords: hundreds of such walks in a row
    pre, hist, mw, counts = dets[0]
    for i in range(ctx.scale(8, 60)):
        ws = [kbd_geometry.gen_walk(rng, "jcuken" if i % 2 else None)[0] for _ in range(rng.choice([3, 8, 40]))]
        sep = rng.choice(["", "", "!", "я", "7", " "])
        s = sep.join(rng.choice(ws) for _ in range(rng.randint(101, 220)))
        if not set(s) <= P or not seg_gen.check_charwise_lower(s):
            facts_ok = False
        secs, counters, raised = run_impl(mw, [s])
        n_eval += 1
        vio += oracle(kb, ctxs, tlds, kw, pre, hist, counts, mw, [s], secs, counters, raised)
        dist["fam_geo-long"] += 1
    # whole trainer runs
    sc = common.scratch()
    why = reject_reason()
    for j in range(ctx.scale(2, 12)):
        hist = [s for s, _ in rng.sample(strings, min(len(strings), 160))] + [w for w in CYR_WORDS[:3] for _ in range(5)]
        hist = [p for p in hist if p and p.strip("\r\n") == p and not p.startswith("$HEX[") and not why(p)]
        rng.shuffle(hist)
        rp = {"pre": [], "hist": hist}
        rec = run_trainer_case(sc, "g%d" % j, rp)
        v, usable = judge_trainer_run(rec, rp, kb, ctxs, tlds, kw, why)
        vio += v
        dist["geo_trainer_runs" if usable else "geo_trainer_runs_unusable"] += 1
        if usable:
            dist["geo_trainer_run_passwords"] += len(rec.seqs[1])
    shards, shard_cases = [], {}
    for hi, (pre, hist, _, _) in enumerate(dets):
        cases = ["CParse 0%%nat %s [%s] %s" % (cstrs(pws), "; ".join(csections(x) for x in secs), ccounters(c))
                 for pws, secs, c in chosen[hi]]
        dist["coq_cases_geometry"] += len(cases)
        for s0 in range(0, len(cases), 120):
            name = "geo%d_%02d" % (hi, s0 // 120)
            shards.append((name, shard_source([(pre, hist)], cases[s0:s0 + 120])))
            shard_cases[name] = [{"pre": pre, "hist": hist, "pws": pws} for pws, _, _ in chosen[hi][s0:s0 + 120]]
    return vio, shards, shard_cases, n_eval, facts_ok


def geometry_coq_shard(ctx):
    """the Coq copy of the physical tables (KbdGeometry.phys_walk) on every keyboard segment seen and on generated strings"""
    rng = ctx.rng
    sample = sorted(K_SEGMENTS)[:ctx.scale(1500, 6000)]
    sample += [kbd_geometry.gen_walk(rng)[0] for _ in range(ctx.scale(600, 3000))]
    sample += ["1qaz", "2edc", "2увс", "1йфя", "ё1йф", "`1qa", "=\\", "]\\", "ъ\\", "ю.", "Ю,", "э.", "a", "ё", "", "aa", "1!"]
    sample = [s for s in dict.fromkeys(sample)]
    src = ["From Coq Require Import List ZArith NArith Bool.", "From Pcfg Require Import Str Corr KbdGeometry.",
           "Import ListNotations.",
           "Definition cases : list (str * list bool) := " + kbd_geometry.coq_cases(sample) + ".",
           "Eval vm_compute in (failing phys_case_ok cases)."]
    return ("zz_geometry", "\n".join(src)), sample


RECURSION_PROBE = "1qaz" * 1100
PROBE_SECONDS = 30


class TooSlow(BaseException):
    """not an Exception: passes through the implementation's and the harness's `except Exception`"""


def time_limited(seconds, f):
    """f() under a wall-clock limit (SIGALRM; the driver's own watchdog alarm is put back afterwards) -> (result, timed out)"""
    import signal

    def on_alarm(signum, frame):
        raise TooSlow()
    t0 = time.time()
    old = signal.signal(signal.SIGALRM, on_alarm)
    left = signal.alarm(seconds)
    try:
        return f(), False
    except TooSlow:
        return None, True
    finally:
        signal.alarm(0)
        signal.signal(signal.SIGALRM, old)
        if left:
            signal.alarm(max(1, left - int(time.time() - t0)))


def recursion_probe(ctx, kb, ctxs, tlds, kw, dist):
    """One password of 1100 keyboard walks (4400 characters), through parse() and through a whole trainer run.  Each of
    the two under a limit of PROBE_SECONDS (measured: 0.05 s / 0.4 s): an implementation that needs longer is noted,
    the property does not speak about time."""
    vio = []
    mw = make_detector([], [], kw)
    got, slow = time_limited(PROBE_SECONDS, lambda: run_impl(mw, [RECURSION_PROBE]))
    if slow:
        dist["recursion_probe_parse_timed_out"] += 1
        ctx.note("C05: parse() of %d keyboard walks did not return within %d s" % (len(RECURSION_PROBE) // 4, PROBE_SECONDS))
        return vio
    secs, counters, raised = got
    vio += oracle(kb, ctxs, tlds, kw, [], [], {}, mw, [RECURSION_PROBE], secs, counters, raised)
    dist["recursion_probe_parse_raised"] += bool(raised)
    rp = {"pre": [], "hist": ["password1"] * 3 + [RECURSION_PROBE] + ["monkey12", "password1"]}
    rec, slow = time_limited(PROBE_SECONDS, lambda: run_trainer_case(common.scratch(), "rp", rp))
    if slow:
        dist["recursion_probe_trainer_timed_out"] += 1
        ctx.note("C05: run_trainer on a list holding a line of %d keyboard walks did not return within %d s"
                 % (len(RECURSION_PROBE) // 4, PROBE_SECONDS))
        return vio
    v, usable = judge_trainer_run(rec, rp, kb, ctxs, tlds, kw, reject_reason())
    vio += v
    dist["recursion_probe_trainer_completed"] += bool(usable)
    return vio


def run(ctx):
    rng = ctx.rng
    kb = KB()
    C = trainer_seg.extract_data()
    ctxs, tlds = C["context_strings"], C["tld_list"]
    kw = {"threshold": C["mw_threshold"], "min_len": C["mw_min_len"], "max_len": C["mw_max_len"]}
    n_hist = ctx.scale(12, 60)
    n_per_hist = ctx.scale(1700, 10000)
    coq_per_hist = ctx.scale(210, 500)
    P = set(seg_gen.pool())

    vio, samples, corr = [], [], []
    dist = Counter()
    shapes_all = set()
    nontrivial_shapes = set()
    evaluations = 0
    shards = []
    shard_cases = {}
    facts_ok = True
    for h in range(n_hist):
        pre, hist = ([], []) if h == 0 else seg_gen.gen_history(rng)
        mw = make_detector(pre, hist, kw)
        counts = spec_counts(pre, hist, kw)
        # the statement's "seen n times" against the detector's own count
        for w, n in counts.items():
            if mw._get_count(w) != n:
                vio.append({"sig": "C05:multiword-count", "what": "word %r seen %d times in training but _get_count says %d"
                            % (w, n, mw._get_count(w)), "replay": {"pre": pre, "hist": hist, "pws": [w]}})
        chosen, seen_here = [], set()
        for i in range(n_per_hist):
            if h == 0 and i < len(seg_gen.FIXED):
                pws, fams = [seg_gen.FIXED[i]], ["fixed"]
            elif rng.random() < 0.12:
                pws = [seg_gen.gen_string(rng)[0] for _ in range(rng.choice([2, 3, 4]))]
                fams = ["sequence"]
            else:
                s, fams = seg_gen.gen_string(rng)
                if rng.random() < 0.25 and counts:      # make the multi-word vocabulary of this history appear
                    ws_ = sorted(counts)
                    s = (s[:rng.randrange(len(s) + 1)] + "".join(rng.choice(ws_) for _ in range(rng.choice([1, 2, 2, 3]))))[:40]
                pws = [s]
            for s in pws:
                if not set(s) <= P or not seg_gen.check_charwise_lower(s):
                    facts_ok = False
            secs, counters, raised = run_impl(mw, pws)
            evaluations += len(pws)
            vio += oracle(kb, ctxs, tlds, kw, pre, hist, counts, mw, pws, secs, counters, raised)
            shape = "|".join(shape_of(s) for s in secs)
            kinds = {l[0] for s in secs if s for _, l in s if l}
            dist["label_kinds_%d" % min(len(kinds), 4)] += 1
            for f in fams:
                dist["fam_" + f] += 1
            if any("\u0130" in s for s in pws):
                dist["with_U+0130"] += 1
            if raised:
                dist["raised"] += 1
            first = shape not in shapes_all
            shapes_all.add(shape)
            if len(kinds) >= 2:
                nontrivial_shapes.add(shape)
            if (first or fams == ["fixed"] or (shape not in seen_here and rng.random() < 0.3) or rng.random() < 0.01) \
                    and len(chosen) < coq_per_hist:
                seen_here.add(shape)
                chosen.append((pws, secs, counters))
                if len(samples) < 5 and len(kinds) >= 3:
                    samples.append({"password": pws[0], "sections": secs[0], "history_words": len(counts)})
        cases = ["CParse 0%%nat %s [%s] %s" % (cstrs(pws), "; ".join(csections(s) for s in secs), ccounters(c))
                 for pws, secs, c in chosen]
        meta = [{"pre": pre, "hist": hist, "pws": pws} for pws, _, _ in chosen]
        for w, cnt, b, ws in mw_queries(rng, mw, pre, hist):
            cases.append("CMw 0%%nat %s %d %s %s" % (common.cstr(w), cnt, common.cbool(b), cstrs(ws)))
            meta.append({"pre": pre, "hist": hist, "mw_query": w})
            dist["mw_queries"] += 1
        dist["coq_cases"] += len(cases)
        # shards of at most 400 cases
        for s0 in range(0, len(cases), 400):
            name = "h%03d_%d" % (h, s0 // 400)
            shards.append((name, shard_source([(pre, hist)], cases[s0:s0 + 400])))
            shard_cases[name] = meta[s0:s0 + 400]
    lv, lshards, lmeta, ln, lfacts = long_stage(ctx, kb, ctxs, tlds, kw, dist, P)
    vio += lv
    shards += lshards
    shard_cases.update(lmeta)
    evaluations += ln
    facts_ok = facts_ok and lfacts
    vio += recursion_probe(ctx, kb, ctxs, tlds, kw, dist)
    vio += trainer_stage(ctx, kb, ctxs, tlds, kw, dist)
    vio += reader_stage(ctx, kb, ctxs, tlds, kw, dist)
    # keyboard geometry: the tables of the source against the pinned copy and the physical keyboards, the walks around every pair of keys
    corr.extend(geometry_obligations(ctx, dist))
    gv, gshards, gmeta, gn, gfacts = geometry_stage(ctx, kb, ctxs, tlds, kw, dist, P)
    vio += gv
    shards += gshards
    shard_cases.update(gmeta)
    evaluations += gn
    facts_ok = facts_ok and gfacts
    gshard, gsample = geometry_coq_shard(ctx)
    shards.append(gshard)
    dist["geometry_coq_cases"] = len(gsample)
    corr.append(("unicode-facts:generated-strings-within-pool-and-lower-charwise", facts_ok, ""))
    # the translator tie (gen/Detect_gen.v and its equality proofs): which part no longer checks, if any
    corr.extend(detect_tie.status())
    # the translator tie of the pass orchestration (every accepted password is parsed exactly once, in pass 2)
    import trainer_run_tie
    corr.extend(trainer_run_tie.obligations())
    # negative control: one deliberately wrong expectation must be reported as a mismatch
    mw0 = make_detector([], [], kw)
    csecs, ccnt, _ = run_impl(mw0, ["a1"])
    shards.append(("zz_control", shard_source([([], [])], [
        "CParse 0%%nat %s [%s] %s" % (cstrs(["a1"]), csections(csecs[0]), ccounters(ccnt)),
        "CParse 0%%nat %s [%s] %s" % (cstrs(["a1"]), csections([("a1", "A2")]), ccounters(ccnt))])))
    for name, idx, log in common.run_case_shards("C05", shards):
        if name == "zz_control":
            corr.append(("control:a-wrong-expectation-is-reported", idx == [1], "" if idx == [1] else "control shard answered %r: %s" % (idx, log[-300:])))
            continue
        if name == "zz_geometry":
            ok = idx == []
            corr.append(("geometry:coq-tables-agree-with-harness-tables", ok, "" if ok else (
                "KbdGeometry.phys_walk and kbd_geometry.walk_on differ on %r" % ([gsample[i] for i in idx[:10]],) if idx else log[-600:])))
            continue
        if idx is None:
            corr.append(("parse:" + name, False, log[-800:]))
        elif idx:
            corr.append(("parse:" + name, False, "model and implementation differ for cases %s; first: %s"
                         % (idx[:10], json.dumps(shard_cases[name][idx[0]], ensure_ascii=True)[:700])))
        else:
            corr.append(("parse:" + name, True, ""))
    rule = ("strings of 1-6 trigger fragments (keyboard walks, years, context strings, URL/e-mail pieces, vocabulary words, "
            "digits, symbols, characters with unusual case mappings incl. U+0130) with truncation, case changes and stray "
            "characters, under %d generated multi-word training histories; every string is parsed by the real "
            "PCFGPasswordParser and checked by the direct oracle; distinct = base-structure shape of the returned section "
            "list(s); plus whole run_trainer runs (pass 1 trains the multi-word detector, pass 2 parses) on lists holding a frequent "
            "compound, its frequent parts and rarer prefixes / extensions (every other list also holds long lines), same oracle on the section lists of pass 2 and: "
            "every password handed to the parser is one the input filter accepts (filter re-stated in the harness), a parse() that raises inside the run is a violation; "
            "whole run_trainer runs on FILES: every way a file may begin (byte order mark alone on its line / glued to the first password / doubled, blank lines, "
            "a space or format character alone) x utf-8, utf-8-sig, utf-16 (LE/BE), utf-16-le, utf-16-be x LF / CRLF; long passwords (400-1500 characters: "
            "101-260 keyboard walks in a row, runs of one class, one trigger repeated 100-300 times) through parse() and the model; one probe of 1100 walks "
            "(4400 characters) through parse() and the whole trainer; keyboard geometry: every K segment anywhere must be a walk over PHYSICALLY "
            "adjacent keys of one keyboard (ANSI QWERTY / JCUKEN, harness/kbd_geometry.py, independent of the tables of the source); for every "
            "ordered pair of keys of both keyboards that are adjacent or close but not adjacent (two apart in a row, one row apart without "
            "overlap, two rows apart, same key other shift state), plain / shifted / mixed: walks of >= 4 keys holding that step first, last "
            "and in the middle, steered to a second character class; walks of 4-9 keys with 0-2 near misses, half of them crossing between "
            "the digit row and the first letter row, alone and between words / digits / symbols, through parse() under two histories, as "
            "long passwords and through whole trainer runs; all ordered key pairs put to the real is_next_on_keyboard and to the geometry; "
            "non-trivial = at least two different label kinds (two detectors fired)" % n_hist)
    dist["distinct_shapes"] = len(shapes_all)
    return {"evaluations": evaluations, "distinct_nontrivial": len(nontrivial_shapes), "rule": rule, "samples": samples,
            "dist": dict(dist), "corr": corr, "violations": [shrink(ctx, v) for v in dedup(vio)]}


def shrink(ctx, v):
    """delete pieces (64, 16, 4, 1 characters) / the history while the same signature is reported; at most
    SHRINK_BUDGET replays per violation; whole trainer runs and depth-limit findings are kept as they are"""
    rp = dict(v["replay"])
    if len(rp.get("pws", [])) != 1 or "file" in rp or rp.get("trainer_run") or ":recursion:" in v["sig"]:
        return v
    budget = [SHRINK_BUDGET]
    if not _shrink_deadline:
        _shrink_deadline.append(time.time() + SHRINK_SECONDS)

    def hits(r):
        if budget[0] <= 0 or time.time() > _shrink_deadline[0]:
            return []
        budget[0] -= 1
        try:
            return [w for w in replay(ctx, {"input": r}) if w["sig"] == v["sig"]]
        except Exception:   # noqa: BLE001
            return []
    best = v
    if rp.get("hist") or rp.get("pre"):
        h = hits(dict(rp, hist=[], pre=[]))
        if h:
            rp = dict(rp, hist=[], pre=[])
            best = h[0]
    for size in (64, 16, 4, 1):
        changed = True
        while changed and budget[0] > 0:
            changed = False
            s = rp["pws"][0]
            if len(s) <= size:
                break
            for i in range(0, len(s), size):
                t = s[:i] + s[i + size:]
                if not t:
                    continue
                h = hits(dict(rp, pws=[t]))
                if h:
                    rp = dict(rp, pws=[t])
                    best = h[0]
                    changed = True
                    break
    return best


SHRINK_BUDGET = 1200
SHRINK_SECONDS = 30          # all shrinking of one run together
_shrink_deadline = []


def dedup(vio):
    """keep the shortest witness per signature"""
    best = {}
    for v in vio:
        k = v["sig"]
        n = sum(len(p) for p in v["replay"].get("pws", [])) + sum(len(p) for p in v["replay"].get("hist", []))
        if k not in best or n < best[k][0]:
            best[k] = (n, v)
    return [b[1] for _, b in sorted(best.items())]


_static = []


def static():
    """keyboard layouts, constants of the sources, detector arguments (the tree does not change during a run)"""
    if not _static:
        C = trainer_seg.extract_data()
        _static.append((KB(), C, {"threshold": C["mw_threshold"], "min_len": C["mw_min_len"], "max_len": C["mw_max_len"]}))
    return _static[0]


def replay(ctx, data):
    inp = data.get("input") or {}
    if "pws" not in inp:
        return []
    kb, C, kw = static()
    pre, hist, pws = inp.get("pre", []), inp.get("hist", []), inp["pws"]
    if inp.get("trainer_run"):
        # replay of a whole trainer run: the file / list is trained again and the same judge applied
        rp = {k: v for k, v in inp.items() if k in ("pre", "hist", "file", "enc")}
        rp.setdefault("pre", [])
        rec = run_trainer_case(common.scratch(), "rp", rp)
        v, _ = judge_trainer_run(rec, rp, kb, C["context_strings"], C["tld_list"], kw, reject_reason())
        return [x for x in v if x["replay"]["pws"] == pws] or v
    mw = make_detector(pre, hist, kw)
    counts = spec_counts(pre, hist, kw)
    secs, counters, raised = run_impl(mw, pws)
    return oracle(kb, C["context_strings"], C["tld_list"], kw, pre, hist, counts, mw, pws, secs, counters, raised)
