"""C05: training segments every password into a lossless, soundly typed tiling.

Implementation = PCFGPasswordParser.parse of /repo's working tree, run
in-process; the section list is captured by wrapping the module attribute
lib_trainer.pcfg_password_parser.base_structure_creation (no repo change) and
all count_* attributes are read afterwards.  Model = Segment.parse
(coq/theories/{Str,Multiword,Detect,Segment}.v) instantiated in SegCorr.v with
the constants re-extracted from the sources and the Unicode facts of the
running interpreter.  Direct oracle = the property's predicates evaluated in
Python on what the implementation returned (independent of the model)."""
import json
import re
from collections import Counter

import common
import detect_tie
import seg_gen
from consts import trainer_seg

ID = "C05"
TRUSTED = [
    "str.lower() of a string is the concatenation of str.lower() of its characters (checked on every generated string; "
    "U+03A3, whose lowering depends on context, is never generated)",
    "str.isalpha/isdigit/isupper/lower/upper of the pool characters as reported by the running interpreter (gen/Unicode_gen.v); "
    "characters outside the pool are never generated",
    "the harness parses label strings ('A12' -> LA 12) and base-structure strings by a regular expression",
]
ASSUMES = [
    "password accepted by the input filter (non-empty); the theorems hold for every string over the pool table + default class",
    "oracle facts, proved by computation over the regenerated table (C05_unicode_good): str.lower() of a character is never empty, "
    "and when it is one character it has the class (isalpha/isdigit) of the original",
    "multi-word detector state: ANY finite map word -> count (a superset of the states reachable by train())",
    "side conditions on regenerated constants (proved in Props/C05.v): min_keyboard_run >= 4, every TLD non-empty, year prefixes of "
    "length 2, multi-word min_len >= 1, the three detectors search the length-preserving lower-casing",
]

LABEL_RE = re.compile(r"^(?:([KADO])(\d+)|(E)|(W)|(Y)1|(X)1)$")
BASE_RE = re.compile(r"[KADO]\d+|E|W|Y1|X1")

_impl = {}


def impl():
    if _impl:
        return _impl
    common.repo_on_path()
    import lib_trainer.pcfg_password_parser as P
    from lib_trainer.detection_rules.multiword_detector import MultiWordDetector
    cap = []
    orig = P.base_structure_creation

    def wrapped(section_list):
        cap.append([tuple(x) for x in section_list])
        return orig(section_list)
    P.base_structure_creation = wrapped
    _impl.update(P=P, MW=MultiWordDetector, cap=cap)
    return _impl


def regenerate(ctx):
    trainer_seg.write_unicode_gen()


# ---------------------------------------------------------------- running the implementation

def make_detector(pre, hist, kw):
    I = impl()
    mw = I["MW"](threshold=kw["threshold"], min_len=kw["min_len"], max_len=kw["max_len"])
    for w in pre:
        mw.train(w, set_threshold=True)
    for w in hist:
        mw.train(w)
    return mw


COUNTERS_LEN = ["count_keyboard", "count_alpha", "count_alpha_masks", "count_digits", "count_other"]
COUNTERS_FLAT = ["count_emails", "count_email_providers", "count_website_urls", "count_website_hosts",
                 "count_website_prefixes", "count_years", "count_context_sensitive", "count_prince",
                 "count_base_structures", "count_raw_base_structures"]


def run_impl(mw, pws):
    """one parser object, the passwords in order -> (per password section list or None, counters or None)"""
    I = impl()
    parser = I["P"].PCFGPasswordParser(mw)
    secs = []
    raised = None
    for pw in pws:
        del I["cap"][:]
        try:
            r, _, _ = common.quiet_call(parser.parse, pw)
            secs.append(I["cap"][-1] if I["cap"] else None)
        except Exception as e:      # noqa: BLE001 - the property says parse never raises
            secs.append(None)
            raised = raised or (pw, repr(e))
    counters = None
    if raised is None:
        counters = {}
        for k in COUNTERS_LEN:
            counters[k] = {L: dict(c) for L, c in getattr(parser, k).items()}
        for k in COUNTERS_FLAT:
            counters[k] = dict(getattr(parser, k))
    return secs, counters, raised


# ---------------------------------------------------------------- direct oracle

class KB:
    def __init__(self):
        rows, n, self.min_run, self.fp = trainer_seg.keyboards()
        self.layouts = [rows[8 * i:8 * i + 8] for i in range(n)]

    def pos(self, layout, c):
        for j, r in enumerate(layout):
            k = r.find(c)
            if k >= 0:
                return (j // 2 + 1, k)
        return None

    @staticmethod
    def adj(a, b):
        (r1, p1), (r2, p2) = a, b
        if r1 == r2:
            return abs(p1 - p2) == 1
        if r2 == r1 + 1:
            return p2 in (p1, p1 - 1)
        if r2 == r1 - 1:
            return p2 in (p1, p1 + 1)
        return False

    def is_walk(self, s):
        for lay in self.layouts:
            ps = [self.pos(lay, c) for c in s]
            if all(p is not None for p in ps) and all(self.adj(ps[i], ps[i + 1]) for i in range(len(ps) - 1)):
                return True
        return False


def spec_counts(pre, hist, kw):
    """how often each letter run was seen in training (the statement's 'seen'):
    runs of letters of the lower-cased training passwords whose length is within
    the detector's limits; a pre-training word counts as threshold on first sight"""
    cnt = {}
    for words, setthr in ((pre, True), (hist, False)):
        for pw in words:
            if len(pw) < kw["min_len"] or len(pw) > kw["max_len"]:
                continue
            for run in re.findall(r"[^\W\d_]+", "".join(c if c.isalpha() else " " for c in pw.lower())):
                if len(run) >= kw["min_len"]:
                    if run not in cnt:
                        cnt[run] = kw["threshold"] if setthr else 1
                    else:
                        cnt[run] += 1
    return cnt


def lowered(s):
    """s lower-cased as far as that keeps every character in place: a character
    whose lower() is not one character (U+0130) stays as it is.  Equal to
    s.lower() whenever that has the length of s."""
    return "".join(c.lower() if len(c.lower()) == 1 else c for c in s)


def tile_ok(pw, secs):
    """exists a split of pw into pieces equal to the section texts (a W text is
    the lower-cased piece)"""
    def go(pos, i):
        if i == len(secs):
            return pos == len(pw)
        text, lab = secs[i]
        if lab == "W":
            for n in range(0, len(text) + 1):
                piece = pw[pos:pos + n]
                if (piece.lower() == text or lowered(piece) == text) and go(pos + n, i + 1):
                    return True
            return False
        return pw[pos:pos + len(text)] == text and go(pos + len(text), i + 1)
    return go(0, 0)


def expected_counters(all_secs):
    e = {k: {} for k in COUNTERS_LEN}
    f = {k: Counter() for k in COUNTERS_FLAT}

    def li(k, item):
        e[k].setdefault(len(item), Counter())[item] += 1
    for secs in all_secs:
        sup = True
        for text, lab in secs:
            t = lab[0]
            if t == "K":
                li("count_keyboard", text)
            elif t == "A":
                li("count_alpha", lowered(text))
                li("count_alpha_masks", "".join("U" if c.isupper() else "L" for c in text))
            elif t == "D":
                li("count_digits", text)
            elif t == "O":
                li("count_other", text)
            elif t == "Y":
                f["count_years"][text] += 1
            elif t == "X":
                f["count_context_sensitive"][text] += 1
            elif t == "W":
                f["count_website_urls"][text] += 1
                sup = False
            elif t == "E":
                em = lowered(text)
                f["count_emails"][em] += 1
                f["count_email_providers"][em[em.find("@") + 1:]] += 1
                sup = False
            f["count_prince"][lab] += 1
        base = "".join(l for _, l in secs)
        f["count_raw_base_structures"][base] += 1
        if sup:
            f["count_base_structures"][base] += 1
    return e, f


def oracle(kb, ctxs, tlds, kw, pre, hist, counts, mw, pws, secs_list, counters, raised):
    """the property on what the implementation did; returns violations"""
    vio = []
    rp = {"pre": pre, "hist": hist, "pws": pws}

    def v(kind, what, pw):
        vio.append({"sig": "C05:" + kind, "what": "%s; password %r (code points %s)" %
                    (what, pw, " ".join("U+%04X" % ord(c) for c in pw)), "replay": dict(rp, pws=[pw])})
    if raised:
        v("raises", "parse raised %s" % raised[1], raised[0])
    for pw, secs in zip(pws, secs_list):
        if secs is None:
            continue
        cls = "-0130" if "\u0130" in pw else ""
        shown = "sections %r" % (secs,)
        if any(l is None for _, l in secs):
            v("untyped" + cls, "untyped section, " + shown, pw)
            continue
        if any(t == "" for t, _ in secs):
            v("empty-segment" + cls, "empty segment, " + shown, pw)
        if not tile_ok(pw, secs):
            v("not-lossless" + cls, "segments do not concatenate to the password, " + shown, pw)
        for i, (text, lab) in enumerate(secs):
            m = LABEL_RE.match(lab)
            if not m:
                v("bad-label", "unknown label %r, %s" % (lab, shown), pw)
                continue
            t = lab[0]
            if m.group(2) is not None and int(m.group(2)) != len(text):
                v("label-length" + cls, "label %s on a segment of length %d, %s" % (lab, len(text), shown), pw)
            if t == "D":
                if not all(c.isdigit() for c in text) or not text:
                    v("digit-unsound" + cls, "digit segment %r is not all digits, %s" % (text, shown), pw)
                for j in (i - 1, i + 1):
                    if 0 <= j < len(secs) and secs[j][1] and secs[j][1][0] == "D":
                        v("digit-not-maximal" + cls, "two adjacent digit segments, " + shown, pw)
            elif t == "A":
                if not all(c.isalpha() for c in text) or not text:
                    v("alpha-unsound" + cls, "alpha segment %r contains a non-letter, %s" % (text, shown), pw)
            elif t == "O":
                if any(c.isalpha() or c.isdigit() for c in text):
                    v("other-unsound" + cls, "'other' segment %r contains a letter or digit, %s" % (text, shown), pw)
            elif t == "Y":
                if not (len(text) == 4 and text[:2] in ("19", "20") and all(c.isdigit() for c in text)):
                    v("year-unsound" + cls, "year segment %r, %s" % (text, shown), pw)
            elif t == "X":
                if text not in ctxs:
                    v("context-unsound" + cls, "context segment %r not in the list, %s" % (text, shown), pw)
            elif t == "K":
                classes = {("a" if c.isalpha() else "d" if c.isdigit() else "o") for c in text}
                if len(text) < 4 or len(classes) < 2 or not kb.is_walk(text):
                    v("keyboard-unsound" + cls, "keyboard segment %r is not a walk of >= 4 adjacent keys mixing classes, %s"
                      % (text, shown), pw)
        # multi-word: maximal groups of adjacent alpha segments
        i = 0
        while i < len(secs):
            if secs[i][1] and secs[i][1][0] == "A":
                j = i
                while j + 1 < len(secs) and secs[j + 1][1] and secs[j + 1][1][0] == "A":
                    j += 1
                if j > i:
                    parts = [lowered(secs[k][0]) for k in range(i, j + 1)]
                    whole = "".join(parts)
                    thr = kw["threshold"]
                    if counts.get(whole, 0) >= thr or any(counts.get(p, 0) < thr for p in parts):
                        v("multiword-unjustified" + cls,
                          "letters %r split into %r but seen counts are whole=%d parts=%r (threshold %d), %s"
                          % (whole, parts, counts.get(whole, 0), [counts.get(p, 0) for p in parts], thr, shown), pw)
                i = j + 1
            else:
                i += 1
    if counters is not None and all(s is not None and all(l for _, l in s) for s in secs_list):
        e, f = expected_counters(secs_list)
        cls = "-0130" if any("\u0130" in pw for pw in pws) else ""
        for k in COUNTERS_LEN:
            got = {L: c for L, c in counters[k].items() if c}
            if got != {L: dict(c) for L, c in e[k].items()}:
                v("counter:%s%s" % (k, cls), "%s = %r but the segments tally to %r" %
                  (k, got, {L: dict(c) for L, c in e[k].items()}), pws[-1] if len(pws) == 1 else "|".join(pws))
                vio[-1]["replay"] = rp
        for k in COUNTERS_FLAT:
            if k in ("count_website_hosts", "count_website_prefixes"):
                n = sum(counters[k].values())
                nw = sum(1 for s in secs_list for _, l in s if l == "W")
                ok = n == nw
                if k == "count_website_prefixes":
                    ok = ok and all(p in (None, "http://www.", "http://", "www.") for p in counters[k])
                else:
                    ok = ok and all(any(h.endswith(t) for t in tlds) for h in counters[k])
                if not ok:
                    v("counter:%s%s" % (k, cls), "%s = %r for %d website segment(s)" % (k, counters[k], nw),
                      "|".join(pws))
                    vio[-1]["replay"] = rp
                continue
            if dict(counters[k]) != dict(f[k]):
                v("counter:%s%s" % (k, cls), "%s = %r but the segments tally to %r" % (k, counters[k], dict(f[k])),
                  "|".join(pws))
                vio[-1]["replay"] = rp
    return vio


# ---------------------------------------------------------------- Coq literals

def clabel(lab):
    m = LABEL_RE.match(lab)
    if not m:
        raise ValueError("label %r" % (lab,))
    if m.group(1):
        return "(L%s %s)" % (m.group(1), m.group(2))
    return "L" + (m.group(3) or m.group(4) or m.group(5) or m.group(6))


def enc_label(lab):
    m = LABEL_RE.match(lab)
    if m.group(1):
        return [ord(m.group(1)), int(m.group(2))]
    if m.group(3) or m.group(4):
        return [ord(lab)]
    return [ord(lab[0]), 1]


def cints(l):
    return ("[" + "; ".join("%d" % x for x in l) + "]%N") if l else "(@nil N)"


def csections(secs):
    if secs is None:
        return "None"
    if not secs:
        return "(Some (@nil section))"
    return "(Some [" + "; ".join("(%s, %s)" % (common.cstr(t), "None" if l is None else "Some " + clabel(l))
                                 for t, l in secs) + "])"


def ckn(items):
    """[(code point list, n)] sorted by key"""
    items = sorted(items)
    if not items:
        return "(@nil (str * nat))"
    return "[" + "; ".join("(%s, %d%%nat)" % (cints(k), n) for k, n in items) + "]"


def clkn(d):
    items = sorted(([ord(c) for c in item], L, n) for L, c in d.items() for item, n in c.items())
    if not items:
        return "(@nil (Z * str * nat))"
    return "[" + "; ".join("(%d, %s, %d%%nat)" % (L, cints(k), n) for k, L, n in items) + "]"


def ccounters(c):
    if c is None:
        return "None"
    so = lambda k: ckn([([ord(x) for x in key], n) for key, n in c[k].items()])   # noqa: E731
    pref = ckn([([0] if key is None else [1] + [ord(x) for x in key], n) for key, n in c["count_website_prefixes"].items()])
    prince = ckn([(enc_label(key), n) for key, n in c["count_prince"].items()])

    def base(k):
        return ckn([([y for lab in BASE_RE.findall(key) for y in enc_label(lab)], n) for key, n in c[k].items()])
    for k in ("count_base_structures", "count_raw_base_structures"):
        for key in c[k]:
            if "".join(BASE_RE.findall(key)) != key:
                raise ValueError("base structure %r" % key)
    return ("(Some {| k_keyboard := %s; k_emails := %s; k_providers := %s; k_urls := %s; k_hosts := %s; k_prefixes := %s; "
            "k_years := %s; k_context := %s; k_alpha := %s; k_masks := %s; k_digits := %s; k_other := %s; k_prince := %s; "
            "k_base := %s; k_raw_base := %s |})" % (
                clkn(c["count_keyboard"]), so("count_emails"), so("count_email_providers"), so("count_website_urls"),
                so("count_website_hosts"), pref, so("count_years"), so("count_context_sensitive"), clkn(c["count_alpha"]),
                clkn(c["count_alpha_masks"]), clkn(c["count_digits"]), clkn(c["count_other"]), prince,
                base("count_base_structures"), base("count_raw_base_structures")))


def cstrs(l):
    return ("[" + "; ".join(common.cstr(x) for x in l) + "]") if l else "(@nil str)"


def shard_source(hists, cases):
    """hists: [(pre, hist)], cases: Coq terms of type ccase"""
    src = ["From Coq Require Import List ZArith NArith Bool.",
           "From Pcfg Require Import Str Multiword Detect Segment SegCorr.",
           "Import ListNotations.", "Open Scope Z_scope.",
           "Definition hists : list (list str * list str) := ["]
    src.append(";\n".join("(%s, %s)" % (cstrs(p), cstrs(h)) for p, h in hists))
    src.append("].")
    src.append("Definition hmaps : list mwmap := Eval vm_compute in map history_map hists.")
    src.append("Definition cases : list ccase := [")
    src.append(";\n".join(cases))
    src.append("].")
    src.append("Eval vm_compute in (failing (check_ccase hmaps) cases).")
    return "\n".join(src)


# ---------------------------------------------------------------- the check

def shape_of(secs):
    return "?" if secs is None else "".join(l or "?" for _, l in secs)


def mw_queries(rng, mw, pre, hist):
    voc = [w for w in seg_gen.WORDS]
    qs = set()
    for _ in range(14):
        k = rng.random()
        if k < 0.3:
            w = rng.choice(voc)
        elif k < 0.8:
            w = "".join(rng.choice(voc) for _ in range(rng.choice([2, 2, 3, 4])))
        else:
            w = rng.choice(voc) + rng.choice(seg_gen.ODD) + rng.choice(voc)
        w = "".join(c for c in w.lower() if c.isalpha() and c not in seg_gen.EXCLUDED)[:30]
        if w:
            qs.add(w)
    out = []
    for w in sorted(qs):
        cnt = mw._get_count(w)
        b, ws = mw.parse(w)
        out.append((w, cnt, b, list(ws)))
    return out


def trainer_stage(ctx, kb, ctxs, tlds, kw, dist):
    """The segmentation as a WHOLE trainer run produces it (run_trainer: pass 1 trains the multi-word detector, whatever
    happens to it between the passes, pass 2 parses): the same oracle on the section lists of pass 2, 'seen n times'
    counted on the passwords pass 1 read."""
    import os
    import trainer_io as T
    rng = ctx.rng
    sc = common.scratch()
    vio = []
    plain = [w for w in seg_gen.WORDS if 4 <= len(w) <= 8 and w.isascii() and w.isalpha()]
    for j in range(ctx.scale(6, 40)):
        pre, hist = seg_gen.gen_history(rng)
        # a whole word seen at least threshold times whose two parts are too, and proper prefixes / extensions of it seen less often
        a, b = rng.sample(plain, 2)
        W = a + b
        hist = list(hist) + [a] * 5 + [b] * rng.choice([5, 6]) + [W] * rng.choice([5, 7]) + [W[:-1]] * rng.choice([1, 2, 4]) \
            + [W + "s"] * rng.choice([0, 1, 5]) + [W + "1", W.capitalize() + "!", b + a]
        rng.shuffle(hist)
        hist = [p for p in hist if p and "\n" not in p and "\r" not in p and not p.startswith("$HEX[")]
        path = os.path.join(sc, "tr%d.txt" % j)
        with open(path, "w", encoding="utf-8", newline="") as f:
            f.write("\n".join(hist) + "\n")
        mwp = None
        if pre:
            mwp = os.path.join(sc, "mw%d.txt" % j)
            with open(mwp, "w", encoding="utf-8", newline="") as f:
                f.write("\n".join(pre) + "\n")
        rec = T.train_inprocess(path, "utf-8", os.path.join(sc, "TR%d" % j), coverage=0.6, multiword=mwp)
        if not rec.ok or len(rec.seqs) < 2 or len(rec.sections) != len(rec.seqs[1]):
            dist["trainer_runs_unusable"] += 1
            continue
        dist["trainer_runs"] += 1
        dist["trainer_run_passwords"] += len(rec.seqs[1])
        pre_read = [list(r.verif_seq) for r in rec.multiword_reader]
        counts = spec_counts(pre_read[0] if pre_read else [], rec.seqs[0], kw)
        v = oracle(kb, ctxs, tlds, kw, pre, rec.seqs[0], counts, None, rec.seqs[1], rec.sections, None, None)
        for x in v:
            x["sig"] = x["sig"].replace("C05:", "C05:trainer-run:", 1)
            x["replay"] = {"pre": pre, "hist": rec.seqs[0], "pws": x["replay"]["pws"], "trainer_run": True}
        vio += v
    return vio


def run(ctx):
    rng = ctx.rng
    kb = KB()
    C = trainer_seg.extract_data()
    ctxs, tlds = C["context_strings"], C["tld_list"]
    kw = {"threshold": C["mw_threshold"], "min_len": C["mw_min_len"], "max_len": C["mw_max_len"]}
    n_hist = ctx.scale(12, 60)
    n_per_hist = ctx.scale(1700, 10000)
    coq_per_hist = ctx.scale(210, 500)
    P = set(seg_gen.pool())

    vio, samples, corr = [], [], []
    dist = Counter()
    shapes_all = set()
    nontrivial_shapes = set()
    evaluations = 0
    shards = []
    shard_cases = {}
    facts_ok = True
    for h in range(n_hist):
        pre, hist = ([], []) if h == 0 else seg_gen.gen_history(rng)
        mw = make_detector(pre, hist, kw)
        counts = spec_counts(pre, hist, kw)
        # the statement's "seen n times" against the detector's own count
        for w, n in counts.items():
            if mw._get_count(w) != n:
                vio.append({"sig": "C05:multiword-count", "what": "word %r seen %d times in training but _get_count says %d"
                            % (w, n, mw._get_count(w)), "replay": {"pre": pre, "hist": hist, "pws": [w]}})
        chosen, seen_here = [], set()
        for i in range(n_per_hist):
            if h == 0 and i < len(seg_gen.FIXED):
                pws, fams = [seg_gen.FIXED[i]], ["fixed"]
            elif rng.random() < 0.12:
                pws = [seg_gen.gen_string(rng)[0] for _ in range(rng.choice([2, 3, 4]))]
                fams = ["sequence"]
            else:
                s, fams = seg_gen.gen_string(rng)
                if rng.random() < 0.25 and counts:      # make the multi-word vocabulary of this history appear
                    ws_ = sorted(counts)
                    s = (s[:rng.randrange(len(s) + 1)] + "".join(rng.choice(ws_) for _ in range(rng.choice([1, 2, 2, 3]))))[:40]
                pws = [s]
            for s in pws:
                if not set(s) <= P or not seg_gen.check_charwise_lower(s):
                    facts_ok = False
            secs, counters, raised = run_impl(mw, pws)
            evaluations += len(pws)
            vio += oracle(kb, ctxs, tlds, kw, pre, hist, counts, mw, pws, secs, counters, raised)
            shape = "|".join(shape_of(s) for s in secs)
            kinds = {l[0] for s in secs if s for _, l in s if l}
            dist["label_kinds_%d" % min(len(kinds), 4)] += 1
            for f in fams:
                dist["fam_" + f] += 1
            if any("\u0130" in s for s in pws):
                dist["with_U+0130"] += 1
            if raised:
                dist["raised"] += 1
            first = shape not in shapes_all
            shapes_all.add(shape)
            if len(kinds) >= 2:
                nontrivial_shapes.add(shape)
            if (first or fams == ["fixed"] or (shape not in seen_here and rng.random() < 0.3) or rng.random() < 0.01) \
                    and len(chosen) < coq_per_hist:
                seen_here.add(shape)
                chosen.append((pws, secs, counters))
                if len(samples) < 5 and len(kinds) >= 3:
                    samples.append({"password": pws[0], "sections": secs[0], "history_words": len(counts)})
        cases = ["CParse 0%%nat %s [%s] %s" % (cstrs(pws), "; ".join(csections(s) for s in secs), ccounters(c))
                 for pws, secs, c in chosen]
        meta = [{"pre": pre, "hist": hist, "pws": pws} for pws, _, _ in chosen]
        for w, cnt, b, ws in mw_queries(rng, mw, pre, hist):
            cases.append("CMw 0%%nat %s %d %s %s" % (common.cstr(w), cnt, common.cbool(b), cstrs(ws)))
            meta.append({"pre": pre, "hist": hist, "mw_query": w})
            dist["mw_queries"] += 1
        dist["coq_cases"] += len(cases)
        # shards of at most 400 cases
        for s0 in range(0, len(cases), 400):
            name = "h%03d_%d" % (h, s0 // 400)
            shards.append((name, shard_source([(pre, hist)], cases[s0:s0 + 400])))
            shard_cases[name] = meta[s0:s0 + 400]
    vio += trainer_stage(ctx, kb, ctxs, tlds, kw, dist)
    corr.append(("unicode-facts:generated-strings-within-pool-and-lower-charwise", facts_ok, ""))
    # the translator tie (gen/Detect_gen.v and its equality proofs): which part no longer checks, if any
    corr.extend(detect_tie.status())
    # the translator tie of the pass orchestration (every accepted password is parsed exactly once, in pass 2)
    import trainer_run_tie
    corr.extend(trainer_run_tie.obligations())
    # negative control: one deliberately wrong expectation must be reported as a mismatch
    mw0 = make_detector([], [], kw)
    csecs, ccnt, _ = run_impl(mw0, ["a1"])
    shards.append(("zz_control", shard_source([([], [])], [
        "CParse 0%%nat %s [%s] %s" % (cstrs(["a1"]), csections(csecs[0]), ccounters(ccnt)),
        "CParse 0%%nat %s [%s] %s" % (cstrs(["a1"]), csections([("a1", "A2")]), ccounters(ccnt))])))
    for name, idx, log in common.run_case_shards("C05", shards):
        if name == "zz_control":
            corr.append(("control:a-wrong-expectation-is-reported", idx == [1], "" if idx == [1] else "control shard answered %r: %s" % (idx, log[-300:])))
            continue
        if idx is None:
            corr.append(("parse:" + name, False, log[-800:]))
        elif idx:
            corr.append(("parse:" + name, False, "model and implementation differ for cases %s; first: %s"
                         % (idx[:10], json.dumps(shard_cases[name][idx[0]], ensure_ascii=True)[:700])))
        else:
            corr.append(("parse:" + name, True, ""))
    rule = ("strings of 1-6 trigger fragments (keyboard walks, years, context strings, URL/e-mail pieces, vocabulary words, "
            "digits, symbols, characters with unusual case mappings incl. U+0130) with truncation, case changes and stray "
            "characters, under %d generated multi-word training histories; every string is parsed by the real "
            "PCFGPasswordParser and checked by the direct oracle; distinct = base-structure shape of the returned section "
            "list(s); plus whole run_trainer runs (pass 1 trains the multi-word detector, pass 2 parses) on lists holding a frequent "
            "compound, its frequent parts and rarer prefixes / extensions, same oracle on the section lists of pass 2; non-trivial = at least two different label kinds (two detectors fired)" % n_hist)
    dist["distinct_shapes"] = len(shapes_all)
    return {"evaluations": evaluations, "distinct_nontrivial": len(nontrivial_shapes), "rule": rule, "samples": samples,
            "dist": dict(dist), "corr": corr, "violations": [shrink(ctx, v) for v in dedup(vio)]}


def shrink(ctx, v):
    """delete characters / history entries while the same signature is reported"""
    rp = dict(v["replay"])
    if len(rp.get("pws", [])) != 1:
        return v

    def hits(r):
        try:
            return [w for w in replay(ctx, {"input": r}) if w["sig"] == v["sig"]]
        except Exception:   # noqa: BLE001
            return []
    best = v
    if rp.get("hist") or rp.get("pre"):
        h = hits(dict(rp, hist=[], pre=[]))
        if h:
            rp = dict(rp, hist=[], pre=[])
            best = h[0]
    changed = True
    while changed:
        changed = False
        s = rp["pws"][0]
        for i in range(len(s)):
            t = s[:i] + s[i + 1:]
            if not t:
                continue
            h = hits(dict(rp, pws=[t]))
            if h:
                rp = dict(rp, pws=[t])
                best = h[0]
                changed = True
                break
    return best


def dedup(vio):
    """keep the shortest witness per signature"""
    best = {}
    for v in vio:
        k = v["sig"]
        n = sum(len(p) for p in v["replay"].get("pws", [])) + sum(len(p) for p in v["replay"].get("hist", []))
        if k not in best or n < best[k][0]:
            best[k] = (n, v)
    return [b[1] for _, b in sorted(best.items())]


def replay(ctx, data):
    inp = data.get("input") or {}
    if "pws" not in inp:
        return []
    kb = KB()
    C = trainer_seg.extract_data()
    kw = {"threshold": C["mw_threshold"], "min_len": C["mw_min_len"], "max_len": C["mw_max_len"]}
    pre, hist, pws = inp.get("pre", []), inp.get("hist", []), inp["pws"]
    if inp.get("trainer_run"):
        # replay of a whole trainer run: the list is trained again and the same oracle applied
        import os
        import trainer_io as T
        sc = common.scratch()
        path = os.path.join(sc, "tr.txt")
        with open(path, "w", encoding="utf-8", newline="") as f:
            f.write("\n".join(hist) + "\n")
        mwp = None
        if pre:
            mwp = os.path.join(sc, "mw.txt")
            with open(mwp, "w", encoding="utf-8", newline="") as f:
                f.write("\n".join(pre) + "\n")
        rec = T.train_inprocess(path, "utf-8", os.path.join(sc, "TR"), coverage=0.6, multiword=mwp)
        if not rec.ok or len(rec.seqs) < 2 or len(rec.sections) != len(rec.seqs[1]):
            return []
        counts = spec_counts(pre, rec.seqs[0], kw)
        v = oracle(kb, C["context_strings"], C["tld_list"], kw, pre, rec.seqs[0], counts, None, rec.seqs[1], rec.sections, None, None)
        return [x for x in v if x["replay"]["pws"] == pws] or v
    mw = make_detector(pre, hist, kw)
    counts = spec_counts(pre, hist, kw)
    secs, counters, raised = run_impl(mw, pws)
    return oracle(kb, C["context_strings"], C["tld_list"], kw, pre, hist, counts, mw, pws, secs, counters, raised)
