"""C20: edit_rules only removes base structures, and only those that fail the filter.
Implementation = edit_rules.py as a subprocess on three families of rulesets:
  (G) small generated rulesets (harness/rulesets.py),
  (T) rulesets freshly written by the REAL trainer.py (--prefixcount lists in which some base
      structures are rarer than 1e-4, so that the trainer's own number formatting is what edit_rules reads),
  (L) large generated rulesets (Grammar/grammar.txt and one terminal file from tens of KiB to > 1 MiB),
each edited with --min_length/--max_length, --terminal_set, --regex, in place and with --copy, some twice;
model = EditRules.v (Python's re.search supplied as a table)."""
import hashlib
import itertools
import json
import os
import random
import re
import shutil
import subprocess

import common
import impl_next
import rulesets
import trainer_io
from props.C04 import collect

ID = "C20"
TRUSTED = ["Python's re module (re.search of the user's regexes is an oracle table; re.findall('[A-Z][0-9]{0,3}') is modelled)",
           "shutil.copytree, file system"]
ASSUMES = ["grammar.txt lines are label-concatenation<TAB>repr(float) with labels [A-Z][0-9]{1,3} (what the trainer writes: "
           "evaluated by Coq (check_wf, theorem C20_filter_checked) on every grammar.txt the real trainer writes during the run)",
           "values behind a length-indexed label have that length (C05/C06)"]

BASE = {"A": "passwordqwertyzx", "D": "1234567890123", "O": "!@#$%^&*()", "K": "1qaz2wsx3edc"}


def make_ruleset(rng, name):
    rs = {"name": name, "encoding": "utf-8", "uuid": "00000000-0000-0000-0000-%012d" % rng.randrange(10 ** 12),
          "files": {}, "grammar": [], "prince": [], "omen": None, "omen_prob": [("0", 0.1), ("1", 0.05)]}
    kinds = []
    for n in rng.sample([1, 2, 3, 4, 5, 8, 10, 12], 4):
        kinds.append("A%d" % n)
    for n in rng.sample([1, 2, 3, 4, 6, 11], 3):
        kinds.append("D%d" % n)
    for n in rng.sample([1, 2, 3], 2):
        kinds.append("O%d" % n)
    kinds += ["K4", "Y1", "X1"]
    for k in kinds:
        c, n = k[0], int(k[1:])
        if c == "A":
            vals = [(BASE["A"] * 2)[i:i + n] for i in range(3)]
            rs["files"][k] = [(v, p) for v, p in zip(dict.fromkeys(vals), [0.5, 0.3, 0.2])]
            rs["files"]["C%d" % n] = [("L" * n, 0.7), ("U" + "L" * (n - 1), 0.3)] if n > 1 else [("L", 0.6), ("U", 0.4)]
        elif c in "DOK":
            vals = [(BASE[c] * 3)[i:i + n] for i in range(2)]
            if c == "O" and rng.random() < 0.7:
                # 'other' runs that begin or end with a blank ('pass !', 'tom cat'): legal values of the line format
                blank = rng.choice([" ", " ", "\u00a0", "\u3000"])
                vals[0] = blank + vals[0][1:] if rng.random() < 0.5 else vals[0][:-1] + blank
                if n >= 2 and rng.random() < 0.5:
                    vals[1] = vals[1][:-1] + " "
            rs["files"][k] = [(v, p) for v, p in zip(dict.fromkeys(vals), [0.6, 0.4])]
        elif c == "Y":
            rs["files"][k] = [("2019", 0.5), ("1984", 0.5)]
        elif c == "X":
            rs["files"][k] = [("#1", 0.4), ("<3", 0.3), ("No.1", 0.2), ("*0*", 0.1)]
    structs = []
    for _ in range(rng.randint(5, 12)):
        s = "".join(rng.choice(kinds) for _ in range(rng.randint(1, 3)))
        if s not in structs:
            structs.append(s)
    if rng.random() < 0.8:
        structs.insert(rng.randint(0, len(structs)), "M")
    ps = sorted((rng.random() for _ in structs), reverse=True)
    tot = sum(ps)
    rs["grammar"] = [(s, p / tot) for s, p in zip(structs, ps)]
    if rng.random() < 0.6 and len(rs["grammar"]) >= 3:
        # probabilities whose repr has no decimal point (1e-05) or is an integer-looking float, as the trainer writes for rare structures
        tail = [1e-05, 2e-06, 5e-07, 1e-10]
        k = rng.randint(1, min(3, len(rs["grammar"]) - 1))
        rs["grammar"] = rs["grammar"][:-k] + [(s, tail[i]) for i, (s, _) in enumerate(rs["grammar"][-k:])]
    rs["prince"] = [(k, 1.0 / len(kinds)) for k in kinds]
    return rs


def tree_hash(d, skip=()):
    out = {}
    for root, _, files in os.walk(d):
        for f in files:
            p = os.path.join(root, f)
            rel = os.path.relpath(p, d)
            if rel in skip:
                continue
            out[rel] = hashlib.sha1(open(p, "rb").read()).hexdigest()
    return out


def tree_inodes(d):
    """(device, inode) of every file below d; os.stat follows symbolic links, so a link to a file IS that file"""
    out = {}
    for root, _, files in os.walk(d):
        for f in files:
            p = os.path.join(root, f)
            try:
                st = os.stat(p)
            except OSError:
                continue
            out[os.path.relpath(p, d)] = (st.st_dev, st.st_ino)
    return out


def read_lines(p):
    out = []
    for line in open(p, encoding="utf-8").read().split("\n"):
        if line:
            a, b = line.split("\t")[0], line.split("\t")[1]
            out.append((a, b))
    return out


def options(rng):
    o = {}
    r = rng.random()
    if r < 0.7:
        mn, mx = rng.choice([(0, 6), (4, 0), (5, 9), (8, 8), (1, 3), (6, 12), (0, 1), (10, 30)])
        o["min"], o["max"] = mn, mx
    if rng.random() < 0.4:
        o["set"] = rng.choice(["A,D", "a,d,y", "A,D,O,K,X,Y,M", "M,A", "D", "A,O,X"])
    if rng.random() < 0.35:
        o["regex"] = rng.choice(["^A", "D[0-9]+$", "A.*D", "^[ADM]", "[OX]", "^A,D",
                                 # lower-case escape classes and an inline flag: a regex is matched as typed, never case-folded
                                 r"A\d+$", r"^\w\d+$", r"D\d$,^\w", "(?i)^a", r"\d\d"])
    if not o:
        o["min"], o["max"] = 0, 8
    return o


class GuesserFailed(Exception):
    pass


def guess_lengths(code_rules_dir, name, sc, skip_markov=False, bounds=None):
    """lengths of all non-Markov guesses per base structure of the (edited) ruleset: (per, capped, expl); with bounds
    (mn, mx), the guesses that are too long ONLY through case expansion (R23) are listed in expl instead"""
    try:
        return _guess_lengths(code_rules_dir, name, sc, skip_markov, bounds)
    except Exception as e:
        raise GuesserFailed("%s: %s" % (type(e).__name__, e))


def expansion_explains(g, pt, mn, mx):
    """The guesses of pre-terminal pt whose excess over the bounds is fully explained by case expansion (R23), by the
    property's own product of the loaded groups: the same choice of values with the alpha words as stored in the files
    (no mask applied) is within [mn, mx], and the guess is that choice with str.upper() applied where the mask says U.
    In that product the only step that can change a length is upper() of a letter whose upper() has more than one
    character ('ß' -> 'SS'); a value longer than its label, a mask of another length, anything appended: not explained."""
    choices = []
    i = 0
    while i < len(pt):
        t, ix = pt[i]
        vals = g.grammar[t][ix]["values"]
        if t[0] == "A" and i + 1 < len(pt) and pt[i + 1][0][0] == "C":
            masks = g.grammar[pt[i + 1][0]][pt[i + 1][1]]["values"]
            choices.append([(w, "".join(c if mc == "L" else c.upper() for c, mc in zip(w, m)))
                            for w in vals for m in masks if len(m) == len(w) and set(m) <= {"L", "U"}])
            i += 2
        else:
            choices.append([(v, v) for v in vals])
            i += 1
    out = {}
    for combo in itertools.product(*choices):
        stored = "".join(a for a, _ in combo)
        if len(stored) >= mn and (not mx or len(stored) <= mx):
            out.setdefault("".join(b for _, b in combo), stored)
    return out


def _guess_lengths(code_rules_dir, name, sc, skip_markov=False, bounds=None):
    from lib_guesser.pcfg_grammar import PcfgGrammar
    g, _, _ = common.quiet_call(PcfgGrammar, name, os.path.join(code_rules_dir, name), "4.7", None, True, False, False, "Grammar")
    items, _, capped, _ = impl_next.full_stream(g, cap=3000, check_heap=False)
    per, expl = {}, {}
    for it in items:
        if skip_markov and any(t == "M" for t, _ in it["pt"]):
            # a trained OMEN grammar: the Markov pre-terminals stand for millions of guesses, and the property excludes them
            continue
        key = "".join(t for t, _ in it["pt"] if t[0] != "C")
        res = collect(g, it["pt"], None)
        guesses = res[0] if res else []
        ok = None
        for s in guesses:
            if bounds and bounds[1] and len(s) > bounds[1]:
                if ok is None:
                    ok = expansion_explains(g, it["pt"], bounds[0], bounds[1]) if not any(t == "M" for t, _ in it["pt"]) else {}
                if s in ok:
                    expl.setdefault(key, []).append((s, ok[s]))
                    continue
            per.setdefault(key, set()).add(len(s))
    return per, capped, expl


TOKS = re.compile(r"[A-Z][0-9]*")


def label_length(s):
    """length of every guess of structure s by the labels alone; None where the labels do not determine it
    (context labels, R13; the Markov line; labels the property does not speak about)"""
    total = 0
    for x in TOKS.findall(s):
        if x[0] == "Y":
            total += 4
        elif x[0] in "ADOK" and x[1:]:
            total += int(x[1:])
        else:
            return None
    return total


def judge(orig, after_lines, opt, per, replay, step="", expl=None):
    """one edit: `orig` -> `after_lines` under `opt`; `per` = lengths of all non-Markov guesses of the edited ruleset"""
    vio = []
    kept = set(a for a, _ in after_lines)
    # survivors are a sub-list of the original, in order, text unchanged
    it = iter(orig)
    if not all(any(x == y for y in it) for x in after_lines):
        osub = set(orig)
        odd = [x for x in after_lines if x not in osub][:4] or after_lines[:4]
        vio.append({"sig": "C20:not-a-sublist" + step, "what": "edited list is not an order-preserving sub-list of the original: %r" % (odd,),
                    "replay": replay})
    mn, mx = opt.get("min", 0), opt.get("max", 0)
    if "min" in opt:
        for s, ls in per.items():
            bad = [l for l in ls if l < mn or (mx and l > mx)]
            if bad:
                hasx = "X" in s
                vio.append({"sig": "C20:length-bound:" + ("context-label" if hasx else "plain"),
                            "what": "kept structure %s yields guesses of length %s outside [%d,%s]" % (s, sorted(bad)[:4], mn, mx or "inf"),
                            "replay": replay})
                break
        for s, gs in (expl or {}).items():
            # too long, and fully explained by upper() of a letter whose upper() has more than one character (R23)
            g0, stored = gs[0]
            vio.append({"sig": "C20:length-bound:case-expansion",
                        "what": "kept structure %s yields the guess %r of length %d outside [%d,%s]: the values as stored (%r, length %d) are within, "
                                "the capitalisation mask makes it longer (%d such guess(es))" % (s, g0, len(g0), mn, mx or "inf", stored, len(stored), len(gs)),
                        "replay": replay})
            break
    toks = TOKS.findall
    st = [x.upper() for x in opt["set"].split(",")] if "set" in opt else None
    rxs = opt["regex"].split(",") if "regex" in opt else []
    # structures removed although they pass every requested filter (by the property's own reading)
    for s, ptxt in orig:
        if s in kept:
            continue
        ok_len = True
        if "min" in opt and s != "M":
            L = label_length(s)
            if L is None:
                continue        # context labels: length not determined by the label (handled above)
            ok_len = L >= mn and (not mx or L <= mx)
        ok_set = st is None or all(x[0] in st for x in toks(s))
        ok_re = all(re.search(rx, s) for rx in rxs)
        if ok_len and ok_set and ok_re:
            vio.append({"sig": "C20:removed-although-passing" + step, "what": "structure %s passes every requested filter but was removed" % s, "replay": replay})
            break
    for s in sorted(kept):
        t = toks(s)
        bad = False
        if st is not None:
            bad |= not all(x[0] in st for x in t)
        if rxs:
            bad |= not all(re.search(rx, s) for rx in rxs)
        if "min" in opt and s != "M":
            # the labels alone (no guess needed): a structure of letters, digits, specials, walks and years has exactly this length
            L = label_length(s)
            if L is not None and L > 0 and (L < mn or (mx and L > mx)):
                bad = True
        if bad:
            vio.append({"sig": "C20:kept-although-failing" + step, "what": "structure %s fails a requested filter but was kept" % s, "replay": replay})
            break
    return vio


def edit_args(name, opt, copy=None):
    args = [common.PY, "edit_rules.py", "-r", name]
    if copy:
        args += ["--copy", copy]
    if "min" in opt:
        args += ["--min_length", str(opt["min"]), "--max_length", str(opt["max"])]
    if "set" in opt:
        args += ["--terminal_set", opt["set"]]
    if "regex" in opt:
        args += ["--regex", opt["regex"]]
    return args


def coq_case(orig, after_lines, opt):
    rxs = opt["regex"].split(",") if "regex" in opt else []
    tbl = [(rx, s, bool(re.search(rx, s))) for rx in rxs for s, _ in orig]
    cfg = "{| min_length := %d; max_length := %d; terminal_set := %s; regexes := %s |}" % (
        opt.get("min", 0), opt.get("max", 0),
        "None" if "set" not in opt else "(Some %s)" % common.clist([common.cstr(x.upper()) for x in opt["set"].split(",")]),
        common.clist([common.cstr(x) for x in rxs]) if rxs else "(@nil str)")
    pairs = lambda ls: common.clist(["(%s, %s)" % (common.cstr(a), common.cstr(b.strip())) for a, b in ls]) if ls else "(@nil (str * str))"
    impl = "None" if after_lines is None else "(Some %s)" % pairs(after_lines)
    return "(%s, %s, %s, %s)" % (
        common.clist(["(%s, %s, %s)" % (common.cstr(a), common.cstr(b), common.cbool(c)) for a, b, c in tbl]) if tbl else "(@nil (str * str * bool))",
        cfg, pairs(orig), impl)


class Env:
    """scratch copy of the code tree the tools are run in"""

    def __init__(self):
        self.sc = common.scratch()
        self.code = common.copy_code_tree(common.scratch())
        self.rules = os.path.join(self.code, "Rules")
        self.env = common.subenv()
        self.env["PYTHONPATH"] = self.code


def edit_step(E, name, opt, copy, replay, step="", lengths=True, skip_markov=False, timeout=60):
    """ONE run of edit_rules.py on Rules/<name> (with --copy <copy> when given) and every direct oracle of the property on it.
    Returns {"vio", "orig", "after" (None: it raised), "target", "raised"}.  `lengths`: also load the edited ruleset with
    the real guesser and measure every non-Markov guess (skipped for the large rulesets, which are judged by their lines)."""
    vio = []
    rd = os.path.join(E.rules, name)
    before = tree_hash(rd)
    orig = read_lines(os.path.join(rd, "Grammar", "grammar.txt"))
    gsize = os.path.getsize(os.path.join(rd, "Grammar", "grammar.txt"))
    p = subprocess.run(edit_args(name, opt, copy), cwd=E.code, env=E.env, stdout=subprocess.PIPE, stderr=subprocess.PIPE, timeout=timeout)
    tname = copy or name
    target = os.path.join(E.rules, tname)
    raised = p.returncode != 0
    other = lambda h: {k: v for k, v in h.items() if k != "Grammar/grammar.txt"}
    if copy:
        now = tree_hash(rd)
        if now != before:
            ch = sorted(k for k in set(now) | set(before) if now.get(k) != before.get(k))
            vio.append({"sig": "C20:copy-touched-source", "what": "--copy changed the source ruleset: %s (Grammar/grammar.txt of the source: %d bytes before)"
                        % (ch[:3], gsize), "replay": replay})
        if os.path.isdir(target):
            if other(tree_hash(target)) != other(before):
                vio.append({"sig": "C20:other-file-touched", "what": "files other than Grammar/grammar.txt differ in the copy", "replay": replay})
            # the copy must be a copy: a file that IS a file of the source (hard link, symbolic link) changes the source
            # ruleset as soon as anything writes to the copy
            src_ino = {v: k for k, v in tree_inodes(rd).items()}
            shared = sorted((k, src_ino[v]) for k, v in tree_inodes(target).items() if v in src_ino)
            if shared:
                vio.append({"sig": "C20:copy-shares-file-with-source",
                            "what": "--copy: %d file(s) of the copy are the same file (device, inode) as a file of the source ruleset, e.g. %s (%d bytes): "
                                    "writing to the copy writes to the source" % (len(shared), shared[0][0], os.path.getsize(os.path.join(target, shared[0][0]))),
                            "replay": replay})
    else:
        a = other(tree_hash(rd))
        b = other(before)
        if a != b:
            vio.append({"sig": "C20:other-file-touched", "what": "edit_rules changed %s" % sorted(set(a.items()) ^ set(b.items()))[:3], "replay": replay})
    after = None
    if raised:
        vio.append({"sig": "C20:raised" + step, "what": "edit_rules.py failed: %s" % p.stderr.decode("utf-8", "replace")[-200:], "replay": replay})
    else:
        try:
            after = read_lines(os.path.join(target, "Grammar", "grammar.txt"))
        except Exception as e:      # noqa: BLE001 - what edit_rules wrote is not a list of structure<TAB>probability lines
            vio.append({"sig": "C20:unreadable-grammar" + step, "what": "Grammar/grammar.txt after the edit cannot be read as structure<TAB>probability lines: %r" % (e,),
                        "replay": replay})
    if after is not None:
        per, expl = {}, {}
        if lengths:
            try:
                per, _, expl = guess_lengths(E.rules, tname, E.sc, skip_markov, (opt["min"], opt["max"]) if "min" in opt else None)
            except GuesserFailed as e:
                # no guess at all can be generated from the edited ruleset
                vio.append({"sig": "C20:guesser-fails-on-edited-ruleset", "what": "the guesser cannot generate from the %sedited ruleset: %s"
                            % ("twice " if step else "", e), "replay": replay})
        vio += judge(orig, after, opt, per, replay, step, expl)
    return {"vio": vio, "orig": orig, "after": after, "target": tname, "raised": raised}


# ---------------------------------------------------------------- (T) rulesets written by the real trainer

TRAIN_KINDS = ["word", "wd", "wd", "dw", "wsd", "wsd", "walk", "year", "ctx", "multi", "sym", "digits", "email", "site", "na", "mixed"]


# lower-case letters whose upper() has more than one character (known finding R23: a capitalisation mask makes the guess longer)
EXPANDING = ["\u00df", "\u0149", "\u01f0", "\ufb01", "\ufb02", "\u0390", "\u0587"]      # ß ŉ ǰ ﬁ ﬂ ΐ և


def make_training(rng, total, expanding=False):
    """a --prefixcount training list standing for about `total` passwords: a few very frequent ones and many that
    occur 1-3 times, so that the probabilities of the rare base structures are below 1e-4 and the trainer has to write
    them in exponent form - whatever form that is, it is what edit_rules.py is given to read"""
    def pw(kinds):
        for _ in range(50):
            p = trainer_io.gen_password(rng, "utf-8", rng.choice(kinds))
            if p and p == p.strip() and "\t" not in p and not any(c in p for c in "\r\n\x0b\x0c\x1c\x1d\x1e\x85\u2028\u2029") \
                    and all(len(c.lower()) == 1 for c in p):
                return p
        return "password1"
    lines = []
    share = [0.86, 0.09, 0.05][:rng.randint(1, 3)]
    for f in share:
        lines.append([max(1, int(total * f / sum(share))), pw(["wd", "word", "wsd", "year"])])
    for _ in range(rng.randint(14, 30)):
        lines.append([rng.choice([1, 1, 1, 1, 2, 2, 3]), pw(TRAIN_KINDS)])
    spec = {"lines": lines, "coverage": rng.choice([0.6, 0.6, 0.5, 0.9]), "ngram": rng.choice([4, 4, 3, 2])}
    if expanding:
        # a word ending in such a letter, and a word of the same length ending in a capital: the mask L..LU exists for that length
        x, w, d = rng.choice(EXPANDING), rng.choice(["a", "lov", "pass", "secre"]), rng.choice(["1", "42", "007"])
        w2 = "".join(rng.choice("bcdfgh") for _ in w)
        at = rng.randint(len(share), len(lines))
        lines[at:at] = [[rng.choice([1, 2]), w + x + d], [1, w2 + "Z" + rng.choice(["3", "77"])]]
        spec["focus"] = len(w) + 1 + len(d)       # the label length of the first of the two
    return spec


def train(E, spec, name):
    """the real trainer.py (subprocess) writes Rules/<name>; returns an error text or None"""
    tf = os.path.join(E.sc, name + ".train.txt")
    with open(tf, "w", encoding="utf-8", newline="\n") as f:
        for c, p in spec["lines"]:
            f.write("%d %s\n" % (c, p))
    shutil.rmtree(os.path.join(E.rules, name), ignore_errors=True)
    rc, out, err, _ = trainer_io.train_cli(E.code, tf, name, "utf-8", coverage=spec["coverage"], prefixcount=True,
                                           ngram=spec["ngram"], timeout=900)
    if rc != 0 or not os.path.isfile(os.path.join(E.rules, name, "Grammar", "grammar.txt")):
        return "trainer.py failed (rc %d): %s" % (rc, err[-300:])
    return None


def trainer_plans(rng, orig, extra, focus=None):
    """edits of one trained ruleset: [(options, copy?, second options or None)] - the three forms of the tool sequence first"""
    lens = sorted(set(L for L in (label_length(s) for s, _ in orig) if L))
    mid = lens[len(lens) // 2] if lens else 8
    bounds = lambda: rng.choice([(max(1, mid - 2), mid + 2), (mid, 0), (0, mid), (mid, mid), (lens[0] if lens else 1, lens[-1] if lens else 30)])
    sets = ["A,D,M", "A,D,O,K,X,Y,M", "a,d,o,y", "A,D,O,K,Y"]
    plans = []
    if focus:
        plans.append(({"min": focus, "max": focus}, True, None))
    mn, mx = bounds()
    plans.append(({"min": mn, "max": mx}, True, None))
    plans.append(({"set": rng.choice(sets)}, True, options(rng)))
    mn, mx = bounds()
    plans.append(({"min": mn, "max": mx}, False, options(rng)))
    for _ in range(extra):
        o = options(rng)
        if rng.random() < 0.5 and "min" in o:
            o["min"], o["max"] = bounds()
        plans.append((o, rng.random() < 0.5, options(rng) if rng.random() < 0.5 else None))
    return plans


# ---------------------------------------------------------------- (L) large rulesets

def large_grammar(spec, labels):
    """deterministic from spec: distinct base structures until grammar.txt has spec['bytes'] bytes, one Markov line"""
    r = random.Random(spec["seed"])
    seen, structs, size = set(), [], 0
    while size < spec["bytes"]:
        s = "".join(r.choice(labels) for _ in range(r.randint(2, 6)))
        if s in seen:
            continue
        seen.add(s)
        structs.append(s)
        size += len(s) + 24
    structs.insert(r.randrange(len(structs) + 1), "M")
    ps = sorted((r.random() for _ in structs), reverse=True)
    tot = sum(ps)
    return [(s, p / tot) for s, p in zip(structs, ps)]


def large_values(spec):
    """a terminal file of at least spec['bytes'] bytes: values of spec['len'] characters"""
    out, size, i = [], 0, 0
    while size < spec["bytes"]:
        v, p = "w" + ("%0*d" % (spec["len"] - 1, i)), 1.0 / (i + 2)
        out.append((v, p))
        size += len(v) + len(repr(p)) + 2
        i += 1
    return out


def make_large(rng, name, gbytes, tbytes):
    """a generated ruleset whose Grammar/grammar.txt has about gbytes bytes and one of whose terminal files has about
    tbytes bytes; the replay keeps the recipe (seed, sizes), not the lines"""
    rs = make_ruleset(rng, name)
    labels = [k for k in rs["files"] if k[0] != "C"]
    spec = {"seed": rng.randrange(2 ** 32), "bytes": gbytes}
    if tbytes:
        spec["terminal"] = {"label": "A9", "len": 9, "bytes": tbytes}
    rs["grammar"] = []
    return rs, spec, labels


def fill_large(rs, spec):
    rs = dict(rs, files=dict(rs["files"]))
    labels = [k for k in rs["files"] if k[0] != "C"]
    t = spec.get("terminal")
    if t:
        rs["files"][t["label"]] = large_values(t)
        rs["files"]["C%d" % t["len"]] = [("L" * t["len"], 1.0)]
        if t["label"] not in labels:
            labels.append(t["label"])
    rs["grammar"] = large_grammar(spec, labels)
    return rs


def build_source(E, inp, name):
    """write the source ruleset of a case (replay dict) as Rules/<name>; returns an error text or None"""
    shutil.rmtree(os.path.join(E.rules, name), ignore_errors=True)
    if "train" in inp:
        return train(E, inp["train"], name)
    rs = inp["ruleset"]
    if "large" in inp:
        rs = fill_large(rs, inp["large"])
    rulesets.write_ruleset(rs, os.path.join(E.rules, name))
    return None


def wf_shards(trained):
    """the hypotheses of C20_filter (check_wf of EditCorr.v) on the lines of every grammar.txt the trainer wrote"""
    shards = []
    for name, lines in trained:
        cases = ["(%s, %s)" % (common.cstr(a), common.cstr(b.strip())) for a, b in lines]
        for s in range(0, len(cases), 300):
            src = ["From Coq Require Import List Arith Bool NArith.", "From Pcfg Require Import EditRules EditCorr.", "Import ListNotations.",
                   "Definition cases : list (str * str) := [", ";\n".join(cases[s:s + 300]), "].",
                   "Eval vm_compute in (failing check_wf_line cases)."]
            shards.append(("wf_%s_%d" % (name, s // 300), "\n".join(src)))
    return shards


def run(ctx):
    n = ctx.scale(40, 300)
    E = Env()
    rules = E.rules
    vio, samples, cases = [], [], []
    dist = {"runs": 0, "with_copy": 0, "with_X": 0, "with_markov": 0, "raised": 0, "options": {}}
    seen, nontrivial = set(), 0

    def count(opt, copy, st):
        dist["runs"] += 1
        dist["with_copy"] += bool(copy)
        dist["raised"] += st["raised"]
        for k in opt:
            dist["options"][k] = dist["options"].get(k, 0) + 1

    # ---------------- (G) small generated rulesets
    for r in range(n):
        # ruleset names with letters that case-fold / normalise, and copy names that only LOOK like the source name (other case,
        # decomposed spelling, sharp s vs ss, a trailing blank): on this file system they are different folders, so --copy must
        # create one and leave the source alone
        name = ctx.rng.choice(["E%d", "E%d", "Policy%d", "D\u00e9faut%d", "Stra\u00dfe%d"]) % r
        rs = make_ruleset(ctx.rng, name)
        rd = os.path.join(rules, name)
        rulesets.write_ruleset(rs, rd)
        opt = options(ctx.rng)
        copy = None
        if ctx.rng.random() < 0.4:
            import unicodedata
            alike = [c for c in (name.lower(), name.upper(), unicodedata.normalize("NFD", name), name.replace("\u00df", "ss"), name + " ")
                     if c != name]
            copy = ctx.rng.choice(alike) if alike and ctx.rng.random() < 0.6 else name + "c"
            if os.path.exists(os.path.join(rules, copy)):
                copy = name + "c"
            dist["look_alike_copy_names"] = dist.get("look_alike_copy_names", 0) + (copy != name + "c")
        replay = {"ruleset": rs, "options": opt, "copy": bool(copy), "copy_name": copy}
        st = edit_step(E, name, opt, copy, replay)
        count(opt, copy, st)
        vio += st["vio"]
        orig, after_lines, target = st["orig"], st["after"], os.path.join(rules, st["target"])
        if after_lines is not None:
            # ---- a second edit of the ruleset just edited (what the first edit wrote is the second one's input)
            if after_lines and r % 2 == 0:
                opt2 = options(ctx.rng)
                dist["second_edits"] = dist.get("second_edits", 0) + 1
                replay2 = {"ruleset": rs, "options": opt, "copy": bool(copy), "copy_name": copy, "then": opt2}
                st2 = edit_step(E, st["target"], opt2, None, replay2, ":second-edit")
                vio += st2["vio"]
                cases.append(coq_case(after_lines, st2["after"], opt2))
                if st2["after"] is not None:
                    dist["second_edits_removing"] = dist.get("second_edits_removing", 0) + (len(st2["after"]) < len(after_lines))
        hasx = any("X" in s for s, _ in orig)
        dist["with_X"] += hasx
        dist["with_markov"] += any(s == "M" for s, _ in orig)
        key = json.dumps([rs["grammar"], opt])
        if key not in seen:
            seen.add(key)
            nontrivial += (after_lines is not None and 0 < len(after_lines) < len(orig))
        # ---- case for the model
        cases.append(coq_case(orig, after_lines, opt))
        if len(samples) < 3 and after_lines is not None and 0 < len(after_lines) < len(orig):
            samples.append({"options": opt, "copy": bool(copy), "before": [a for a, _ in orig], "after": [a for a, _ in after_lines]})
        shutil.rmtree(rd, ignore_errors=True)
        if copy:
            shutil.rmtree(target, ignore_errors=True)

    import time
    t0 = time.time()
    secs = dist["seconds"] = {"G": round(t0 - ctx.t0, 1)}
    # ---------------- (T) the real trainer writes the ruleset, edit_rules.py edits it, the real guesser loads it
    trained = []
    dt = {"trainer_runs": 0, "runs_with_case_expanding_letters": 0, "edits": 0, "lines": 0, "lines_in_exponent_form": 0, "edits_removing_some": 0, "totals": []}
    totals = [ctx.rng.randint(14000, 24000), ctx.rng.randint(24000, 40000)] if ctx.tier != "thorough" else \
        [ctx.rng.randint(14000, 60000) for _ in range(7)] + [300000]
    for k, total in enumerate(totals):
        spec = make_training(ctx.rng, total, expanding=(k % 4 == 0))
        focus = spec.pop("focus", None)
        name = "TR%d" % k
        err = train(E, spec, name)
        dt["trainer_runs"] += 1
        dt["totals"].append(sum(c for c, _ in spec["lines"]))
        if err:
            # C20 is not about the trainer; without a ruleset there is nothing to edit (C07/C19 own this)
            ctx.note("stage T: " + err)
            dt["trainer_failed"] = dt.get("trainer_failed", 0) + 1
            continue
        src = os.path.join(rules, name)
        pristine = tree_hash(src)
        orig0 = read_lines(os.path.join(src, "Grammar", "grammar.txt"))
        trained.append((name, orig0))
        dt["lines"] += len(orig0)
        dt["lines_in_exponent_form"] += sum(1 for _, b in orig0 if "e" in b.lower())
        dt["runs_with_case_expanding_letters"] += any(len(c.upper()) != 1 for _, p in spec["lines"] for c in p)
        if len(samples) < 5:
            samples.append({"trained_from": spec["lines"][:6], "grammar.txt": ["%s\t%s" % x for x in orig0[:3] + orig0[-3:]]})
        for j, (opt, with_copy, opt2) in enumerate(trainer_plans(ctx.rng, orig0, ctx.scale(3, 8), focus)):
            base = {"train": spec, "options": opt, "copy": with_copy}
            if with_copy:
                sname, copy = name, "%sc%d" % (name, j)
            else:
                # in place: on a byte-identical duplicate made here, so that the trained ruleset serves every edit
                sname, copy = "%si%d" % (name, j), None
                shutil.copytree(src, os.path.join(rules, sname))
            st = edit_step(E, sname, opt, copy, base, skip_markov=True)
            count(opt, with_copy, st)
            dt["edits"] += 1
            vio += st["vio"]
            cases.append(coq_case(st["orig"], st["after"], opt))
            if st["after"] is not None:
                some = 0 < len(st["after"]) < len(st["orig"])
                dt["edits_removing_some"] += some
                nontrivial += some
                if opt2 is not None and st["after"]:
                    st2 = edit_step(E, st["target"], opt2, None, dict(base, then=opt2), ":second-edit", skip_markov=True)
                    dist["second_edits"] = dist.get("second_edits", 0) + 1
                    vio += st2["vio"]
                    cases.append(coq_case(st["after"], st2["after"], opt2))
            for d in set([st["target"], sname]) - {name}:
                shutil.rmtree(os.path.join(rules, d), ignore_errors=True)
            if tree_hash(src) != pristine:
                break       # reported above (copy-touched-source); the trained ruleset is no longer what the trainer wrote
        shutil.rmtree(src, ignore_errors=True)
    dist["trainer_stage"] = dt
    secs["T"] = round(time.time() - t0, 1)
    t0 = time.time()

    # ---------------- (L) large rulesets: grammar.txt and a terminal file of tens of KiB up to more than 1 MiB
    KiB = 1024
    sizes = [(ctx.rng.randint(1250, 1500) * KiB, ctx.rng.randint(1100, 1400) * KiB), (ctx.rng.randint(70, 500) * KiB, 0)]
    if ctx.tier == "thorough":
        sizes += [(ctx.rng.randint(2100, 4200) * KiB, ctx.rng.randint(2100, 3000) * KiB), (ctx.rng.randint(520, 1020) * KiB, ctx.rng.randint(520, 1020) * KiB),
                  (ctx.rng.randint(1030, 1200) * KiB, 0), (ctx.rng.randint(16, 70) * KiB, ctx.rng.randint(1030, 1200) * KiB)]
    dl = {"rulesets": 0, "edits": 0, "grammar_bytes": [], "largest_terminal_bytes": [], "structures": [], "edits_removing_some": 0}
    for k, (gbytes, tbytes) in enumerate(sizes):
        name = "L%d" % k
        rs, spec, labels = make_large(ctx.rng, name, gbytes, tbytes)
        base0 = {"ruleset": rs, "large": spec}
        build_source(E, base0, name)
        src = os.path.join(rules, name)
        dl["rulesets"] += 1
        dl["grammar_bytes"].append(os.path.getsize(os.path.join(src, "Grammar", "grammar.txt")))
        dl["largest_terminal_bytes"].append(max(os.path.getsize(os.path.join(src, "Alpha", f)) for f in os.listdir(os.path.join(src, "Alpha"))))
        big = spec.get("terminal", {}).get("label")
        # with --copy: bounds; a terminal set / a regex that speaks about the label of the large terminal file; then in place, twice
        tsets = ["A,D,M", "A,D,O,Y,M", "a,d"]
        rxs = (["%s" % big, "^%s" % big, "%s$" % big] if big else []) + ["^A", "D[0-9]+$", "^[ADM]"]
        plans = [({"min": ctx.rng.choice([5, 8, 10]), "max": ctx.rng.choice([12, 16, 0])}, True, None),
                 (ctx.rng.choice([{"set": ctx.rng.choice(tsets)}, {"regex": ctx.rng.choice(rxs)},
                                  {"set": ctx.rng.choice(tsets), "regex": ctx.rng.choice(rxs)}]), True, None),
                 (options(ctx.rng), False, options(ctx.rng))]
        for j, (opt, with_copy, opt2) in enumerate(plans):
            base = dict(base0, options=opt, copy=with_copy)
            copy = ("%sc%d" % (name, j)) if with_copy else None
            st = edit_step(E, name, opt, copy, base, lengths=False, timeout=600)
            count(opt, with_copy, st)
            dl["edits"] += 1
            vio += st["vio"]
            if j == 0:
                dl["structures"].append(len(st["orig"]))
            if st["after"] is not None:
                some = 0 < len(st["after"]) < len(st["orig"])
                dl["edits_removing_some"] += some
                nontrivial += some
                if opt2 is not None and st["after"]:
                    st2 = edit_step(E, st["target"], opt2, None, dict(base, then=opt2), ":second-edit", lengths=False, timeout=600)
                    dist["second_edits"] = dist.get("second_edits", 0) + 1
                    vio += st2["vio"]
            if copy:
                shutil.rmtree(os.path.join(rules, copy), ignore_errors=True)
        shutil.rmtree(src, ignore_errors=True)
    dist["large_stage"] = dl
    secs["L"] = round(time.time() - t0, 1)

    shards = []
    per = 40
    for s in range(0, len(cases), per):
        src = ["From Coq Require Import List Arith Bool NArith.", "From Pcfg Require Import EditRules EditCorr.", "Import ListNotations.",
               "Definition cases : list (list (str * str * bool) * config * list (str * str) * option (list (str * str))) := [",
               ";\n".join(cases[s:s + per]), "].", "Eval vm_compute in (failing check_edit cases)."]
        shards.append(("s%03d" % (s // per), "\n".join(src)))
    shards += wf_shards(trained)
    corr = []
    for name, idx, log in common.run_case_shards("C20", shards):
        if name.startswith("wf_"):
            tr = dict(trained)[name.split("_")[1]]
            off = int(name.split("_")[2]) * 300
            if idx is None:
                corr.append(("trainer-lines:" + name, False, log[-800:]))
            elif idx:
                corr.append(("trainer-lines:" + name, False,
                             "grammar.txt as the trainer wrote it does not satisfy the hypotheses of C20_filter (structure = concatenation of its labels, "
                             "no upper-case letter in the probability text), e.g. line %r" % ("%s\t%s" % tr[off + idx[0]],)))
            else:
                corr.append(("trainer-lines:" + name, True, ""))
        elif idx is None:
            corr.append(("edit:" + name, False, log[-800:]))
        elif idx:
            corr.append(("edit:" + name, False, "model edit and edit_rules.py differ for cases %s" % idx[:10]))
        else:
            corr.append(("edit:" + name, True, ""))
    rule = ("(G) generated rulesets with multi-digit lengths (A10, A12, D11), years, context labels, keyboard walks and a Markov line; "
            "edit_rules.py as a subprocess with combinations of --min_length/--max_length, --terminal_set (incl. lower-case), --regex and "
            "--copy, every second ruleset edited a second time with fresh options; 'other' values beginning / ending with a blank "
            "(space, NBSP, U+3000); grammar.txt before/after, directory hashes, and the lengths of ALL non-Markov guesses of the edited ruleset; "
            "(T) rulesets written by the real trainer.py from --prefixcount lists standing for 14000-40000 passwords (thorough: up to 300000) in which "
            "most base structures are rarer than 1e-4, each edited with --copy and in place (bounds around the lengths present, terminal sets, "
            "regexes), half of them twice, loaded by the real guesser; the trainer's lines are also tested against the hypotheses of C20_filter by Coq; "
            "the first list always holds a word ending in a letter whose upper() is longer than the letter (ss-ligature, fi-ligature, ...) beside a word of that "
            "length ending in a capital, and is edited with min = max = that structure's length (R23; reported as case-expansion only when the "
            "property's own product of the loaded groups explains the whole excess); "
            "(L) generated rulesets whose grammar.txt has 70 KiB-1.5 MiB (thorough: up to 4 MiB) and one of whose terminal files has more than 1 MiB, "
            "edited with --copy (bounds; a terminal set / regex about the label of the large file) and in place twice, judged line by line; "
            "with --copy: every file of the source hashed before/after, no file of the copy may be the same file (device, inode) as one of the source; "
            "non-trivial = some but not all structures removed; distinct by (grammar.txt, options)")
    return {"evaluations": dist["runs"], "distinct_nontrivial": nontrivial, "rule": rule, "samples": samples,
            "corr": corr, "violations": vio, "dist": dist}


def replay(ctx, data):
    """the recorded history again: build the source ruleset (generated / trained by the real trainer / large, from its recipe),
    the first edit (with --copy when recorded), then the second edit of the result when recorded; all oracles of run()"""
    inp = data.get("input") or {}
    if "ruleset" not in inp and "train" not in inp:
        return []
    E = Env()
    name = inp["ruleset"]["name"] if "ruleset" in inp else "TR0"
    err = build_source(E, inp, name)
    if err:
        return [{"sig": "C20:replay-cannot-build-source", "what": err, "replay": inp}]
    trained, large = "train" in inp, "large" in inp
    kw = {"lengths": not large, "skip_markov": trained, "timeout": 600}
    st = edit_step(E, name, inp["options"], (inp.get("copy_name") or (name + "c")) if inp.get("copy") else None, inp, **kw)
    vio = list(st["vio"])
    if "then" in inp and st["after"]:
        vio += edit_step(E, st["target"], inp["then"], None, inp, ":second-edit", **kw)["vio"]
    return vio
