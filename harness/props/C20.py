"""C20: edit_rules only removes base structures, and only those that fail the filter.
Implementation = edit_rules.py as a subprocess on copies of generated rulesets,
model = EditRules.v (Python's re.search supplied as a table)."""
import hashlib
import json
import os
import re
import shutil
import subprocess

import common
import impl_next
import rulesets
from props.C04 import collect

ID = "C20"
TRUSTED = ["Python's re module (re.search of the user's regexes is an oracle table; re.findall('[A-Z][0-9]{0,3}') is modelled)",
           "shutil.copytree, file system"]
ASSUMES = ["grammar.txt lines are label-concatenation<TAB>repr(float) with labels [A-Z][0-9]{1,3} (what the trainer writes)",
           "values behind a length-indexed label have that length (C05/C06)"]

BASE = {"A": "passwordqwertyzx", "D": "1234567890123", "O": "!@#$%^&*()", "K": "1qaz2wsx3edc"}


def make_ruleset(rng, name):
    rs = {"name": name, "encoding": "utf-8", "uuid": "00000000-0000-0000-0000-%012d" % rng.randrange(10 ** 12),
          "files": {}, "grammar": [], "prince": [], "omen": None, "omen_prob": [("0", 0.1), ("1", 0.05)]}
    kinds = []
    for n in rng.sample([1, 2, 3, 4, 5, 8, 10, 12], 4):
        kinds.append("A%d" % n)
    for n in rng.sample([1, 2, 3, 4, 6, 11], 3):
        kinds.append("D%d" % n)
    for n in rng.sample([1, 2, 3], 2):
        kinds.append("O%d" % n)
    kinds += ["K4", "Y1", "X1"]
    for k in kinds:
        c, n = k[0], int(k[1:])
        if c == "A":
            vals = [(BASE["A"] * 2)[i:i + n] for i in range(3)]
            rs["files"][k] = [(v, p) for v, p in zip(dict.fromkeys(vals), [0.5, 0.3, 0.2])]
            rs["files"]["C%d" % n] = [("L" * n, 0.7), ("U" + "L" * (n - 1), 0.3)] if n > 1 else [("L", 0.6), ("U", 0.4)]
        elif c in "DOK":
            vals = [(BASE[c] * 3)[i:i + n] for i in range(2)]
            if c == "O" and rng.random() < 0.7:
                # 'other' runs that begin or end with a blank ('pass !', 'tom cat'): legal values of the line format
                blank = rng.choice([" ", " ", "\u00a0", "\u3000"])
                vals[0] = blank + vals[0][1:] if rng.random() < 0.5 else vals[0][:-1] + blank
                if n >= 2 and rng.random() < 0.5:
                    vals[1] = vals[1][:-1] + " "
            rs["files"][k] = [(v, p) for v, p in zip(dict.fromkeys(vals), [0.6, 0.4])]
        elif c == "Y":
            rs["files"][k] = [("2019", 0.5), ("1984", 0.5)]
        elif c == "X":
            rs["files"][k] = [("#1", 0.4), ("<3", 0.3), ("No.1", 0.2), ("*0*", 0.1)]
    structs = []
    for _ in range(rng.randint(5, 12)):
        s = "".join(rng.choice(kinds) for _ in range(rng.randint(1, 3)))
        if s not in structs:
            structs.append(s)
    if rng.random() < 0.8:
        structs.insert(rng.randint(0, len(structs)), "M")
    ps = sorted((rng.random() for _ in structs), reverse=True)
    tot = sum(ps)
    rs["grammar"] = [(s, p / tot) for s, p in zip(structs, ps)]
    if rng.random() < 0.6 and len(rs["grammar"]) >= 3:
        # probabilities whose repr has no decimal point (1e-05) or is an integer-looking float, as the trainer writes for rare structures
        tail = [1e-05, 2e-06, 5e-07, 1e-10]
        k = rng.randint(1, min(3, len(rs["grammar"]) - 1))
        rs["grammar"] = rs["grammar"][:-k] + [(s, tail[i]) for i, (s, _) in enumerate(rs["grammar"][-k:])]
    rs["prince"] = [(k, 1.0 / len(kinds)) for k in kinds]
    return rs


def tree_hash(d, skip=()):
    out = {}
    for root, _, files in os.walk(d):
        for f in files:
            p = os.path.join(root, f)
            rel = os.path.relpath(p, d)
            if rel in skip:
                continue
            out[rel] = hashlib.sha1(open(p, "rb").read()).hexdigest()
    return out


def read_lines(p):
    out = []
    for line in open(p, encoding="utf-8").read().split("\n"):
        if line:
            a, b = line.split("\t")[0], line.split("\t")[1]
            out.append((a, b))
    return out


def options(rng):
    o = {}
    r = rng.random()
    if r < 0.7:
        mn, mx = rng.choice([(0, 6), (4, 0), (5, 9), (8, 8), (1, 3), (6, 12), (0, 1), (10, 30)])
        o["min"], o["max"] = mn, mx
    if rng.random() < 0.4:
        o["set"] = rng.choice(["A,D", "a,d,y", "A,D,O,K,X,Y,M", "M,A", "D", "A,O,X"])
    if rng.random() < 0.35:
        o["regex"] = rng.choice(["^A", "D[0-9]+$", "A.*D", "^[ADM]", "[OX]", "^A,D"])
    if not o:
        o["min"], o["max"] = 0, 8
    return o


class GuesserFailed(Exception):
    pass


def guess_lengths(code_rules_dir, name, sc):
    """lengths of all non-Markov guesses per base structure of the (edited) ruleset"""
    try:
        return _guess_lengths(code_rules_dir, name, sc)
    except Exception as e:
        raise GuesserFailed("%s: %s" % (type(e).__name__, e))


def _guess_lengths(code_rules_dir, name, sc):
    from lib_guesser.pcfg_grammar import PcfgGrammar
    g, _, _ = common.quiet_call(PcfgGrammar, name, os.path.join(code_rules_dir, name), "4.7", None, True, False, False, "Grammar")
    items, _, capped, _ = impl_next.full_stream(g, cap=3000, check_heap=False)
    per = {}
    for it in items:
        key = "".join(t for t, _ in it["pt"] if t[0] != "C")
        res = collect(g, it["pt"], None)
        for s in (res[0] if res else []):
            per.setdefault(key, set()).add(len(s))
    return per, capped


def judge(orig, after_lines, opt, per, replay, step=""):
    """one edit: `orig` -> `after_lines` under `opt`; `per` = lengths of all non-Markov guesses of the edited ruleset"""
    vio = []
    kept = set(a for a, _ in after_lines)
    # survivors are a sub-list of the original, in order, text unchanged
    it = iter(orig)
    if not all(any(x == y for y in it) for x in after_lines):
        vio.append({"sig": "C20:not-a-sublist" + step, "what": "edited list is not an order-preserving sub-list of the original: %r" % after_lines[:4],
                    "replay": replay})
    mn, mx = opt.get("min", 0), opt.get("max", 0)
    if "min" in opt:
        for s, ls in per.items():
            bad = [l for l in ls if l < mn or (mx and l > mx)]
            if bad:
                hasx = "X" in s
                vio.append({"sig": "C20:length-bound:" + ("context-label" if hasx else "plain"),
                            "what": "kept structure %s yields guesses of length %s outside [%d,%s]" % (s, sorted(bad)[:4], mn, mx or "inf"),
                            "replay": replay})
                break
    toks = lambda s: re.findall(r"[A-Z][0-9]*", s)
    # structures removed although they pass every requested filter (by the property's own reading)
    for s, ptxt in orig:
        if s in kept:
            continue
        ok_len = True
        if "min" in opt and s != "M":
            t = toks(s)
            if "X1" in t:
                continue        # context labels: length not determined by the label (handled above)
            L = sum(4 if x[0] == "Y" else int(x[1:]) for x in t)
            ok_len = L >= mn and (not mx or L <= mx)
        ok_set = True
        if "set" in opt:
            st = [x.upper() for x in opt["set"].split(",")]
            ok_set = all(x[0] in st for x in toks(s))
        ok_re = True
        if "regex" in opt:
            ok_re = all(re.search(rx, s) for rx in opt["regex"].split(","))
        if ok_len and ok_set and ok_re:
            vio.append({"sig": "C20:removed-although-passing" + step, "what": "structure %s passes every requested filter but was removed" % s, "replay": replay})
            break
    for s in kept:
        t = toks(s)
        bad = False
        if "set" in opt:
            st = [x.upper() for x in opt["set"].split(",")]
            bad |= not all(x[0] in st for x in t)
        if "regex" in opt:
            bad |= not all(re.search(rx, s) for rx in opt["regex"].split(","))
        if bad:
            vio.append({"sig": "C20:kept-although-failing" + step, "what": "structure %s fails a requested filter but was kept" % s, "replay": replay})
            break
    return vio


def edit_args(name, opt, copy=None):
    args = [common.PY, "edit_rules.py", "-r", name]
    if copy:
        args += ["--copy", copy]
    if "min" in opt:
        args += ["--min_length", str(opt["min"]), "--max_length", str(opt["max"])]
    if "set" in opt:
        args += ["--terminal_set", opt["set"]]
    if "regex" in opt:
        args += ["--regex", opt["regex"]]
    return args


def coq_case(orig, after_lines, opt):
    rxs = opt["regex"].split(",") if "regex" in opt else []
    tbl = [(rx, s, bool(re.search(rx, s))) for rx in rxs for s, _ in orig]
    cfg = "{| min_length := %d; max_length := %d; terminal_set := %s; regexes := %s |}" % (
        opt.get("min", 0), opt.get("max", 0),
        "None" if "set" not in opt else "(Some %s)" % common.clist([common.cstr(x.upper()) for x in opt["set"].split(",")]),
        common.clist([common.cstr(x) for x in rxs]) if rxs else "(@nil str)")
    pairs = lambda ls: common.clist(["(%s, %s)" % (common.cstr(a), common.cstr(b.strip())) for a, b in ls]) if ls else "(@nil (str * str))"
    impl = "None" if after_lines is None else "(Some %s)" % pairs(after_lines)
    return "(%s, %s, %s, %s)" % (
        common.clist(["(%s, %s, %s)" % (common.cstr(a), common.cstr(b), common.cbool(c)) for a, b, c in tbl]) if tbl else "(@nil (str * str * bool))",
        cfg, pairs(orig), impl)


def run(ctx):
    n = ctx.scale(40, 300)
    sc = common.scratch()
    code = common.copy_code_tree(common.scratch())
    rules = os.path.join(code, "Rules")
    env = common.subenv()
    env["PYTHONPATH"] = code
    vio, samples, cases = [], [], []
    dist = {"runs": 0, "with_copy": 0, "with_X": 0, "with_markov": 0, "raised": 0, "options": {}}
    seen, nontrivial = set(), 0
    for r in range(n):
        name = "E%d" % r
        rs = make_ruleset(ctx.rng, name)
        rd = os.path.join(rules, name)
        rulesets.write_ruleset(rs, rd)
        opt = options(ctx.rng)
        copy = ("E%dc" % r) if ctx.rng.random() < 0.35 else None
        args = edit_args(name, opt, copy)
        before = tree_hash(rd)
        orig = read_lines(os.path.join(rd, "Grammar", "grammar.txt"))
        p = subprocess.run(args, cwd=code, env=env, stdout=subprocess.PIPE, stderr=subprocess.PIPE, timeout=60)
        dist["runs"] += 1
        dist["with_copy"] += bool(copy)
        for k in opt:
            dist["options"][k] = dist["options"].get(k, 0) + 1
        target = os.path.join(rules, copy) if copy else rd
        replay = {"ruleset": rs, "options": opt, "copy": bool(copy)}
        raised = p.returncode != 0
        dist["raised"] += raised
        after_lines = None if raised else read_lines(os.path.join(target, "Grammar", "grammar.txt"))
        # ---- direct oracles
        if copy:
            if tree_hash(rd) != before:
                vio.append({"sig": "C20:copy-touched-source", "what": "--copy changed the source ruleset", "replay": replay})
            if os.path.isdir(target):
                a = tree_hash(target, skip=("Grammar/grammar.txt",))
                b = {k: v for k, v in before.items() if k != "Grammar/grammar.txt"}
                if a != b:
                    vio.append({"sig": "C20:other-file-touched", "what": "files other than Grammar/grammar.txt differ in the copy", "replay": replay})
        else:
            a = tree_hash(rd, skip=("Grammar/grammar.txt",))
            b = {k: v for k, v in before.items() if k != "Grammar/grammar.txt"}
            if a != b:
                vio.append({"sig": "C20:other-file-touched", "what": "edit_rules changed %s" % sorted(set(a.items()) ^ set(b.items()))[:3], "replay": replay})
        if raised:
            vio.append({"sig": "C20:raised", "what": "edit_rules.py failed: %s" % p.stderr.decode()[-200:], "replay": replay})
        else:
            try:
                per, capped = guess_lengths(rules, os.path.basename(target), sc)
            except GuesserFailed as e:
                # no guess at all can be generated from the edited ruleset
                vio.append({"sig": "C20:guesser-fails-on-edited-ruleset", "what": "the guesser cannot generate from the edited ruleset: %s" % e, "replay": replay})
                per = {}
            vio += judge(orig, after_lines, opt, per, replay)
            # ---- a second edit of the ruleset just edited (what the first edit wrote is the second one's input)
            if after_lines and r % 2 == 0:
                opt2 = options(ctx.rng)
                tname = os.path.basename(target)
                before2 = tree_hash(target)
                p2 = subprocess.run(edit_args(tname, opt2), cwd=code, env=env, stdout=subprocess.PIPE, stderr=subprocess.PIPE, timeout=60)
                dist["second_edits"] = dist.get("second_edits", 0) + 1
                replay2 = {"ruleset": rs, "options": opt, "copy": bool(copy), "then": opt2}
                if p2.returncode != 0:
                    vio.append({"sig": "C20:raised:second-edit", "what": "second edit_rules.py run failed: %s" % p2.stderr.decode()[-200:], "replay": replay2})
                    cases.append(coq_case(after_lines, None, opt2))
                else:
                    after2 = read_lines(os.path.join(target, "Grammar", "grammar.txt"))
                    try:
                        per2, _ = guess_lengths(rules, tname, sc)
                    except GuesserFailed as e:
                        vio.append({"sig": "C20:guesser-fails-on-edited-ruleset", "what": "the guesser cannot generate from the twice edited ruleset: %s" % e, "replay": replay2})
                        per2 = {}
                    vio += judge(after_lines, after2, opt2, per2, replay2, ":second-edit")
                    a2 = tree_hash(target, skip=("Grammar/grammar.txt",))
                    if a2 != {k: v for k, v in before2.items() if k != "Grammar/grammar.txt"}:
                        vio.append({"sig": "C20:other-file-touched", "what": "the second edit changed files other than Grammar/grammar.txt", "replay": replay2})
                    cases.append(coq_case(after_lines, after2, opt2))
                    dist["second_edits_removing"] = dist.get("second_edits_removing", 0) + (len(after2) < len(after_lines))
        hasx = any("X" in s for s, _ in orig)
        dist["with_X"] += hasx
        dist["with_markov"] += any(s == "M" for s, _ in orig)
        key = json.dumps([rs["grammar"], opt])
        if key not in seen:
            seen.add(key)
            nontrivial += (after_lines is not None and 0 < len(after_lines) < len(orig))
        # ---- case for the model
        cases.append(coq_case(orig, after_lines, opt))
        if len(samples) < 3 and after_lines is not None and 0 < len(after_lines) < len(orig):
            samples.append({"options": opt, "copy": bool(copy), "before": [a for a, _ in orig], "after": [a for a, _ in after_lines]})
        shutil.rmtree(rd, ignore_errors=True)
        if copy:
            shutil.rmtree(target, ignore_errors=True)
    shards = []
    per = 40
    for s in range(0, len(cases), per):
        src = ["From Coq Require Import List Arith Bool NArith.", "From Pcfg Require Import EditRules EditCorr.", "Import ListNotations.",
               "Definition cases : list (list (str * str * bool) * config * list (str * str) * option (list (str * str))) := [",
               ";\n".join(cases[s:s + per]), "].", "Eval vm_compute in (failing check_edit cases)."]
        shards.append(("s%03d" % (s // per), "\n".join(src)))
    corr = []
    for name, idx, log in common.run_case_shards("C20", shards):
        if idx is None:
            corr.append(("edit:" + name, False, log[-800:]))
        elif idx:
            corr.append(("edit:" + name, False, "model edit and edit_rules.py differ for cases %s" % idx[:10]))
        else:
            corr.append(("edit:" + name, True, ""))
    rule = ("generated rulesets with multi-digit lengths (A10, A12, D11), years, context labels, keyboard walks and a Markov line; "
            "edit_rules.py as a subprocess with combinations of --min_length/--max_length, --terminal_set (incl. lower-case), --regex and "
            "--copy, every second ruleset edited a second time with fresh options; 'other' values beginning / ending with a blank "
            "(space, NBSP, U+3000); grammar.txt before/after, directory hashes, and the lengths of ALL non-Markov guesses of the edited ruleset; "
            "non-trivial = some but not all structures removed; distinct by (grammar.txt, options)")
    return {"evaluations": dist["runs"], "distinct_nontrivial": nontrivial, "rule": rule, "samples": samples,
            "corr": corr, "violations": vio, "dist": dist}


def replay(ctx, data):
    inp = data.get("input") or {}
    if "ruleset" not in inp:
        return []
    rs, opt = inp["ruleset"], inp["options"]
    code = common.copy_code_tree(common.scratch())
    rules = os.path.join(code, "Rules")
    env = common.subenv()
    env["PYTHONPATH"] = code
    rd = os.path.join(rules, rs["name"])
    rulesets.write_ruleset(rs, rd)
    args = [common.PY, "edit_rules.py", "-r", rs["name"]]
    if "min" in opt:
        args += ["--min_length", str(opt["min"]), "--max_length", str(opt["max"])]
    if "set" in opt:
        args += ["--terminal_set", opt["set"]]
    if "regex" in opt:
        args += ["--regex", opt["regex"]]
    p = subprocess.run(args, cwd=code, env=env, stdout=subprocess.PIPE, stderr=subprocess.PIPE, timeout=60)
    if p.returncode != 0:
        return [{"sig": "C20:raised", "what": p.stderr.decode()[-200:], "replay": inp}]
    try:
        per, _ = guess_lengths(rules, rs["name"], common.scratch())
    except GuesserFailed as e:
        return [{"sig": "C20:guesser-fails-on-edited-ruleset", "what": str(e), "replay": inp}]
    mn, mx = opt.get("min", 0), opt.get("max", 0)
    if "min" in opt:
        for s, ls in per.items():
            bad = [l for l in ls if l < mn or (mx and l > mx)]
            if bad:
                return [{"sig": "C20:length-bound:" + ("context-label" if "X" in s else "plain"),
                         "what": "kept structure %s yields guesses of length %s outside [%d,%s]" % (s, sorted(bad)[:4], mn, mx or "inf"), "replay": inp}]
    return []
