"""C03: every supported training password is reproduced by the trained grammar;
probabilities sum to 1.  End to end: real trainer.py (subprocess) -> rule
directory -> real guesser (skip_brute) run to exhaustion -> language.
Model side: Pipeline.v is ONE executable model of the whole chain (trainer
passes, counters, probability lists, files, the guesser's loaders with
skip_brute, the next algorithm, the expansion); PipelineProofs.v proves the
property over it.  Correspondence: on the small training lists the model
itself is executed by vm_compute (binary64 instance, finite repr/float()
tables) and compared with what the real trainer -> guesser produced: the
loaded grammar (every group), the base-structure list and the multiset of all
guesses.  EndToEnd.v's mask round trip is still checked on every alpha tile."""
import json
import os

import common
import impl_next
import trainer_io
from props.C04 import collect

ID = "C03"
TRUSTED = ["C03_reproduced is ONE theorem over ONE executable pipeline model (coq/theories/Pipeline.v: check_valid, multi-word pass, "
           "detectors, counters, probability lists, Markov pseudo-count, file names and config lists, the text files, the guesser's "
           "terminal and base-structure loaders with skip_brute, the next algorithm for any heap meeting pop_ok_okb, the expansion); "
           "the model is tied to the source by executing it (vm_compute, binary64, finite repr/float() tables of the interpreter) on "
           "the small training lists and comparing with the real trainer -> guesser: every loaded group, the base-structure list, "
           "the multiset of guesses",
           "oracles assumed by C03_reproduced (PipelineDisk.io_ok): float(repr(p)) == p for finite p >= 0 with repr over 0-9.e+-infa, "
           "the ruleset encoding encodes ASCII, the training passwords and the lower case of what it encodes",
           "not modelled: OMEN training and its files (with skip_brute they only have to load), config.ini through configparser/json "
           "(section -> name/directory table is Counters.config_dirs + Pipeline.guesser_sections, exercised by the correspondence), "
           "decoding of the training file (C19: the model starts from the decoded lines)",
           "str.upper()/lower()/isalpha()/isdigit()/isupper() tables of the interpreter (gen/Unicode_gen.v; per case for the "
           "characters of the case); case_ok is also evaluated per password by the harness"]
ASSUMES = ["domain of the property: every letter of the password has a one-to-one upper/lower mapping (case_ok_pw)",
           "structure without e-mail / website segment (supported_pw)",
           "binary64 instance: the computable check f64_arith_ok on the run's own counters (finite counts not above their total, "
           "P(M) < 1 in binary64, rescaled base probabilities finite; evaluated on every case by the correspondence); the exact-"
           "rational instance (C03_reproduced_exact, C03_sum_one_Q) needs only 0 < coverage <= 1"]


def case_ok(pw):
    for c in pw:
        if c.isupper():
            l = c.lower()
            if len(l) != 1 or l.upper() != c:
                return False
        else:
            if c.lower() != c:
                return False
            # a letter that is neither upper nor lower case but changes under upper() (title case etc.)
            if c.isalpha() and c.upper() != c and (len(c.upper()) != 1 or c.upper().lower() != c):
                return False
    return True


RULE_DIRS = ("Alpha", "Capitalization", "Digits", "Other", "Keyboard", "Years", "Context")


def pipeline_case(passwords, enc, cov, g, tree, all_lines):
    """One case for PipelineCorr.check_pipeline: the inputs of the model and what the real code produced."""
    import seg_gen
    T = trainer_io
    chars = set("".join(passwords))
    for _ in range(2):
        chars |= set("".join(c.lower() + c.upper() for c in chars))
    facts = seg_gen.unicode_facts(sorted(chars))
    extra = T.clist(facts, lambda f: "(%d%%N, Build_cinfo %s %s %s %s %s)" % (
        f[0], common.cbool(f[1]), common.cbool(f[2]), common.cbool(f[3]), T.cs(f[4]), T.cs(f[5])), "(N * cinfo)")
    floats, ptab, texts = [], {}, []
    for rel, data in sorted(tree.items()):
        d = rel.split(os.sep)[0]
        if d in RULE_DIRS:
            text = data.decode(enc)
        elif rel == os.path.join("Grammar", "grammar.txt"):
            text = data.decode("ascii")
        else:
            continue
        texts.append(text)
        ptab.update(T.pfloat_table(text))
        for _, ptxt in T.parse_rule_file(data, enc if d in RULE_DIRS else "ascii"):
            floats.append(float(ptxt))
    unenc = T.unencodable_chars("".join(texts) + "".join(chars), enc)
    gram = [(name, [(grp["values"], grp["prob"]) for grp in groups])
            for name, groups in g.grammar.items() if name[:1] not in ("M", "E", "W")]
    bases = [(b["prob"], b["replacements"]) for b in g.base]
    cgram = T.clist(gram, lambda e: T.cpair(T.cs(e[0]), T.clist(e[1], lambda gr: T.cpair(T.cstrs(gr[0]), T.cf(gr[1])),
                                                                 "(list str * float)")),
                    "(str * list (list str * float))")
    cbases = T.clist(bases, lambda b: T.cpair(T.cf(b[0]), T.cstrs(b[1])), "(float * list str)")
    exp = "(Some (%s, %s, %s))" % (cgram, cbases, T.cstrs(sorted(all_lines)))
    return ("{| pk_extra := %s; pk_raw := %s; pk_cov := %s; pk_repr := %s; pk_pfloat := %s; pk_unenc := %s; "
            "pk_abort := %s; pk_exp := %s |}" % (
                extra, T.cstrs(passwords), T.cf(cov), T.repr_table(floats), T.c_pfloat_table(ptab),
                T.clist(unenc, T.cN, "N"), common.cbool(T.surrogate_reason_aborts(enc)), exp))


# fixed lists at the edges of the trainer's comparisons (always run through the model):
# words seen exactly threshold (5) times next to their concatenation; a word one below the threshold; minimal
# multi-word length; a keyboard walk of the minimal length; years at both ends of a digit run; coverage 1
CRAFTED = [
    (["pass"] * 5 + ["word"] * 5 + ["password", "PassWord1", "wordpass!"], "utf-8", 0.6),
    (["love"] * 4 + ["monkey"] * 5 + ["lovemonkey", "monkeylove", "Monkey12"], "utf-8", 1.0),
    (["1qaz", "1qaz2wsx", "qwer", "zxcvbn1", "19991", "a2019", "2019a", "x#1", "#12"], "utf-8", 0.9),
]

PIPE_HEADER = ["From Coq Require Import List NArith ZArith Bool Floats.",
               "From Pcfg Require Import Str TextFile Counters IoCorr Pipeline PipelineCorr.",
               "Import ListNotations.", "Open Scope float_scope.", "Open Scope N_scope.", ""]
DIAG = {1: "one side has no loadable ruleset", 2: "the loaded grammar (terminal groups) differs",
        3: "the base-structure list differs", 4: "the multiset of guesses differs",
        5: "model and implementation agree but the float sanity check f64_arith_ok (hypothesis of C03_reproduced_F64) is false on this run"}


def segment_all(passwords):
    """the segmentation pass 2 of the trainer uses (multi-word detector trained on the whole list first)"""
    common.repo_on_path()
    import lib_trainer.pcfg_password_parser as ppp
    from lib_trainer.detection_rules.multiword_detector import MultiWordDetector
    mwd = MultiWordDetector(threshold=5, min_len=4, max_len=21)
    for p in passwords:
        mwd.train(p)
    cap = []
    orig = ppp.base_structure_creation

    def wrapped(sl):
        cap.append([tuple(x) for x in sl])
        return orig(sl)
    ppp.base_structure_creation = wrapped
    try:
        parser = ppp.PCFGPasswordParser(mwd)
        out = {}
        for p in passwords:
            n0 = len(cap)
            try:
                parser.parse(p)
            except Exception:
                out[p] = None
                continue
            out[p] = cap[n0] if len(cap) > n0 else None
    finally:
        ppp.base_structure_creation = orig
    return out


def run(ctx):
    nlists = ctx.scale(24, 400)
    code = common.copy_code_tree(common.scratch())
    sc = common.scratch()
    vio, samples = [], []
    dist = {"lists": 0, "passwords": 0, "supported": 0, "unsupported_ew": 0, "outside_case_domain": 0, "too_large": 0,
            "encodings": {}, "coverage": {}, "train_failed": 0, "max_sum_deviation": 0.0, "kinds": {}}
    nontrivial, seen = 0, set()
    cases = []
    pipe_cases = []
    dist["pipeline_model_runs"] = 0
    for i in range(nlists + len(CRAFTED)):
        enc = ctx.rng.choice(["utf-8", "utf-8", "latin-1", "cp1251"])
        cov = ctx.rng.choice([0.3, 0.6, 0.9, 0.95, 1.0])
        ngram = ctx.rng.choice([2, 3, 4])
        entries = trainer_io.gen_entries(ctx.rng, enc, n_distinct=ctx.rng.randint(3, 12))
        passwords = trainer_io.flatten(entries)
        if i >= nlists:
            passwords, enc, cov = CRAFTED[i - nlists]
            passwords = list(passwords)
        if enc == "utf-8" and i % 3 == 0 and i < nlists:
            # letters whose case folding differs from their lower case but whose case mapping is one-to-one
            # (Cherokee small letters), Greek and Cyrillic with capitals, a word with a final sigma (outside the domain)
            # ... and capitals whose TITLE case differs from their upper case (Georgian Mtavruli, the dz/lj/nj digraphs)
            extra = ctx.rng.sample(["ꭰꭱꭲꭳ1", "ꭰꭱꭲꭳꭴꭵ", "Ꭰꭱꭲꭳ", "Ωμέγα7", "κόσμος", "Привет1", "ÀÉÎõü", "ǆabc",
                                    "\u1c90\u10d1\u10d212", "\u01c4abc", "\u01c7ubav9", "\u1c90\u1c91\u10d2", "\u01f1eta"], 5)
            for x in extra:
                passwords += [x] * ctx.rng.choice([1, 2, 5])
        if enc == "utf-8" and i % 3 == 2:
            # legal characters that are neither controls nor line breaks: non-ASCII spaces, format characters, private use
            extra = ctx.rng.sample(["pass\u00a0word1", "love\u00ad2019", "a\u200db7", "\u3000x1", "\ue000abc", "tom\u2009cat", "x\u2060y\ufeffz"], 4)
            for x in extra:
                passwords += [x] * ctx.rng.choice([1, 2])
            dist["lists_with_unusual_blanks_or_format_chars"] = dist.get("lists_with_unusual_blanks_or_format_chars", 0) + 1
        if enc == "latin-1" and i % 2 == 0:
            passwords += ["caf\u00e9\u00a0noir", "na\u00efve\u00ad1"]
        if i % 4 == 1:
            # a history inside ONE training run: base words seen often enough to split multi-words, a three-word
            # password, and afterwards passwords that are (or end in) its two-word tail
            ws = ctx.rng.sample(["lamp", "table", "chair", "horse", "staple", "battery", "correct", "purple", "monkey", "wizard"], 3)
            hist = []
            for w in ws:
                hist += [w] * 5
            hist += ["".join(ws), ws[1] + ws[2], ws[0].capitalize() + ws[1] + ws[2] + "1", ws[1] + ws[2], "happy" + ws[1] + ws[2]]
            passwords = passwords[:len(passwords) // 2] + hist + passwords[len(passwords) // 2:]
            dist["multiword_histories"] = dist.get("multiword_histories", 0) + 1
        if not passwords:
            continue
        fn = os.path.join(sc, "train_%d.txt" % i)
        with open(fn, "wb") as f:
            for p in passwords:
                f.write(p.encode(enc) + b"\n")
        name = "T%d" % i
        rc, out, err, tree = trainer_io.train_cli(code, fn, name, enc, coverage=cov, ngram=ngram)
        replay = {"passwords": passwords, "encoding": enc, "coverage": cov, "ngram": ngram}
        if rc != 0 or not tree:
            dist["train_failed"] += 1
            continue
        dist["lists"] += 1
        dist["encodings"][enc] = dist["encodings"].get(enc, 0) + 1
        dist["coverage"][str(cov)] = dist["coverage"].get(str(cov), 0) + 1
        rd = os.path.join(code, "Rules", name)
        from lib_guesser.pcfg_grammar import PcfgGrammar
        try:
            g, _, _ = common.quiet_call(PcfgGrammar, name, rd, "4.7", None, True, False, False, "Grammar")
        except Exception as e:
            vio.append({"sig": "C03:ruleset-not-loadable", "what": "the guesser cannot load the ruleset the trainer wrote: %r" % (e,), "replay": replay})
            continue
        items, _, capped, _ = impl_next.full_stream(g, cap=ctx.scale(4000, 20000), check_heap=False)
        if capped:
            dist["too_large"] += 1
            continue
        lang = {}
        all_lines = []
        total = 0.0
        nguess = 0
        too_big = False
        for it in items:
            res = collect(g, it["pt"], None)
            if res is None:
                vio.append({"sig": "C03:expansion-raised", "what": "create_guesses raised on %r" % (it["pt"],), "replay": replay})
                continue
            all_lines += res[0]
            for s in res[0]:
                lang[s] = lang.get(s, 0.0) + it["prob"]
            total += it["prob"] * res[1]
            nguess += res[1]
            if nguess > ctx.scale(300000, 2000000):
                too_big = True
                break
        if too_big:
            dist["too_large"] += 1
            continue
        # the pipeline MODEL on the same list (small lists: the model runs inside coqc)
        if (len(set(passwords)) <= 14 and len(passwords) <= 60 and nguess <= 1500 and len(pipe_cases) < ctx.scale(24, 200)
                and not any(trainer_io.is_hex_shaped(p) or trainer_io.has_linebreak(p) or "\r" in p or "\n" in p
                            for p in passwords)):
            pipe_cases.append((pipeline_case(passwords, enc, cov, g, tree, all_lines), replay))
            dist["pipeline_model_runs"] += 1
        segs = segment_all(passwords)
        # what actually reaches the trainer: the reader may reject some lines (C19); take the accepted ones
        for p in dict.fromkeys(passwords):
            dist["passwords"] += 1
            sl = segs.get(p)
            if sl is None:
                continue
            if any(lab in ("E", "W") for _, lab in sl):
                dist["unsupported_ew"] += 1
                continue
            if not case_ok(p):
                dist["outside_case_domain"] += 1
                continue
            dist["supported"] += 1
            kinds = "".join(sorted(set(lab[0] for _, lab in sl)))
            dist["kinds"][kinds] = dist["kinds"].get(kinds, 0) + 1
            if p not in lang:
                vio.append({"sig": "C03:not-reproduced", "what": "training password %r (segments %r) is never generated from the trained ruleset "
                            "(encoding %s, coverage %s)" % (p, sl, enc, cov), "replay": dict(replay, password=p)})
            key = (p, enc)
            if key not in seen:
                seen.add(key)
                nontrivial += len(sl) >= 2 or any(c.isupper() for c in p) or any(ord(c) > 127 for c in p)
        dev = abs(total - 1.0)
        dist["max_sum_deviation"] = max(dist["max_sum_deviation"], dev)
        if dev > 1e-9:
            vio.append({"sig": "C03:sum-not-one", "what": "probabilities of all guesses sum to %r (encoding %s, coverage %s)" % (total, enc, cov), "replay": replay})
        if len(samples) < 3:
            samples.append({"passwords": passwords[:8], "encoding": enc, "coverage": cov, "guesses": nguess, "sum": total,
                            "segments": {p: segs[p] for p in list(dict.fromkeys(passwords))[:3]}})
        # a case for the composition check in Coq: masks round trip for each supported alpha tile
        for p in dict.fromkeys(passwords):
            sl = segs.get(p)
            if sl and case_ok(p) and not any(lab in ("E", "W") for _, lab in sl):
                for txt, lab in sl:
                    if lab[0] == "A" and len(cases) < 600:
                        chars = sorted(set(txt) | set(txt.lower()))
                        cases.append((txt, [(c, c.lower(), c.upper(), c.isupper()) for c in chars]))
        import shutil
        shutil.rmtree(rd, ignore_errors=True)
    # correspondence for the mask round trip (the only new model function of C03): mask_of / lower / apply on real tiles
    shards = []
    per = 150
    for s in range(0, len(cases), per):
        lits = []
        for txt, tbl in cases[s:s + per]:
            t = common.clist(["(%d%%N, (%s, %s, %s))" % (ord(c), common.cstr(l), common.cstr(u), common.cbool(iu)) for c, l, u, iu in tbl])
            lits.append("(%s, %s)" % (common.cstr(txt), t))
        src = ["From Coq Require Import List NArith Bool.", "From Pcfg Require Import Expand ExpandCorr EndToEnd.", "Import ListNotations.",
               "Definition cases : list (str * list (N * (str * str * bool))) := [", ";\n".join(lits), "].",
               "Eval vm_compute in (failing check_mask_roundtrip cases)."]
        shards.append(("m%03d" % (s // per), "\n".join(src)))
    pper = 2
    pindex = {}
    for s0 in range(0, len(pipe_cases), pper):
        chunk = pipe_cases[s0:s0 + pper]
        src = list(PIPE_HEADER)
        src.append("Definition cases : list pipe_case := [\n%s\n]." % ";\n".join(c for c, _ in chunk))
        src.append("Eval vm_compute in (map (fun kc => (fst kc * 10 + diagnose (snd kc))%nat) "
                   "(filter (fun kc => negb (check_pipeline (snd kc))) (combine (seq 0 (length cases)) cases))).")
        nm = "p%03d" % (s0 // pper)
        shards.append((nm, "\n".join(src)))
        pindex[nm] = chunk
    corr = []
    for name, idx, log in common.run_case_shards("C03", shards):
        if name in pindex:
            if idx is None:
                corr.append(("pipeline:" + name, False, "shard did not compile: " + log[-800:]))
            elif idx:
                k, why = idx[0] // 10, idx[0] % 10
                corr.append(("pipeline:" + name, False, "the pipeline model (Pipeline.v, binary64) and the real trainer -> guesser "
                             "differ: %s; first case: %s" % (DIAG.get(why, "?"), json.dumps(pindex[name][k][1], default=str)[:600])))
            else:
                corr.append(("pipeline:" + name, True, "%d training lists" % len(pindex[name])))
            continue
        if idx is None:
            corr.append(("mask-roundtrip:" + name, False, log[-800:]))
        elif idx:
            corr.append(("mask-roundtrip:" + name, False, "mask_of/lower/apply do not give back the tile for cases %s" % idx[:10]))
        else:
            corr.append(("mask-roundtrip:" + name, True, ""))
    # the translator tie of the trainer half of the pipeline model (run_trainer = Pipeline.train + the writers)
    import trainer_run_tie
    corr.extend(trainer_run_tie.obligations(("equalities", "instance")))
    rule = ("generated training lists (words, capitalised words, multi-words, digits, years, symbols, keyboard walks, context strings, "
            "spaces, Latin-1 / Cyrillic / Cherokee / Georgian letters and digraphs with a separate title case, three-word passwords followed by "
            "their two-word tails, non-ASCII spaces / format / private-use characters, e-mails, websites, duplicates) in utf-8 / latin-1 / cp1251, coverage 0.3 / 0.6 / 1, n-gram 2-4; "
            "real trainer.py subprocess, real guesser with skip_brute run to exhaustion, whole language enumerated; every supported training "
            "password must be in it and the probabilities must sum to 1 (1e-9); non-trivial = password with >= 2 segments, capitals or "
            "non-ASCII; distinct by (password, encoding).  Lists with <= 14 distinct passwords and <= 1500 guesses, plus three fixed lists "
            "at the edges of the trainer's comparisons, are also run through the pipeline MODEL inside coqc (binary64, repr/float() "
            "tables of the interpreter): loaded grammar, base structures and the multiset of guesses must coincide with the real "
            "trainer -> guesser, and the float sanity check f64_arith_ok of C03_reproduced must hold")
    return {"evaluations": dist["passwords"], "distinct_nontrivial": nontrivial, "rule": rule, "samples": samples,
            "corr": corr, "violations": vio, "dist": dist}


def replay(ctx, data):
    inp = data.get("input") or {}
    if "passwords" not in inp:
        return []
    code = common.copy_code_tree(common.scratch())
    sc = common.scratch()
    enc = inp["encoding"]
    fn = os.path.join(sc, "t.txt")
    with open(fn, "wb") as f:
        for p in inp["passwords"]:
            f.write(p.encode(enc) + b"\n")
    rc, out, err, tree = trainer_io.train_cli(code, fn, "RP", enc, coverage=inp["coverage"], ngram=inp.get("ngram", 4))
    if rc != 0:
        return []
    from lib_guesser.pcfg_grammar import PcfgGrammar
    g, _, _ = common.quiet_call(PcfgGrammar, "RP", os.path.join(code, "Rules", "RP"), "4.7", None, True, False, False, "Grammar")
    items, _, capped, _ = impl_next.full_stream(g, cap=50000, check_heap=False)
    lang = set()
    total = 0.0
    for it in items:
        res = collect(g, it["pt"], None)
        if res:
            lang.update(res[0])
            total += it["prob"] * res[1]
    v = []
    if "password" in inp and inp["password"] not in lang:
        v.append({"sig": "C03:not-reproduced", "what": "training password %r is never generated" % inp["password"], "replay": inp})
    if abs(total - 1.0) > 1e-9:
        v.append({"sig": "C03:sum-not-one", "what": "sum %r" % total, "replay": inp})
    return v
